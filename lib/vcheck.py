"""Common driver machinery for /verif checks.

Exit codes: 0 = held on everything explored, 1 = VIOLATION (real-code behaviour
contradicts the specification), 2 = machinery failure (never a verdict).
"""
import json, os, re, shutil, subprocess, sys, tempfile, time, hashlib

VERIF = os.path.dirname(os.path.dirname(os.path.abspath(__file__)))
REPO = os.environ.get("VERIF_REPO", "/repo")
SPECS = os.path.join(VERIF, "specs")
HARNESS = os.path.join(VERIF, "harness")
TLA_JAR = "/opt/veriftools/tla/tla2tools.jar"
COMMUNITY = "/opt/veriftools/tla/CommunityModules-deps.jar"


class Broken(Exception):
    """machinery failure -> exit 2"""


def goenv():
    env = dict(os.environ)
    env["GOFLAGS"] = "-mod=mod"
    env["GOPROXY"] = "off"
    env.pop("GOSUMDB", None)
    env.pop("GOTOOLCHAIN", None)
    env.setdefault("GOCACHE", "/root/.cache/go-build")
    return env


class Ctx:
    def __init__(self, pid, tier, seed, replay=None):
        self.pid = pid
        self.tier = tier
        self.seed = seed
        self.replay = replay
        self.t0 = time.time()
        self.tmp = tempfile.mkdtemp(prefix="verif-%s-" % pid, dir=os.environ.get("VERIF_TMP", "/var/tmp"))
        self.vh = None
        self.violations = []     # list of dicts {key, what, detail}
        self.known = []
        self.cov = {"states": 0, "transitions": 0, "traces_validated_against_impl": 0,
                    "samples": [], "evaluations": 0, "distinct_nontrivial": 0,
                    "tlc_runs": [], "rule": ""}
        self.assumptions = []
        self.notes = []
        self.drift = []

    # ---------------------------------------------------------------- build
    def build(self, race=False):
        """build the Go harness against /repo's current working tree (tag verif)."""
        shutil.copyfile(os.path.join(REPO, "go.sum"), os.path.join(HARNESS, "go.sum"))
        out = os.path.join(self.tmp, "vh-race" if race else "vh")
        cmd = ["go", "build", "-tags", "verif"] + (["-race"] if race else []) + ["-o", out, "./cmd/vh"]
        p = subprocess.run(cmd, cwd=HARNESS, env=goenv(), capture_output=True, text=True)
        if p.returncode != 0:
            raise Broken("harness build failed:\n" + p.stdout + p.stderr)
        if not race:
            self.vh = out
        return out

    def run_vh(self, args, timeout=3600, binary=None, env=None, check=True, stdin=None):
        e = goenv()
        e["VERIF_SEED"] = str(self.seed)
        e["VERIF_TIER"] = self.tier
        e["VERIF_REPO"] = REPO
        if env:
            e.update(env)
        try:
            p = subprocess.run([binary or self.vh] + [str(a) for a in args], cwd=self.tmp, env=e,
                               capture_output=True, text=True, timeout=timeout, input=stdin)
        except subprocess.TimeoutExpired:
            raise Broken("harness timed out: vh %s" % " ".join(map(str, args)))
        if check and p.returncode != 0:
            raise Broken("harness failed (rc=%d): vh %s\n%s\n%s" % (p.returncode, " ".join(map(str, args)),
                                                                     p.stdout[-3000:], p.stderr[-3000:]))
        return p

    # ------------------------------------------------------------------ TLC
    def tlc(self, module, cfg, mode="mc", workers=None, timeout=1800, sim=None, depth=None,
            extra=None, files=(), deque=False, name=None, xss=None, heap=None, coverage=False,
            cfg_text=None):
        """Run TLC on specs/<module>.tla with specs/<cfg> in a private scratch dir.

        Returns a dict: status in {ok, invariant, property, postcondition, deadlock, error},
        generated, distinct, cases (decoded VHCASE values), out (stdout).
        """
        name = name or (cfg.replace(".cfg", ""))
        d = os.path.join(self.tmp, "tlc-" + name)
        os.makedirs(d, exist_ok=True)
        for f in os.listdir(SPECS):
            if f.endswith(".tla") or f.endswith(".cfg"):
                shutil.copyfile(os.path.join(SPECS, f), os.path.join(d, f))
        for f in files:
            shutil.copyfile(f, os.path.join(d, os.path.basename(f)))
        if cfg_text is not None:
            with open(os.path.join(d, cfg), "w") as f:
                f.write(cfg_text)
        if workers is None:
            workers = 1 if mode in ("trace", "gen1") else min(16, os.cpu_count() or 4)
        java = ["java", "-XX:+UseParallelGC", "-Xmx%s" % (heap or "8g")]
        if xss:
            java.append("-Xss%s" % xss)
        if deque:
            java.append("-Dtlc2.tool.queue.IStateQueue=StateDeque")
        java += ["-cp", TLA_JAR + ":" + COMMUNITY, "tlc2.TLC"]
        cmd = java + ["-workers", str(workers), "-metadir", os.path.join(d, "meta"), "-config", cfg]
        if sim:
            cmd += ["-simulate", sim]
        if depth:
            cmd += ["-depth", str(depth)]
        if mode in ("sim",) or sim:
            cmd += ["-seed", str(self.seed)]
        if coverage:
            cmd += ["-coverage", "1"]
        if extra:
            cmd += extra
        cmd += [module + ".tla"]
        t0 = time.time()
        try:
            p = subprocess.run(cmd, cwd=d, capture_output=True, text=True, timeout=timeout)
        except subprocess.TimeoutExpired:
            subprocess.run(["pkill", "-f", "metadir %s" % os.path.join(d, "meta")])
            raise Broken("TLC timed out after %ds: %s %s" % (timeout, module, cfg))
        out = p.stdout
        res = {"out": out, "err": p.stderr, "rc": p.returncode, "wall_s": round(time.time() - t0, 2),
               "module": module, "cfg": cfg}
        m = re.search(r"(\d[\d,]*) states generated, (\d[\d,]*) distinct states found", out)
        if m:
            res["generated"] = int(m.group(1).replace(",", ""))
            res["distinct"] = int(m.group(2).replace(",", ""))
        else:
            m = re.search(r"(\d[\d,]*) states checked", out)
            g = int(m.group(1).replace(",", "")) if m else 0
            m2 = re.search(r"The number of states generated: (\d[\d,]*)", out)
            if m2:
                g = int(m2.group(1).replace(",", ""))
            res["generated"] = g
            res["distinct"] = g
        if "Invariant" in out and "is violated" in out:
            res["status"] = "invariant"
            m = re.search(r"Invariant (\S+) is violated", out)
            res["which"] = m.group(1) if m else "?"
        elif "Temporal properties were violated" in out or "Action property" in out and "is violated" in out:
            res["status"] = "property"
        elif "Postcondition" in out and ("violated" in out or "FALSE" in out) or "The postcondition" in out:
            res["status"] = "postcondition"
        elif "Deadlock reached" in out:
            res["status"] = "deadlock"
        elif "Assumption" in out and "is false" in out:
            res["status"] = "assumption"
        elif p.returncode != 0 or "Error:" in out:
            res["status"] = "error"
        else:
            res["status"] = "ok"
        cases = []
        for line in out.splitlines():
            i = line.find('<<"VHCASE", ')
            if i >= 0:
                body = line[i + len('<<"VHCASE", '):].rstrip()
                if body.endswith(">>"):
                    body = body[:-2]
                try:
                    s = json.loads(body)          # TLA+ string literal -> python str
                    cases.append(json.loads(s))
                except Exception:
                    pass
        res["cases"] = cases
        self.cov["tlc_runs"].append({"module": module, "cfg": cfg, "mode": mode, "status": res["status"],
                                     "generated": res.get("generated", 0), "distinct": res.get("distinct", 0),
                                     "wall_s": res["wall_s"]})
        if mode in ("mc", "gen", "sim"):
            self.cov["states"] += res.get("distinct", 0)
            self.cov["transitions"] += res.get("generated", 0)
        if coverage:
            res["zero_cov"] = re.findall(r"<(\w+) line \d+, col \d+ to line \d+, col \d+ of module (\w+)>: 0:0", out)
        shutil.rmtree(os.path.join(d, "meta"), ignore_errors=True)
        return res

    def tlc_expect_ok(self, *a, **kw):
        r = self.tlc(*a, **kw)
        if r["status"] != "ok":
            raise Broken("TLC %s/%s: status=%s\n%s" % (r["module"], r["cfg"], r["status"], r["out"][-4000:]))
        return r

    # ------------------------------------------------------------- verdicts
    def violation(self, key, what, detail=None):
        self.violations.append({"key": key, "what": what, "detail": detail})

    def absorb(self, path, what="cases"):
        """aggregate a harness result file (one Result per line)."""
        n = nt = 0
        drift = []
        classes = {}
        for r in read_ndjson(path):
            n += 1
            if r.get("nontrivial"):
                nt += 1
            for v in r.get("viol") or []:
                self.violation(v["key"], v["what"], {"case": r.get("case"), "sample": r.get("sample")})
            for d in r.get("drift") or []:
                drift.append("case %s: %s" % (r.get("case"), d))
            if r.get("class"):
                classes[r["class"]] = classes.get(r["class"], 0) + 1
            if r.get("sample") is not None:
                self.sample(r["sample"])
        self.cov["evaluations"] += n
        self.cov["distinct_nontrivial"] += nt
        if classes:
            cl = self.cov.setdefault("classes", {})
            for k, v in classes.items():
                cl[k] = cl.get(k, 0) + v
        self.drift += drift
        return n

    def check_drift(self):
        """model drift (implementation-shaped predictions no longer match, property still holds) -> exit 2."""
        if self.drift and not [v for v in self.violations]:
            raise Broken("MODEL-DRIFT: the implementation no longer follows the implementation-shaped "
                         "specification although no property-level observable is wrong; bring the spec up to date:\n  "
                         + "\n  ".join(self.drift[:10]))

    def sample(self, s, limit=6):
        if len(self.cov["samples"]) < limit:
            self.cov["samples"].append(s)

    def finish(self, level="model_checking", exhaustive=None):
        if os.environ.get("VERIF_DUMP_VIOLATIONS"):
            # maintenance aid (bin/baseline_inputs): every violation key of this run, before known findings are applied
            with open(os.environ["VERIF_DUMP_VIOLATIONS"], "w") as f:
                json.dump(sorted(set(v["key"] for v in self.violations)), f)
        kf = load_known()
        mine = [k for k in kf.get("findings", []) if k["property"] == self.pid]
        keys = {k["key"]: k for k in mine if "key" in k}
        prefixes = [k for k in mine if "key_prefix" in k]
        unlisted = []
        seen_known = {}
        # findings listed input by input: {"inputs_file": f} with f = {group: [input, ...]}, violation key "<group>@<input>"
        listed = {}
        for k in mine:
            if "inputs_file" in k:
                for g, ins in json.load(open(os.path.join(VERIF, k["inputs_file"]))).items():
                    listed[g] = (k, set(ins))
        seen_listed = {}
        for v in self.violations:
            if "@" in v["key"]:
                g, inp = v["key"].split("@", 1)
                if g in listed and inp in listed[g][1]:
                    seen_listed.setdefault(g, []).append((inp, v))
                    continue
            if v["key"] in keys:
                seen_known.setdefault(v["key"], (keys[v["key"]], v))
                continue
            pf = next((k for k in prefixes if v["key"].startswith(k["key_prefix"])), None)
            if pf is not None:
                seen_known.setdefault(pf["key_prefix"] + "*", (pf, v))
            else:
                unlisted.append(v)
        for k, (entry, v) in seen_known.items():
            print("KNOWN-FINDING: property=%s %s (%s)" % (self.pid, k, entry.get("what", v["what"])))
        for g in sorted(seen_listed):
            inp, v = seen_listed[g][0]
            print("KNOWN-FINDING: property=%s %s: %d of the %d listed inputs reproduced, e.g. %s: %s" % (
                self.pid, g, len(seen_listed[g]), len(listed[g][1]), inp, v["what"][:300]))
            seen_known[g + "@*"] = (listed[g][0], v)
        cov = self.cov
        if exhaustive is not None:
            cov["exhaustive"] = exhaustive
        if not cov["samples"]:
            cov["samples"] = ["(no sample recorded)"]
        cov["known_findings_seen"] = sorted(seen_known)
        ev = {"property_id": self.pid, "tier": self.tier, "seed": self.seed, "level": level,
              "coverage": cov, "assumptions": self.assumptions, "wall_s": round(time.time() - self.t0, 2),
              "violations": len(unlisted)}
        if self.notes:
            ev["notes"] = self.notes
        os.makedirs(os.path.join(VERIF, "evidence"), exist_ok=True)
        rc = 0
        if unlisted:
            os.makedirs(os.path.join(VERIF, "replays"), exist_ok=True)
            path = os.path.join(VERIF, "replays", "%s-%s-%d.json" % (self.pid, self.tier, self.seed))
            with open(path, "w") as f:
                json.dump({"property": self.pid, "tier": self.tier, "seed": self.seed,
                           "violations": unlisted[:50]}, f, indent=1, default=str)
            for v in unlisted[:10]:
                print("  violation key=%s: %s" % (v["key"], v["what"]))
            print("VIOLATION property=%s replay=%s" % (self.pid, path))
            rc = 1
        with open(os.path.join(VERIF, "evidence", "%s.json" % self.pid), "w") as f:
            json.dump(ev, f, indent=1, default=str)
        print("%s %s tier=%s seed=%d states=%d transitions=%d impl_traces=%d evaluations=%d wall=%.1fs" % (
            self.pid, "FAIL" if rc else "ok", self.tier, self.seed, cov["states"], cov["transitions"],
            cov["traces_validated_against_impl"], cov["evaluations"], time.time() - self.t0))
        return rc

    def cleanup(self):
        shutil.rmtree(self.tmp, ignore_errors=True)


def load_known():
    p = os.path.join(VERIF, "KNOWN_FINDINGS.json")
    if os.path.exists(p):
        return json.load(open(p))
    return {"findings": [], "fixed": []}


def write_ndjson(path, rows):
    with open(path, "w") as f:
        for r in rows:
            f.write(json.dumps(r, separators=(",", ":")) + "\n")


def read_ndjson(path):
    rows = []
    with open(path) as f:
        for line in f:
            line = line.strip()
            if line:
                rows.append(json.loads(line))
    return rows


def main(run_table):
    import argparse
    ap = argparse.ArgumentParser()
    ap.add_argument("pid")
    ap.add_argument("--tier", default=os.environ.get("VERIF_TIER", "quick"))
    ap.add_argument("--seed", type=int, default=int(os.environ.get("VERIF_SEED", "1") or 1))
    ap.add_argument("--replay", default=None)
    ap.add_argument("--keep", action="store_true")
    a = ap.parse_args()
    if a.pid not in run_table:
        print("unknown property", a.pid)
        sys.exit(2)
    ctx = Ctx(a.pid, a.tier, a.seed, a.replay)
    rc = 2
    try:
        run_table[a.pid](ctx)
        rc = ctx.finish()
    except Broken as e:
        print("CHECK-BROKEN property=%s: %s" % (a.pid, e))
        rc = 2
    except Exception:
        import traceback
        traceback.print_exc()
        print("CHECK-BROKEN property=%s: driver exception" % a.pid)
        rc = 2
    finally:
        if not a.keep:
            ctx.cleanup()
        else:
            print("kept", ctx.tmp)
    sys.exit(rc)
