#!/usr/bin/env python3
"""Regenerates /verif/MANIFEST.json from the table below (keeps it valid at all times)."""
import json, os, subprocess
VERIF = os.path.dirname(os.path.dirname(os.path.abspath(__file__)))

CHECKS = {
 "C11": dict(
   technique="TLA+ spec Conn.tla model-checked by TLC (all interleavings of caller/writer goroutine/receiver at tiny buffers) + TLC-simulated behaviours with the real buffer sizes replayed on real p2p.Conn + recorded free-running traces validated by TLC against ConnAbs.tla (property) and ConnTrace.tla (implementation-shaped)",
   text="Exhaustive TLC check of the implementation-shaped specification of p2p.Conn at small constants (Fifo, Faithful, BufOwnership, Window, Stats, CloseDelivers, liveness), bound to the code in both directions: generated behaviours (all flush placements/fragmentations around the 64Ki/1Mi boundaries) are replayed on the real Conn and compared after every call, and traces recorded from concurrent free-running sessions must be behaviours of the abstract stream specification (verdict) and of the implementation-shaped one (drift).",
   note="Trusts TLC, the harness transport (unbounded in-memory pipe), and that transport writes consume the whole buffer; writer error paths are not part of the property.",
   ref="5 C11"),
 "C19": dict(
   technique="TLA+ spec Mesh.tla model-checked by TLC (all interleavings of main threads and accept goroutines, safety + termination under fairness) + TLC behaviours replayed step by step on real p2p.Create/Join/Connect over loopback TCP through blocking verif gates + go/at traces of a seeded random gate scheduler validated by TLC (MeshTrace.tla) + free-running formations",
   text="Exhaustive TLC check of the mesh formation protocol as coded (acceptConn as two steps) for 3-5 parties, bound to the code in both directions: every generated interleaving is forced on the real code through gates at the scheduling points and the real Peers/Conns are inspected when Connect returns and by a token exchange on every (p,q,k); recorded random schedules must be behaviours of the spec with Complete/Paired/PeerListComplete/NoError evaluated at every step.",
   note="Trusts TLC, the gate placement (11 add-only calls in p2p/network.go under tag verif), loopback TCP and FIFO accept queues.",
   ref="5 C19"),
 "C01": dict(
   technique="TLA+ spec Garble.tla (garbleInto/Eval over symbolic free-XOR labels, permute bits nondeterministic) model-checked by TLC over every circuit <= 2 gates x inputs x permute bits; TLC-enumerated (circuit,input) cases replayed on real Garble/Eval/Compute; real runs' permute bits and decoded bits validated as behaviours of the spec (GarbleTrace.tla)",
   text="TLC enumerates every circuit of up to 2 gates over 2 inputs (all wirings, fan-out, a=b) with every input and every permute-bit assignment of every label atom (3.8M states) plus simulated 3x3 circuits, checking ActIsLabel/Decodes/FreeXor/TweakSync/RowsSent; each enumerated (circuit,input) is run on the real code with 16/24/32-byte keys and fresh randomness and every wire is compared with the predicted bit; recorded real runs are validated against the symbolic spec with the permute bits bound to the observed ones.",
   note="Trusts TLC and the symbolic abstraction of AES as independent pads; internal permute bits are observed, not forced (coverage of (op,pa,pb,va,vb) tuples is reported).",
   ref="5 C01"),
 "C02": dict(
   technique="TLA+ spec TwoParty.tla (Garbler/Evaluator statement order over the symbolic labels of Garble.tla, ideal OT) model-checked by TLC (Agreement/Correct/NoError/termination); every enumerated session replayed on real circuit.Garbler/Evaluator with RSA/CO/COT/COT-malicious over a fragmenting transport; observed results validated as behaviours of the spec (TwoPartyTrace.tla)",
   text="TLC checks the protocol model for every circuit of <= 2 gates, every split of the inputs between the parties (incl. 0-bit parties), every output count and input; the same enumeration (17k sessions; a seeded sample in the quick tier) is executed on the real code with all four OT flavours and random read fragmentation, together with compiled MPCL programs (multi-output, odd widths, inputs wider than the OT extension blocks, concurrent sessions on one shared circuit value); recorded results and OT usage must be the spec's.",
   note="Trusts TLC, ideal OT in the model (real OT is exercised by the sessions), the harness transport.",
   ref="5 C02"),
 "C04": dict(
   technique="TLA+ knowledge-set invariants (NoPair/NoRDiff/NoR over everything the garbler transmits) model-checked on TwoParty.tla; real transcripts of whole-circuit (4 OT flavours), streaming and sha2pc sessions scanned at every byte offset against R recomputed from recorded randomness, events validated by TLC against SecrecyTrace.tla",
   text="The model's `sent` set (tables, own-input labels, OT-released labels) satisfies NoPair/NoRDiff/NoR for all circuits <= 2 gates; on the real code every byte the garbler writes is recorded, all labels are recomputed by re-garbling from the recorded randomness, every 16-byte window at every offset is classified (label of wire w / differs by R from another window / equals R) and the resulting event trace must satisfy the same invariants in TLC; the labels handed to OT.Send must be exactly the evaluator's input wires, once.",
   note="Trusts TLC, ideal OT, the recomputation of R (cross-checked against the transcript and the OT wire pairs); window collisions have probability ~2^-100.",
   ref="5 C04"),
 "C16": dict(
   technique="TLA+ fault action Corrupt on every message field of TwoParty.tla model-checked by TLC (NeverWrong); real whole-circuit (CO, COT) and streaming sessions behind a corrupting transport, every byte offset of both directions in the thorough tier, outcomes validated by TLC against CorruptTrace.tla",
   level="model_checking",
   text="TLC explores one or two corruptions of any field (key, counts, table rows, input labels, OT outcome, offset/count, returned output labels, result) over all small circuits and shows the garbler's BitFromLabel/range checks make a wrong value impossible; on the real code each (direction, byte offset, mask/burst) coordinate is one complete session in a child process under an address-space limit; the garbler's outcome class per field class is checked against the model and a returned value must be the correct one.",
   note="Trusts TLC, the symbolic-label abstraction (a corrupted label never equals the sibling label), the stall detector of the harness transport.",
   ref="5 C16"),
 "C05": dict(
   technique="TLA+ spec Stream.tla (Program.GC placement + wire-id allocator, as coded) model-checked by TLC over all small SSA programs (NoClobber/NoLiveOnFree); generated alias-heavy MPCL programs run in streaming and whole-circuit mode on the real code; the steps Program.Stream executes (verif hook) validated by TLC against the dataflow discipline of StreamTrace.tla",
   text="TLC enumerates every SSA program of up to 3 steps (5 in simulation) over arithmetic/alias/concat steps and two value sizes and checks that GC placement plus LIFO id recycling never lets a step read a recycled wire (it produces the counterexamples of the two repaired defects when the model is set back); on the real code templates and seeded generated programs (incl. > 65535 live ids) are streamed and compared, for both parties, values and output types, with Compile+Compute; every recorded step of real runs is checked by TLC: each wire read must still hold what its producer wrote.",
   note="Trusts TLC, whole-circuit Compute as reference, the verif hook in Program.Stream (1 add-only call).",
   ref="5 C05"),
 "C17": dict(
   technique="TLA+ spec Pool.tla (lazy pool creation by Load/CAS, sync.Pool Get/Put with runtime drops, non-atomic fill, idempotent Release) model-checked by TLC over all interleavings; forced CAS race replayed through a verif gate; stress histories (buffer identity, handle lifetimes) validated by TLC against PoolTrace.tla; the same stress under the Go race detector",
   text="TLC explores every interleaving of 2-3 goroutines x up to 5 Garble/Release operations incl. double release and buffers dropped by the runtime and checks StableUntilRelease/Exclusive/NoDoublePut/NoOverwrite/OnePool (deviations such as a Release that keeps its scratch or a Garble that re-pools on return are rejected by the model); on the real code the creation race is forced through a gate, 2-8 goroutines share one fresh circuit, every garbling is evaluated against Compute when made and again right before release, the recorded lifetimes per scratch buffer must be exclusive in TLC, and the race detector must stay silent.",
   note="Trusts TLC, the Go race detector (for 'free of data races'), buffer identity = address of Wires[0]; a process crash while sharing a circuit counts as a violation.",
   ref="5 C17"),
 "C18": dict(
   technique="TLA+ spec Sha2pc.tla (four rounds, persist/restart of either party, re-encoding, one foreign or malformed message, checks placed where the code performs them) model-checked by TLC; every behaviour replayed on the real rounds with all messages and sessions as bytes on four curves; mutation and interleaving drivers",
   text="TLC enumerates every pattern of restarts and re-encodings with at most one message replaced by that of another session, of a session on another curve with the same id, or by bytes that do not parse (1183 behaviours; Digest/Rejects/NoFaultNoError, termination); each behaviour is executed on GarblerRound1/3, EvaluatorRound2/4 and the Encode/Decode functions (all of them on P-256 in the thorough tier, samples on P-224/384/521), comparing the outcome and the rejecting stage with the prediction, checking Encode(Decode(x)) = x on every valid message and session, the fixed sizes, random mutations (no crash, no wrong digest) and payloads held across interleaved sessions.",
   note="Trusts TLC, crypto/sha256 as the reference digest, P-256 as the mutation target.",
   ref="5 C18"),
 "C10": dict(
   technique="TLA+ specs Gmw.tla (bit-level algebra of triple dealing and of an AND batch over all share/mask/OT values) and GmwPool.tla (producer/announce/deal/consume of the triple pool, SameWords + liveness) model-checked by TLC; real 2-5 party runs over loopback TCP with every party's AND-batch shares (verif hook) checked in full and validated by TLC against GmwTrace.tla; pool-alignment driver with identical Get sequences at different paces",
   text="TLC checks TripleOK/AndOK for every assignment of shares, Deltas and OT outputs (2 parties, thorough: 3 parties, exhaustively; quick: 3 parties in simulation) and, for the pool, every interleaving of the leader's producer, the followers and the consumers (words consumed are the same at every party, every Get is served); real runs on circuits compiled for GMW (many AND levels, batch sizes 64k and not, > 4096 gates per level) with random start delays must return Compute's outputs at every party; for every AND batch the recorded shares of all parties must recombine (valid triple, correct opening, z = x AND y) - all words in the harness, sampled bits incl. word boundaries in TLC.",
   note="Trusts TLC, loopback TCP, the verif hook in andBatchFlush (1 add-only call); privacy of the dealing (v = b is sent in clear) is outside C10.",
   ref="5 C10"),
 "C06": dict(
   technique="TLA+ spec OTExt.tla (IKNP extension at bit level with scaled constants: chunking, byte/word packing, PRG stream cursors of both sides, label and packed-bit forms) model-checked by TLC over all batch sizes, choice vectors and Delta; TLC-generated batch sequences with predicted chunk message sizes run on real IKNP pairs with every index checked; RSA/CO/COT/ROT through the ot.OT interface",
   text="TLC checks Correlation (received = sent xor choice*Delta per index, both forms) and Lockstep of the PRG streams for every n up to 10-12, every choice vector, every Delta and sequences of two batches, and rejects three deviations (tail word ignored - the repaired defect -, SendBits advancing one column only, stale choice bytes); the generator enumerates batch sequences over sizes around the 8/64/128/512/1024 boundaries with the chunk message sizes of the real constants; each sequence runs on one initialised real IKNP pair (Delta bit 0 forced both ways, six choice patterns, malicious-checked batches included) and every index is compared; COT/ROT in both adversary modes, CO and its pure helpers and RSA are exercised on the same sizes.",
   note="Trusts TLC, the arbitrary-but-fixed PRG pattern of the model, honest base OT.",
   ref="5 C06"),
 "C15": dict(
   technique="TLA+ spec Kos.tla (consistency check over unreduced GF(2) polynomial products, fault = one flipped matrix bit) model-checked by TLC (HonestAccepts, Sound, Exact: rejected iff Delta selects the column, the row is used and chi_row # 0); flips of every (column,row) of payload and check matrices and of the challenge response on real IKNP pairs behind a tampering ot.IO, outcomes validated by TLC against KosTrace.tla",
   level="model_checking",
   text="TLC proves on the scaled model (3-bit labels, all Delta, choices, challenge coefficients, flips incl. padding rows) the exact acceptance condition of a single flip; on the real code each coordinate of the extension matrix of the payload batch (n = 1, 8, 9, 129) and of the 256-row check batch - all 152k of them in the thorough tier, a seeded 2% in quick - is flipped in transit, the sender's accept/abort and the correlation of its outputs for the original choices are recorded with Delta known to the harness, and TLC validates every outcome; honest runs up to n = 2049 must be accepted; altered response labels must be rejected.",
   note="Trusts TLC; chi_row = 0 (probability 2^-128) is excluded; mul128 is exercised only through the check's observable outcome.",
   ref="5 C15"),
 "C20": dict(
   technique="TLA+ spec Shares.tla (VOLE, Fx, Fxk relations as coded, incl. unreduced wire values) model-checked by TLC over all field elements of small primes and all bits/labels; real vole and bmr.Fx*/Fxk* runs over CO OT with every element checked, small-modulus and Fx/Fxk events validated by TLC against SharesTrace.tla; concurrent instances under the race detector",
   text="TLC checks u - r = x*y mod p with range conditions for every (p, x, y, r) of five small primes, and the Fx/Fxk share equations for all bits and 3-bit labels; on the real code VOLE sessions of 2-3 Mul calls (lengths 1..2000 across chunk boundaries; P-256 prime, 2^255-19, 2^256-189, 65537, small primes, also changing between calls; elements 0, 1, p-1, short, random) are verified element-wise with math/big, and the recorded small-modulus elements and all Fx/Fxk runs (all (a,b), boundary labels) by TLC; Fx/Fxk also run from 8 concurrent instances and under the race detector.",
   note="Trusts TLC, math/big for 256-bit moduli, the Go race detector for the overlap of concurrent instances.",
   ref="5 C20"),
 "C03": dict(
   technique="TLA+ spec Mpcl.tla: the documented core of MPCL as a three-address language with a reference interpreter (TLC states are programs); TLC-generated programs with predicted results rendered to MPCL, compiled by the real compiler and compared bit for bit; every shipped @Test vector evaluated on the real circuit",
   level="model_checking",
   text="The specification fixes the meaning of wrapping arithmetic, signed/unsigned comparison, truncating division, constant shifts, casts, literal operands, if/else phi (incl. nested ifs and calls inside a branch), early return, unrolled loops, arrays, structs and multi-result calls; TLC's simulation enumerates thousands of programs per run over several width sets and evaluates each with the interpreter on up to 49 boundary input pairs; the harness renders each program as MPCL source, compiles it with compiler.New(params).Compile and compares Circuit.Compute with the prediction; the repository's own 205 @Test vectors (72 programs) are re-evaluated the way testsuite_test.go reads them.",
   note="Trusts TLC and the renderer (a total function from the three-address form to MPCL source); widths above 13 bits are covered relationally under C07; programs the compiler rejects are counted separately.",
   ref="5 C03"),
 "C07": dict(
   technique="TLA+ spec Arith.tla (exact reference function of every builder per operand/result width; one TLC state per (op, wx, wy, wz) with its complete truth table) compared with the circuits the real builders produce for Yao and GMW; wide operands validated relationally by TLC with the limb arithmetic of BV.tla (ArithTrace.tla)",
   level="model_checking",
   text="TLC enumerates every (builder, wx, wy, wz) for widths 1..5 (all pairs; result widths max, max+1, 2*max, 2*max+3) and equal widths up to 8 and prints the complete truth table of the exact function (23 builders incl. signed/unsigned division and modulo, comparators, mux, bitwise, Hamming); the harness builds each circuit the way ssa/circuitgen.go does (intermediate wires, ID to outputs, ConstPropagate, ShortCircuitXORZero, optional Prune, Compile) for both targets and compares every entry; for operand widths 7..130 (every Karatsuba switch point +-1, 2^k and 2^k+-1) boundary-pattern operands are evaluated on the real circuits and TLC checks each result relationally on base-4096 limbs (z+y = x mod 2^wz, q*y+r = x and r < y, sign rules).",
   note="Trusts TLC, Circuit.Compute as evaluator, the limb arithmetic (self-checked by an ASSUME against TLC's native integers); deviations for result widths above the operand widths and two GMW divider cases are listed in KNOWN_FINDINGS.json.",
   ref="5 C07"),
 "C08": dict(
   technique="TLA+ spec Determ.tla (histories of compile operations over processes with shared Params / shared Compiler / fresh state; hidden state memo, cache, map order; invariant Deterministic, each named leak rejected by TLC); its histories (DetermGen.tla) are executed by real compilations in separate OS processes and the recorded (request, circuit hash, SSA hash) events are decided by trace validation (DetermTrace.tla)",
   level="model_checking",
   text="TLC checks that in the design no history makes two equal requests (program, input sizes, parameter values) differ, and that letting the Params memo, the Compiler's package cache or the map iteration order reach the output violates it. Simulated histories of 4..8 operations over up to 3 OS processes - fresh Params and Compiler, a new Compiler on the process' shared Params (what apps/garbled does), the process' reused Compiler - are run for programs with unsized multiplications (16/32/64-bit), arithmetic, struct/loop code and programs importing four library packages with package-level variables and constants (thorough: HMAC-SHA256, AES+SHA256), under the default, pruning, GMW and fixed-threshold parameters; every compilation is an event and DetermTrace.tla requires one circuit hash and one SSA hash per request over all histories and processes.",
   note="Go's map order cannot be forced without changing the code under test: order dependence is sampled by repetition (>= 4 compilations per request in >= 2 processes). Trusts SHA-256 of Circuit.Marshal / Params.SSAOut as the observation.",
   ref="5 C08"),
 "C09": dict(
   technique="TLA+ spec Opt.tla (ConstPropagate / ShortCircuit / Prune as a transition system over all small gate graphs, invariant SameFunction, exhaustively model-checked) whose graphs (OptGen.tla) are replayed through the real passes for both targets; TLC-generated MPCL programs (Mpcl.tla) compiled under every option combination and compared on every input",
   level="model_checking",
   text="TLC explores every graph of up to 2 (all operators) / 3 (XOR, AND, INV) gates over 2 inputs and the constant wires with every output marking and checks after each step of the passes that the circuit outputs still compute the original function, that attached constants are sound, that no output loses its driver and that gate order stays topological; the same graphs (plus simulated 4-gate graphs) are built with the real circuits.Compiler, optimised with pruning on and off for Yao and GMW, and compared on all inputs with the graph's truth table; generated programs are compiled under {prune} x {multiplier thresholds 0, 8, 16, 21, 64} x {Yao, GMW} and compared on every input (exhaustive up to 16 input bits) with the interpreter's prediction for the default configuration.",
   note="Trusts TLC, Circuit.Compute as evaluator and the harness' graph builder; Opt.tla puts output flags directly on gate wires whereas the code feeds outputs through identity gates.",
   ref="5 C09"),
 "C12": dict(
   technique="TLA+ specs Fold.tla (typed operator semantics of Mpcl.tla; TLC prints every operand pair of the narrow types with the expected value) and FoldCat.tla / FoldTrace.tla (TLC spans the wide case space and decides each recorded case on base-4096 limbs), bound to the compiler by compiling the constant and the run-time variant of every case",
   level="model_checking",
   text="For every case (operator incl. unary - and !, intN/uintN for 13 widths from 8 to 130 and every width <= 4, operand patterns on the 32/64/minimal storage sizes, consumer: returned, +1, /3, <2, <<1, reused with the operand) the harness compiles the expression on typed package constants (CompileSSA confirms nothing is left to compute) and on run-time parameters, evaluates both circuits, and FoldTrace.tla decides equality and - where BV.tla defines it - the typed reference value; narrow types are compared with the expected value Fold.tla derives from the interpreter semantics. Quick: seeded sample of 7000 of the 234450 cases plus 150 narrow (operator, type, consumer) tables; thorough: the whole space.",
   note="Trusts TLC, Circuit.Compute as evaluator, the limb arithmetic (ASSUME SelfTest). The unchanged compiler folds differently from its circuits on 36789 inputs of the fixed case space (storage-size instead of declared-type semantics); they are listed one by one in known/C12.inputs.json and any other discrepancy is a violation.",
   ref="5 C12"),
 "C13": dict(
   technique="TLA+ spec IOEnc.tla (arguments as member sequences, values as bit sequences; layout Wires; invariants RoundTrip, NonInterference, NumbersAgree, SizesSuffice model-checked over all small arguments); its cases (IOEncGen.tla) drive IOArg.Parse, IOArg.Set, InputSizes/InstantiateWithSizes and mpc.Result; observations for members of 1..130 bits are decided by trace validation (IOEncTrace.tla)",
   level="model_checking",
   text="TLC checks on every argument of up to 2 (thorough: 3) members over small types that decoding inverts the layout, that replacing one member's value leaves all other members' wires unchanged, that the textual (two's complement of the spelled number) and the typed reading agree and that the inferred size holds what is written. TLC-generated arguments (1..4 members: bool, intN/uintN of 1..32 bits, arrays and slices incl. empty and short literals) are pushed through Parse under five spellings, Set under two Go-type variants with a fresh and a reused result, InputSizes+InstantiateWithSizes+Parse of the unsized variants and Result (twice, argument compared before/after); the wires must equal the specification's. Random arguments with member widths 1..130 are recorded as observations and each is decided by IOEncTrace.tla; a deliberately corrupted observation must be rejected on every run.",
   note="Trusts TLC and the harness' mechanical conversions between bit sequences, spellings and Go values. Array spellings are hexadecimal with nibble-aligned element widths; strings and struct results are not decoded.",
   ref="5 C13"),
 "C14": dict(
   technique="TLA+ spec CircFile.tla (ParseMPCLC / ParseBristol as a transition system over ALL small files: declared counts, I/O sizes, gate records with arbitrary fields; invariants NoCrash, AcceptsOnlyWellFormed, RejectsOnlyIllFormed; liveness Terminates), its files replayed with the modelled verdict through the real parsers (CircFileGen.tla); Marshal/Parse/Marshal round trips and byte-level mutation judged by the property",
   level="model_checking",
   text="TLC starts from every file over a small alphabet (0..2 declared gates, 0..2 wires (thorough: 3), 4 input shapes, up to 2 records with every field value) for both formats and checks that the modelled parser never indexes outside the gate array, accepts exactly the well-formed files and always terminates; a second run without the gate-index check must reach the crash state. All these files are serialised in both formats and parsed by the real code: the outcome must be the model's, accepted circuits are compared gate by gate and re-marshalled byte for byte. Generated signatures (all scalar types, nested arrays, slices, struct arguments with compound members, empty/long/non-ASCII names, headers and names beyond the parser's 4096-byte buffer, INV-only circuits) and compiled programs are round-tripped in both formats; 3000 (thorough 40000) truncations, extensions, bit flips, digit changes, field splices and boundary counts of valid files must yield an error or a circuit passing an independent well-formedness check within 10 s.",
   note="Trusts TLC and the harness' serialiser of abstract files. Declared sizes above a million are skipped.",
   ref="5 C14"),
}

NOT_APPLICABLE = {}

# additions of the third session (appended to the texts above)
ADDENDA = {
 "C09": (" Single-operator programs at 33..100 bits are compared across all configurations; two further configurations switch on diagnostics and every listing (SSA, dot, circuit file, svg): asking for more output must not change the circuit. A further configuration switches all warnings off; programs whose results are partly literals and returns inside unrolled loops are part of the corpus.", ""),
 "C14": (" Round trips include signatures with more than 2000 arguments (header lines beyond a reader buffer).", ""),
 "C12": (" The same folds are also reached on other routes (constant locals, constant arguments, an unsized function instantiated for the same constants at two widths, a constant that is also cast to a wider type); a routed fold that differs from the package-constant fold of the same typed operands has its own key (fold-route).", ""),
 "C01": (" Garbling randomness also comes from degenerate streams (all zero, all one, counting, one bit per byte) and labels are compared byte by byte, independent of Label.Equal. Wide input arguments are also given as small negative numbers (-1, -k).", ""),
 "C03": (" Mpcl.tla also covers returns inside unrolled loops (guarded by the loop variable or a run-time condition), nested loops, the loop variable as operand, a local shadowing a package-level variable, and two-operator expressions without parentheses (precedence, associativity); a refusal of a generated program other than the one known class is a violation. Tuple assignments (variables, struct fields, array elements, call results, a tuple in a loop header) and compound assignments (op=, ++/--, on variables, fields and elements, a loop over len) are statement kinds of Mpcl.tla; literal operands beyond 64 bits are enumerated.", ""),
 "C04": (" TwoParty.tla has a deviating evaluator (any OT range, any choice bits): Secrecy is model-checked under the range check as coded and a loosened check is rejected; on the real code the evaluator's range message is rewritten to seven other ranges and what the garbler hands to OT is inspected. Streaming sessions with input arguments of more than 65536 wires.", ""),
 "C05": (" Second layer StreamWire.tla (gate message encoding, declarations, the evaluator's paged and temporary label stores) model-checked by TLC with two deviation guards; transcripts of real streaming sessions are parsed into messages by an independent parser and validated as behaviours of the evaluator machine (StreamWireTrace.tla, drift level). Corpora include cache-stress programs (same operator, partly equal operand types), struct/array-of-array/bool arguments and results, builtin circuits. Native circuits called directly with constants narrower than their inputs.", ""),
 "C06": (" A sub-protocol in which sender and receiver wait for each other is an outcome (stall), and the outputs of earlier batches are re-validated after later batches on the same instance.", ""),
 "C07": (" Arith.tla also defines array index (the documented low-bits rule), logical and/or and bit tests with a constant bit number; complete tables for arrays of 1..6 (8) elements.", ""),
 "C08": (" Histories include a program that fails to compile after imported packages were instantiated and a program importing several packages with package-level variables. Determ.tla has the share mode 'par' (compilations at the same time in one process, guard LeakScratch); the child runs such operations concurrently.", ""),
 "C10": (" GmwNet.tla (formation of the network: online/offline connection per pair, sequential accept loops, leader phases, peer list; Complete/NoError/ListComplete/termination) model-checked for 2-4 parties (5 by simulation in the thorough tier); every real run inspects the connection table when Connect returns (tagged accessor), runs further circuits on the used network and counts a crash of a library goroutine as an outcome.", ""),
 "C11": (" The library's own in-memory transport p2p.Pipe is exercised with an early Close and a late, slow reader. Buffer dimensions (write and read buffer size, number of write buffers) are measured on a live Conn and substituted into the generator and trace configurations; the caller overwrites its buffer as soon as SendData has returned.", ""),
 "C13": (" Also: string results and arrays of strings/booleans (IOEnc.tla StrWires/StrChars), circuit.Sizes (size inference from Go values: sufficient, equal to the textual form, read back), mpc.Results. Compiled programs with a struct argument that mixes sized and unsized members return every member (the layout Parse/Set produce is the layout the program reads).", ""),
 "C15": (" The outputs of earlier accepted batches are re-validated after later Sends on the same sender. An honest batch follows every aborted one on the same pair (it must not abort or hang); batch sizes include exact multiples of 1024. Kos.tla covers a second flip in the column; flips are located by the batch's global row while the messages pass (no assumption about message sizes), the place of the check rows is measured.", ""),
 "C16": (" In streaming sessions every program-information byte and the first fields of the result message are also halved (smaller sizes/counts), not only flipped. The same alteration is also applied to two, three and four returned result labels at once. A panic of the garbler's own code on corrupted input is a violation (neither error, aborted stall nor the correct value).", ""),
 "C17": (" Pool.tla models Garble failing after Get (FailPuts; a double Put on the error path is rejected); stress goroutines garble with a randomness source that gives out part way. Pool.tla has a Use action (a holder reads its garbling only while it holds it; releasing early and reading on is rejected); whole Garbler/Evaluator sessions overlap on one circuit value with the older sessions' peers held after OT.", ""),
 "C19": (" Mesh.tla rejects an accept loop that runs before need[] is set (EarlyAccept); free-running formation holds the highest-id joiner at the peer-list gate while lower ids dial it. A party that starts 12.5 s (thorough: also 35 s and 65 s) after it joined must still be admitted. A joiner that starts before the leader and retries, and parties on distinct loopback hosts sharing a port number; Mesh.tla dials the targets of a round in any order.", ""),
 "C20": (" Moduli around the machine word sizes (2^31-1 .. 2^64+13, 2^127-1, 2^128-159, 2^192-237) are part of every run. Sender inputs also arrive in other representations of the residue (a-p, a+p, negative numbers).", ""),
}


def main():
    for pid, (t, x) in ADDENDA.items():
        CHECKS[pid]["technique"] += t
        CHECKS[pid]["text"] += x
    props = [json.loads(l) for l in open(os.path.join(VERIF, "properties.jsonl"))]
    checks = []
    for p in props:
        pid = p["id"]
        if pid not in CHECKS:
            continue
        c = CHECKS[pid]
        checks.append({
            "property_id": pid,
            "quick_cmd": "bin/check %s --tier quick" % pid,
            "thorough_cmd": "bin/check %s --tier thorough" % pid,
            "evidence_file": "/verif/evidence/%s.json" % pid,
            "replay_cmd_template": "bin/check %s --replay {path}" % pid,
            "engine": "tlc+vh",
            "level_claimed": {"category": c.get("level", "model_checking"), "text": c["text"], "design_ref": "DESIGN.md section " + c["ref"]},
            "level_note": c["note"],
            "technique": c["technique"],
        })
    na = []
    for p in props:
        if p["id"] not in CHECKS:
            na.append({"property_id": p["id"], "reason": NOT_APPLICABLE.get(p["id"], "check not built yet in this round; see DESIGN.md for the planned TLA+ specification and binding")})
    hooks = []
    try:
        out = subprocess.run(["git", "-C", "/repo", "log", "--format=%H %s"], capture_output=True, text=True).stdout
        for line in out.splitlines():
            h, _, s = line.partition(" ")
            if s.startswith("verif hook:"):
                hooks.append(h)
    except Exception:
        pass
    m = {
        "version": 1,
        "setup_cmd": "cp /repo/go.sum /verif/harness/go.sum && cd /verif/harness && GOFLAGS=-mod=mod GOPROXY=off go build -tags verif -o /dev/null ./cmd/vh",
        "hooks": {
            "guard": "verif (Go build tag)",
            "enable": "go build -tags verif (the harness module replaces github.com/markkurossi/mpc with /repo)",
            "baseline_off_cmd": "cd /repo && GOFLAGS=-mod=mod GOPROXY=off go test -vet=off -count=1 -timeout 25m ./...",
            "source_commits": hooks,
            "add_only": True,
        },
        "engines": [
            {"name": "tlc+vh", "path": "/verif/bin/check", "serves_properties": sorted(CHECKS),
             "kind_free_text": "python driver running TLC (tla2tools 1.8.0) on /verif/specs and the Go conformance harness /verif/harness/cmd/vh built with -tags verif against /repo's working tree"},
        ],
        "checks": checks,
        "not_applicable": na,
        "notes": "exit 0 held / exit 1 + VIOLATION line / exit 2 machinery failure or model drift (never a verdict). KNOWN_FINDINGS.json lists genuine defects recorded rather than repaired.",
    }
    json.dump(m, open(os.path.join(VERIF, "MANIFEST.json"), "w"), indent=1)
    print("MANIFEST.json:", len(checks), "checks,", len(na), "not claimed")

if __name__ == "__main__":
    main()
