"""Per-property check procedures. Each takes a vcheck.Ctx."""
import json, os, random, re
from vcheck import Broken, write_ndjson, read_ndjson, SPECS

TABLE = {}


def prop(pid):
    def deco(f):
        TABLE[pid] = f
        return f
    return deco


def tlc_reject_line(out):
    """(line number, line json) printed by a trace spec's postcondition, if any"""
    import re
    m = re.search(r'<<"VHREJECT", (\d+), (.*)>>', out)
    if m:
        return int(m.group(1)), m.group(2)
    return None, None


# ---------------------------------------------------------------------- C11
CONN_MC = """SPECIFICATION Spec
CONSTANTS
  WBuf = 4
  RBuf = 6
  NBufs = 3
  Lens = {0, 1, 5, 9}
  SizesLens = {0, 2}
  MaxOps = %d
INVARIANT Safety
PROPERTY EventuallyAllReceived
CHECK_DEADLOCK FALSE
"""


@prop("C11")
def c11(ctx):
    thorough = ctx.tier == "thorough"
    ctx.build()
    ctx.assumptions += ["transport Write consumes the whole buffer (net.Conn / io.Pipe semantics)",
                        "error paths (writerErr) are outside C11",
                        "one goroutine sends and one receives per Conn"]
    # (M) every interleaving of caller, writer goroutine and receiver at tiny buffer sizes
    ctx.tlc_expect_ok("Conn", "Conn_mc.cfg", cfg_text=CONN_MC % (3 if thorough else 2), timeout=3000)
    # the buffer dimensions are the implementation's own (measured on a live Conn), not numbers copied into the cfg files:
    # the specification is generic in them and so is the property
    k = json.loads(ctx.run_vh(["c11", "consts"], timeout=120).stdout)
    W, R, NB = k["wbuf"], k["rbuf"], k["nbufs"]
    ctx.cov["implementation_constants"] = k
    lens = sorted({0, 1, 15, 16, 17, W - 5, W - 4, W - 3, W - 1, W, W + 1, W + 5, 2 * W, R - 1, R, R + 1, 3 * R})

    def conn_cfg(name):
        t = open(os.path.join(SPECS, name)).read()
        t = re.sub(r"WBuf = \d+", "WBuf = %d" % W, t)
        t = re.sub(r"RBuf = \d+", "RBuf = %d" % R, t)
        t = re.sub(r"NBufs = \d+", "NBufs = %d" % NB, t)
        if "Lens = {0," in t:
            t = re.sub(r"  Lens = \{[^}]*\}", "  Lens = {%s}" % ", ".join(str(x) for x in lens if x >= 0), t)
        return t
    # (G) behaviours with the real buffer sizes, replayed on the real Conn
    num = 400 if thorough else 40
    g = ctx.tlc("ConnGen", "Conn_gen.cfg", mode="sim", workers=1, sim="num=%d" % num, depth=30000, timeout=1500, cfg_text=conn_cfg("Conn_gen.cfg"))
    if g["status"] != "ok" or not g["cases"]:
        raise Broken("generator produced no cases: %s\n%s" % (g["status"], g["out"][-2000:]))
    cases = os.path.join(ctx.tmp, "c11cases.ndjson")
    write_ndjson(cases, g["cases"])
    res = os.path.join(ctx.tmp, "c11res.ndjson")
    ctx.run_vh(["c11", "replay", cases, res], timeout=3000)
    n = ctx.absorb(res)
    ctx.cov["traces_validated_against_impl"] += n
    ctx.cov["generated_behaviours"] = len(g["cases"])
    # (T) free-running sessions validated against the abstract property spec and the impl-shaped spec
    nsess = 60 if thorough else 8
    trace = os.path.join(ctx.tmp, "conn_trace.ndjson")
    res2 = os.path.join(ctx.tmp, "c11rec.ndjson")
    ctx.run_vh(["c11", "record", trace, res2, nsess], timeout=3000)
    ctx.absorb(res2)
    # reads that end at, just before and just after the end of the 1 MiB read buffer (the implementation's real constant)
    res3 = os.path.join(ctx.tmp, "c11bufend.ndjson")
    ctx.run_vh(["c11", "bufend", res3], timeout=3000)
    ctx.absorb(res3)
    nev = len(read_ndjson(trace))
    ctx.cov["trace_events"] = nev
    a = ctx.tlc("ConnAbs", "ConnAbs.cfg", mode="trace", files=[trace], timeout=1500)
    if a["status"] == "invariant":
        ctx.violation("trace:" + a.get("which", "Property"),
                      "recorded run violates the abstract stream property (ConnAbs.%s)" % a.get("which"),
                      a["out"][-3000:])
    elif a["status"] != "ok":
        raise Broken("ConnAbs trace check failed: %s\n%s" % (a["status"], a["out"][-3000:]))
    t = ctx.tlc("ConnTrace", "ConnTrace.cfg", mode="trace", files=[trace], timeout=1500, cfg_text=conn_cfg("ConnTrace.cfg"))
    if t["status"] == "ok":
        ctx.cov["traces_validated_against_impl"] += 2 * nsess
    elif t["status"] in ("postcondition", "invariant"):
        ln, line = tlc_reject_line(t["out"])
        ctx.drift.append("ConnTrace rejects the recorded run at line %s: %s (%s)" % (ln, line, t.get("which", "")))
    else:
        raise Broken("ConnTrace failed: %s\n%s" % (t["status"], t["out"][-3000:]))
    # binding self-test: a corrupted field and a dropped event must both be rejected
    rows = read_ndjson(trace)
    st = {}
    for name, mut in (("corrupt-field", "corrupt"), ("drop-event", "drop")):
        r2 = [dict(r) for r in rows]
        idx = [i for i, r in enumerate(r2) if r["ev"] == "write"]
        i = idx[len(idx) // 2]
        if mut == "corrupt":
            r2[i]["a"] += 1
        else:
            del r2[i]
        p = os.path.join(ctx.tmp, "selftest", "conn_trace.ndjson")
        os.makedirs(os.path.dirname(p), exist_ok=True)
        write_ndjson(p, r2)
        x = ctx.tlc("ConnTrace", "ConnTrace.cfg", mode="trace", files=[p], timeout=1500, name="selftest-" + mut, cfg_text=conn_cfg("ConnTrace.cfg"))
        st[name] = x["status"]
        if x["status"] == "ok":
            raise Broken("binding self-test: ConnTrace accepted a trace with a %s" % name)
    ctx.cov["binding_selftest"] = st
    ctx.cov["rule"] = ("a replayed behaviour is non-trivial when it flushes at least once and uses >= 3 message kinds; "
                       "a free-running session is non-trivial when it carries payloads around the 64Ki/1Mi buffer boundaries")
    ctx.check_drift()


# ---------------------------------------------------------------------- C19
MESH_CFG = """SPECIFICATION %s
CONSTANTS
  N = %d
  C = %d
  CountFirst = %s
  EarlyAccept = FALSE
  DialAnyOrder = TRUE
%s
CHECK_DEADLOCK FALSE
"""


@prop("C19")
def c19(ctx):
    thorough = ctx.tier == "thorough"
    ctx.build()
    ctx.assumptions += ["loopback TCP is available; parties are goroutines in one process with real sockets",
                        "in the gate-driven runs every party calls Join after the leader's Create returned; a joiner that starts first and retries is a scenario of its own",
                        "the accept queue of a listener is FIFO in connection order"]
    # (M) all interleavings of the main threads and accept goroutines
    mcs = [(3, 2), (4, 1), (2, 2)] + ([(4, 2), (5, 1), (3, 4)] if thorough else [])
    for n, c in mcs:
        ctx.tlc_expect_ok("Mesh", "Mesh_mc.cfg", name="mesh-mc-%d-%d" % (n, c), timeout=3000,
                          cfg_text=MESH_CFG % ("Spec", n, c, "FALSE", "INVARIANT Safety\nPROPERTY Terminates"))
    # the specification is sensitive to the order the fix establishes (vacuity guard)
    r = ctx.tlc("Mesh", "Mesh_mc.cfg", name="mesh-mc-countfirst",
                cfg_text=MESH_CFG % ("Spec", 3, 2, "TRUE", "INVARIANT Safety"))
    if r["status"] != "invariant":
        raise Broken("Mesh.tla no longer distinguishes count-before-add from add-before-count: %s" % r["status"])
    ctx.cov["spec_detects_count_before_add"] = True
    r = ctx.tlc("Mesh", "Mesh_mc.cfg", name="mesh-mc-earlyaccept",
                cfg_text=(MESH_CFG % ("Spec", 3, 1, "FALSE", "INVARIANT Safety")).replace("EarlyAccept = FALSE", "EarlyAccept = TRUE"))
    if r["status"] != "invariant":
        raise Broken("Mesh.tla does not reject an accept loop that runs before need[] is set: %s" % r["status"])
    ctx.cov["spec_rejects_deviations"] = ["count-before-add", "accept-before-need-is-set"]
    # (G) behaviours replayed through the gates on real sockets
    gens = [(3, 2, 40), (4, 1, 30), (2, 2, 6)] if not thorough else [(3, 2, 200), (4, 1, 150), (4, 2, 100), (5, 2, 60), (3, 4, 60), (2, 3, 20)]
    allcases = []
    for n, c, num in gens:
        g = ctx.tlc("MeshGen", "Mesh_gen.cfg", mode="sim", workers=1, sim="num=%d" % num, depth=2000,
                    name="mesh-gen-%d-%d" % (n, c), timeout=1500,
                    cfg_text=(MESH_CFG % ("GenSpec", n, c, "FALSE", "CONSTRAINT Emit")).replace("DialAnyOrder = TRUE", "DialAnyOrder = FALSE"))
        if g["status"] != "ok" or not g["cases"]:
            raise Broken("MeshGen produced no behaviours: %s\n%s" % (g["status"], g["out"][-2000:]))
        allcases += g["cases"]
    # a party that starts long after it joined (no deadline of any length may cost it its place); these runs only wait,
    # so they go on in the background while the rest of the check runs
    from concurrent.futures import ThreadPoolExecutor
    late_ms = [12500, 35000, 65000] if thorough else [12500]
    late_files = [os.path.join(ctx.tmp, "c19late-%d.ndjson" % ms) for ms in late_ms]
    late_pool = ThreadPoolExecutor(max_workers=len(late_ms))
    late_jobs = [late_pool.submit(ctx.run_vh, ["c19", "late", f, ms], timeout=600) for f, ms in zip(late_files, late_ms)]
    cases = os.path.join(ctx.tmp, "c19cases.ndjson")
    write_ndjson(cases, allcases)
    res = os.path.join(ctx.tmp, "c19res.ndjson")
    ctx.run_vh(["c19", "replay", cases, res], timeout=3000)
    n = ctx.absorb(res)
    ctx.cov["traces_validated_against_impl"] += n
    ctx.cov["generated_behaviours"] = len(allcases)
    # (T) random scheduler at the gates, trace validated by TLC
    confs = [(3, 2, 6), (4, 2, 4)] if not thorough else [(3, 2, 30), (4, 3, 20), (5, 2, 20), (6, 2, 10), (6, 4, 6), (2, 4, 5)]
    first_trace = None
    for n, c, runs in confs:
        d = os.path.join(ctx.tmp, "mt-%d-%d" % (n, c))
        os.makedirs(d, exist_ok=True)
        trace = os.path.join(d, "mesh_trace.ndjson")
        rres = os.path.join(d, "res.ndjson")
        ctx.run_vh(["c19", "random", trace, rres, runs, n, c], timeout=3000)
        k = ctx.absorb(rres)
        if ctx.violations:
            break
        t = ctx.tlc("MeshTrace", "MeshTrace.cfg", mode="trace", files=[trace], name="mesh-trace-%d-%d" % (n, c),
                    timeout=1500, cfg_text=MESH_CFG % ("TraceSpec", n, c, "FALSE",
                                                       "CONSTRAINT HighWater\nINVARIANT Safety\nPOSTCONDITION TraceAccepted"))
        if t["status"] == "ok":
            ctx.cov["traces_validated_against_impl"] += k
        elif t["status"] == "invariant":
            ctx.violation("trace:" + t.get("which", "Safety"),
                          "a recorded run (n=%d c=%d) reaches a state violating Mesh.%s" % (n, c, t.get("which")), t["out"][-3000:])
        elif t["status"] == "postcondition":
            ln, line = tlc_reject_line(t["out"])
            ctx.drift.append("MeshTrace (n=%d c=%d) rejects the recorded run at line %s: %s" % (n, c, ln, line))
        else:
            raise Broken("MeshTrace failed: %s\n%s" % (t["status"], t["out"][-3000:]))
        if first_trace is None:
            first_trace = (trace, n, c)
    # free-running formations, 2..6 parties x 1..4 connections, random join order and gate delays
    fres = os.path.join(ctx.tmp, "c19free.ndjson")
    ctx.run_vh(["c19", "free", fres, 150 if thorough else 25], timeout=3000)
    ctx.absorb(fres)
    # one thread held for seconds at one scheduling point ("every order and timing in which the parties start")
    sres = os.path.join(ctx.tmp, "c19slow.ndjson")
    ctx.run_vh(["c19", "slow", sres, 3000 if thorough else 1500], timeout=3000)
    ctx.absorb(sres)
    for j, f in zip(late_jobs, late_files):
        j.result()
        ctx.absorb(f)
    late_pool.shutdown()
    # binding self-test
    if first_trace and not ctx.violations:
        trace, n, c = first_trace
        rows = read_ndjson(trace)
        st = {}
        for name in ("drop-event", "corrupt-field"):
            r2 = [dict(r) for r in rows]
            idx = [i for i, r in enumerate(r2) if r["ev"] == "go" and r["act"] == "AFirst"]
            i = idx[len(idx) // 2]
            if name == "drop-event":
                del r2[i]
            else:
                r2[i]["a"] = (r2[i]["a"] + 1) % n
            p = os.path.join(ctx.tmp, "selftest-" + name, "mesh_trace.ndjson")
            os.makedirs(os.path.dirname(p), exist_ok=True)
            write_ndjson(p, r2)
            x = ctx.tlc("MeshTrace", "MeshTrace.cfg", mode="trace", files=[p], name="mesh-selftest-" + name,
                        cfg_text=MESH_CFG % ("TraceSpec", n, c, "FALSE",
                                             "CONSTRAINT HighWater\nINVARIANT Safety\nPOSTCONDITION TraceAccepted"))
            st[name] = x["status"]
            if x["status"] == "ok":
                raise Broken("binding self-test: MeshTrace accepted a trace with a %s" % name)
        ctx.cov["binding_selftest"] = st
    ctx.cov["rule"] = "a formation is non-trivial when it has >= 3 parties (joiners dial each other, accept order matters)"
    ctx.check_drift()


# ---------------------------------------------------------------------- C01
GARBLE_CFG = """SPECIFICATION Spec
CONSTANTS
  NIn = %d
  MaxGates = %d
  Ops = {"XOR", "XNOR", "AND", "OR", "INV"}
  FreeS = %s
%s
CHECK_DEADLOCK FALSE
"""


@prop("C01")
def c01(ctx):
    thorough = ctx.tier == "thorough"
    ctx.build()
    ctx.assumptions += ["AES behaves as a random function: the pads pi(k) of distinct (labels, tweak) are independent atoms",
                        "permute bits of internal wires cannot be forced on the real code; their coverage is measured, not guaranteed"]
    # (M) every circuit x every input x every permute-bit assignment
    if thorough:
        ctx.tlc_expect_ok("Garble", "Garble_mc.cfg", name="garble-mc-2-2", timeout=3400,
                          cfg_text=GARBLE_CFG % (2, 2, "TRUE", "INVARIANT Safety"))
        ctx.tlc_expect_ok("Garble", "Garble_mc.cfg", name="garble-sim-3-3", mode="sim", sim="num=20000", depth=20,
                          cfg_text=GARBLE_CFG % (3, 3, "TRUE", "INVARIANT Safety"), timeout=3400)
    else:
        ctx.tlc_expect_ok("Garble", "Garble_mc.cfg", name="garble-mc-2-1", timeout=1500,
                          cfg_text=GARBLE_CFG % (2, 1, "TRUE", "INVARIANT Safety"))
        ctx.tlc_expect_ok("Garble", "Garble_mc.cfg", name="garble-sim-2-2", mode="sim", sim="num=3000", depth=20,
                          cfg_text=GARBLE_CFG % (2, 2, "TRUE", "INVARIANT Safety"), timeout=1500)
    # (G) all circuits of <= 2 gates over 2 inputs (+ sampled 3x3), all inputs, on the real code
    g = ctx.tlc("GarbleGen", "Garble_gen.cfg", mode="gen", name="garble-gen", timeout=1500,
                cfg_text=GARBLE_CFG % (2, 2, "FALSE", "CONSTRAINT Emit"))
    if g["status"] != "ok" or not g["cases"]:
        raise Broken("GarbleGen failed: %s\n%s" % (g["status"], g["out"][-2000:]))
    allcases = g["cases"]
    g3 = ctx.tlc("GarbleGen", "Garble_gen.cfg", mode="sim", workers=1, name="garble-gen3", timeout=1500,
                 sim="num=%d" % (6000 if thorough else 600), depth=20,
                 cfg_text=GARBLE_CFG % (3, 3, "FALSE", "CONSTRAINT Emit"))
    allcases += g3["cases"]
    seen = set()
    uniq = []
    for c in allcases:
        k = json.dumps(c, sort_keys=True)
        if k not in seen:
            seen.add(k)
            uniq.append(c)
    cases = os.path.join(ctx.tmp, "c01cases.ndjson")
    write_ndjson(cases, uniq)
    res = os.path.join(ctx.tmp, "c01res.ndjson")
    ctx.run_vh(["c01", "replay", cases, res], timeout=3000)
    n = ctx.absorb(res)
    ctx.cov["traces_validated_against_impl"] += n - 1
    ctx.cov["exhaustive_circuits_2in_2gates"] = len(g["cases"])
    # (T) permute bits / decoded bits of real runs explained by the symbolic spec
    trace = os.path.join(ctx.tmp, "garble_trace.ndjson")
    res2 = os.path.join(ctx.tmp, "c01rec.ndjson")
    nrec = 400 if thorough else 60
    ctx.run_vh(["c01", "record", trace, res2, nrec], timeout=3000)
    ctx.absorb(res2)
    if not ctx.violations:
        t = ctx.tlc("GarbleTrace", "GarbleTrace.cfg", mode="trace", files=[trace], timeout=3000)
        if t["status"] == "ok":
            ctx.cov["traces_validated_against_impl"] += nrec
        elif t["status"] in ("postcondition", "invariant"):
            ln, line = tlc_reject_line(t["out"])
            ctx.violation("trace-rejected", "a real Garble/Eval run is not a behaviour of Garble.tla: line %s %s %s" % (ln, line, t.get("which", "")), t["out"][-2000:])
        else:
            raise Broken("GarbleTrace failed: %s\n%s" % (t["status"], t["out"][-3000:]))
        rows = read_ndjson(trace)
        # the first recorded run only: a refused trace makes TLC exhaust every assignment of the unlogged permute bits
        first = next((i for i, r in enumerate(rows) if i > 0 and r["ev"] == "circ"), len(rows))
        r2 = [dict(r) for r in rows[:first]]
        idx = [i for i, r in enumerate(r2) if r["ev"] == "egate"]
        r2[idx[len(idx) // 2]]["bit"] ^= 1
        p = os.path.join(ctx.tmp, "selftest", "garble_trace.ndjson")
        os.makedirs(os.path.dirname(p), exist_ok=True)
        write_ndjson(p, r2)
        x = ctx.tlc("GarbleTrace", "GarbleTrace.cfg", mode="trace", files=[p], name="garble-selftest")
        if x["status"] == "ok":
            raise Broken("binding self-test: GarbleTrace accepted a flipped decoded bit")
        ctx.cov["binding_selftest"] = {"flipped-bit": x["status"]}
    ctx.cov["rule"] = "cases are (circuit, input) pairs; non-trivial = at least two gates (fan-out / wire reuse / tweak counter advance matter); distinct by JSON"


# ---------------------------------------------------------------- C02/C04/C16
TP_CFG = """SPECIFICATION %s
CONSTANTS
  NIn = %d
  MaxGates = %d
  Ops = {"XOR", "XNOR", "AND", "OR", "INV"}
  FreeS = %s
  MaxFaults = %d
  Deviating = FALSE
  RangeRule = "exact"
%s
CHECK_DEADLOCK FALSE
"""
TP_DEV_CFG = TP_CFG.replace("Deviating = FALSE", "Deviating = TRUE").replace('RangeRule = "exact"', 'RangeRule = "%s"')


def sample_cases(cases, n, seed):
    rnd = random.Random(seed)
    cs = list(cases)
    rnd.shuffle(cs)
    return cs[:n]


@prop("C02")
def c02(ctx):
    thorough = ctx.tier == "thorough"
    ctx.build()
    ctx.assumptions += ["honest parties; OT is an ideal functionality in the specification (OT correctness is C06/C15)",
                        "garbling correctness per gate is C01's; here the symbolic labels carry it"]
    # (M) protocol model: all circuits <= 2 gates, all input splits, outputs, inputs
    ctx.tlc_expect_ok("TwoParty", "TwoParty_c02.cfg", name="tp-mc", timeout=3000,
                      cfg_text=TP_CFG % ("PSpec", 2, 2, "FALSE", 0, "INVARIANT TwoPartyOK\nINVARIANT Secrecy\nPROPERTY Completes"))
    if thorough:
        ctx.tlc_expect_ok("TwoParty", "TwoParty_c02.cfg", name="tp-mc-3", timeout=3000,
                          cfg_text=TP_CFG % ("PSpec", 3, 1, "TRUE", 0, "INVARIANT TwoPartyOK\nINVARIANT Secrecy\nPROPERTY Completes"))
    # (G) every session of the model on the real Garbler/Evaluator
    g = ctx.tlc("TwoPartyGen", "TwoParty_gen.cfg", mode="gen", name="tp-gen", timeout=1500,
                cfg_text=TP_CFG % ("PSpec", 2, 2, "FALSE", 0, "CONSTRAINT Emit"))
    if g["status"] != "ok" or not g["cases"]:
        raise Broken("TwoPartyGen failed: %s\n%s" % (g["status"], g["out"][-2000:]))
    allc = g["cases"]
    ctx.cov["sessions_enumerated"] = len(allc)
    use = allc if thorough else sample_cases(allc, 500, ctx.seed)
    cases = os.path.join(ctx.tmp, "c02cases.ndjson")
    write_ndjson(cases, use)
    res = os.path.join(ctx.tmp, "c02res.ndjson")
    trace = os.path.join(ctx.tmp, "twoparty_trace.ndjson")
    ctx.run_vh(["c02", "replay", cases, res, trace], timeout=3400)
    n = ctx.absorb(res)
    ctx.cov["traces_validated_against_impl"] += n
    pres = os.path.join(ctx.tmp, "c02prog.ndjson")
    ctx.run_vh(["c02", "programs", pres, 210 if thorough else 28], timeout=3000)
    ctx.absorb(pres)
    if not ctx.violations:
        t = ctx.tlc("TwoPartyTrace", "TwoPartyTrace.cfg", mode="trace", files=[trace], timeout=1500)
        if t["status"] in ("postcondition", "invariant"):
            ln, line = tlc_reject_line(t["out"])
            ctx.violation("trace-rejected", "a real session is not a behaviour of TwoParty.tla: line %s %s %s" % (ln, line, t.get("which", "")), t["out"][-2000:])
        elif t["status"] != "ok":
            raise Broken("TwoPartyTrace failed: %s\n%s" % (t["status"], t["out"][-3000:]))
        rows = read_ndjson(trace)
        r2 = [dict(r) for r in rows]
        idx = [i for i, r in enumerate(r2) if r["ev"] == "end"]
        e = r2[idx[len(idx) // 2]]
        e["gout"] = [1 - e["gout"][0]] + e["gout"][1:]
        p = os.path.join(ctx.tmp, "selftest", "twoparty_trace.ndjson")
        os.makedirs(os.path.dirname(p), exist_ok=True)
        write_ndjson(p, r2)
        x = ctx.tlc("TwoPartyTrace", "TwoPartyTrace.cfg", mode="trace", files=[p], name="tp-selftest")
        if x["status"] == "ok":
            raise Broken("binding self-test: TwoPartyTrace accepted a flipped result bit")
        ctx.cov["binding_selftest"] = {"flipped-result": x["status"]}
    ctx.cov["rule"] = ("sessions = (circuit, input split n0/n1 incl. 0-bit parties, outputs, inputs) x OT flavour; "
                       "non-trivial = two gates and both parties have input bits; compiled programs are all non-trivial")


@prop("C04")
def c04(ctx):
    thorough = ctx.tier == "thorough"
    ctx.build()
    ctx.assumptions += ["OT is ideal: it releases exactly the chosen label (its own bytes are scanned as well)",
                        "a chance collision of the window test has probability ~ windows^2 * 2^-128",
                        "R is recomputed from the garbler's recorded randomness and cross-checked against the transcript/OT wires"]
    # (M) knowledge-set invariants over everything the garbler transmits
    ctx.tlc_expect_ok("TwoParty", "TwoParty_c04.cfg", name="tp-secrecy-1", timeout=3000,
                      cfg_text=TP_CFG % ("PSpec", 2, 1, "TRUE", 0, "INVARIANT Secrecy"))
    ctx.tlc_expect_ok("TwoParty", "TwoParty_c04.cfg", name="tp-secrecy-2", timeout=3000,
                      cfg_text=TP_CFG % ("PSpec", 2 if not thorough else 3, 2, "FALSE", 0, "INVARIANT Secrecy"))
    # a deviating evaluator (any OT range, any choice bits) against the range check as coded; the same model with
    # the check loosened to "the range ends at the last input wire" must lose Secrecy (vacuity guard)
    ctx.tlc_expect_ok("TwoParty", "TwoParty_c04.cfg", name="tp-secrecy-deviating", timeout=3000,
                      cfg_text=TP_DEV_CFG % ("PSpec", 2, 1, "TRUE", 0, "exact", "INVARIANT Secrecy"))
    r = ctx.tlc("TwoParty", "TwoParty_c04.cfg", name="tp-secrecy-guard-range", timeout=3000,
                cfg_text=TP_DEV_CFG % ("PSpec", 2, 1, "TRUE", 0, "end", "INVARIANT Secrecy"))
    if r["status"] != "invariant":
        raise Broken("TwoParty.tla with RangeRule = \"end\" and a deviating evaluator does not violate Secrecy: %s" % r["status"])
    ctx.cov["spec_rejects_deviations"] = ["ot-range-check-loosened"]
    # the model is sensitive: a garbler that also sends the sibling of an own-input label violates NoPair
    # (checked through the trace spec's self-test below)
    trace = os.path.join(ctx.tmp, "secrecy_trace.ndjson")
    res = os.path.join(ctx.tmp, "c04res.ndjson")
    progs = mpcl_cases(ctx, "mpcl-gen-c04", "{3, 8, 13}", 5, 600 if thorough else 80,
                       kinds='{"bin", "lit", "cmp", "logic", "neg", "shift", "if", "loop"}', limit=400 if thorough else 40)
    pf = os.path.join(ctx.tmp, "c04progs.ndjson")
    write_ndjson(pf, progs)
    ctx.run_vh(["c04", "scan", trace, res, 60 if thorough else 12, pf], timeout=3000)
    n = ctx.absorb(res)
    # a listed known finding is reported by its KNOWN-FINDING line; its events are taken out of the trace given to
    # TLC so that every OTHER R-difference still fails the strict invariant
    from vcheck import load_known
    known = {k["key"] for k in load_known().get("findings", []) if k["property"] == "C04"}
    seen = {v["key"] for v in ctx.violations}
    if "sha2pc:round3:OutputHints" in known and "sha2pc:round3:OutputHints" in seen:
        rows = [r for r in read_ndjson(trace) if not (r["ev"] == "diff" and r.get("kind") == "sha2pc")]
        write_ndjson(trace, rows)
        ctx.notes.append("diff events of the known finding sha2pc:round3:OutputHints were removed before TLC validation")
    t = ctx.tlc("SecrecyTrace", "SecrecyTrace.cfg", mode="trace", files=[trace], timeout=1500)
    if t["status"] == "invariant":
        ctx.violation("trace:" + t.get("which", "Secrecy"), "a recorded transcript violates SecrecyTrace.%s" % t.get("which"), t["out"][-2500:])
    elif t["status"] != "ok":
        raise Broken("SecrecyTrace failed: %s\n%s" % (t["status"], t["out"][-3000:]))
    else:
        ctx.cov["traces_validated_against_impl"] += n
    rows = read_ndjson(trace)
    ctx.cov["trace_events"] = len(rows)
    ctx.cov["label_windows_identified"] = len([r for r in rows if r["ev"] == "send"])
    # binding self-test: add the sibling label of a transmitted one
    r2 = [dict(r) for r in rows]
    i = next(i for i, r in enumerate(r2) if r["ev"] == "send")
    sib = dict(r2[i])
    sib["which"] = 1 - sib["which"]
    r2.insert(i + 1, sib)
    p = os.path.join(ctx.tmp, "selftest", "secrecy_trace.ndjson")
    os.makedirs(os.path.dirname(p), exist_ok=True)
    write_ndjson(p, r2)
    x = ctx.tlc("SecrecyTrace", "SecrecyTrace.cfg", mode="trace", files=[p], name="secrecy-selftest")
    if x["status"] != "invariant":
        raise Broken("binding self-test: SecrecyTrace accepted a transcript carrying both labels of a wire")
    ctx.cov["binding_selftest"] = {"both-labels": x["status"]}
    ctx.cov["rule"] = ("one evaluation = one complete session transcript scanned at every byte offset; non-trivial = both parties "
                       "have input bits (OT is used) or a streaming / sha2pc session")


@prop("C16")
def c16(ctx):
    thorough = ctx.tier == "thorough"
    ctx.build()
    ctx.assumptions += ["a corruption that turns one label into the wire's other label needs mask = R (probability 2^-128 for fixed masks)",
                        "OT is ideal in the model; real OT bytes are corrupted like all others",
                        "a party that errs drops the connection; a dead session is aborted after 150 ms without progress"]
    # (M) fault action Corrupt on every field of both directions
    ctx.tlc_expect_ok("TwoParty", "TwoParty_c16.cfg", name="tp-faults-1", timeout=3000,
                      cfg_text=TP_CFG % ("PSpec", 2, 1, "TRUE", 1, "INVARIANT NeverWrong"))
    ctx.tlc_expect_ok("TwoParty", "TwoParty_c16.cfg", name="tp-faults-2", timeout=3400,
                      cfg_text=TP_CFG % ("PSpec", 2, 2, "FALSE", 2 if thorough else 1, "INVARIANT NeverWrong"))
    trace = os.path.join(ctx.tmp, "corrupt_trace.ndjson")
    res = os.path.join(ctx.tmp, "c16res.ndjson")
    ctx.run_vh(["c16", "run", trace, res, 0 if thorough else 600], timeout=6 * 3600)
    n = ctx.absorb(res)
    # the property on every recorded run
    t = ctx.tlc("CorruptTrace", "CorruptTrace.cfg", mode="trace", files=[trace], timeout=3000,
                cfg_text="SPECIFICATION Spec\nINVARIANT NeverWrong\nPOSTCONDITION Accepted\nCHECK_DEADLOCK FALSE\n")
    if t["status"] == "invariant":
        ctx.violation("trace:NeverWrong", "a corrupted run returned a wrong value", t["out"][-2000:])
    elif t["status"] != "ok":
        raise Broken("CorruptTrace failed: %s\n%s" % (t["status"], t["out"][-3000:]))
    else:
        ctx.cov["traces_validated_against_impl"] += n
    # the outcome classes TwoParty.tla's message layout predicts per field class (count and length fields end in an
    # error, the final result message cannot change the value).  The byte layout of the session is not part of the
    # property: a session whose framing differs from the modelled one is reported in the evidence, not as a failure
    t2 = ctx.tlc("CorruptTrace", "CorruptTrace.cfg", mode="trace", files=[trace], timeout=3000, name="corrupt-layout",
                 cfg_text="SPECIFICATION Spec\nINVARIANT ModelAgrees\nPOSTCONDITION Accepted\nCHECK_DEADLOCK FALSE\n")
    ctx.cov["layout_model_agrees"] = t2["status"] == "ok"
    if t2["status"] not in ("ok", "invariant"):
        raise Broken("CorruptTrace (layout) failed: %s\n%s" % (t2["status"], t2["out"][-3000:]))
    if t2["status"] == "invariant":
        print("NOTE: the field classes of TwoParty.tla's message layout no longer predict the outcomes of this tree's sessions "
              "(framing changed?); NeverWrong was still decided on every run")
    # binding self-test
    rows = read_ndjson(trace)
    r2 = [dict(r) for r in rows]
    i = next((i for i, r in enumerate(r2) if r["outcome"] == "value"), None)
    if i is not None:
        r2[i]["correct"] = 0
        p = os.path.join(ctx.tmp, "selftest", "corrupt_trace.ndjson")
        os.makedirs(os.path.dirname(p), exist_ok=True)
        write_ndjson(p, r2)
        x = ctx.tlc("CorruptTrace", "CorruptTrace.cfg", mode="trace", files=[p], name="corrupt-selftest")
        if x["status"] != "invariant":
            raise Broken("binding self-test: CorruptTrace accepted a wrong value")
        ctx.cov["binding_selftest"] = {"wrong-value": x["status"]}
    ctx.cov["exhaustive"] = bool(thorough)
    ctx.cov["rule"] = ("one evaluation = one complete session with one corrupted byte range; non-trivial = the corruption changed "
                       "the garbler's outcome (error/stall/crash) or hit the final result message; classes are kind:dir:field:outcome")
    ctx.check_drift()


# ---------------------------------------------------------------------- C05
STREAM_CFG = """SPECIFICATION Spec
CONSTANTS
  MaxSteps = %d
  Sizes = %s
  StepKinds = {"arith", "alias", "concat"}
  TrackedOps = %s
  Transitive = %s
INVARIANT Safety
CHECK_DEADLOCK FALSE
"""

STREAM_GEN_CFG = """SPECIFICATION Spec
CONSTANTS
  MaxSteps = %d
  Sizes = {1, 2}
  StepKinds = {"arith", "alias"}
  TrackedOps = {"alias", "concat"}
  Transitive = TRUE
CONSTRAINT Emit
CHECK_DEADLOCK FALSE
"""


STREAMWIRE_CFG = """SPECIFICATION Spec
CONSTANTS
  Page = 2
  IdSet = {0, 1, 2, 3}
  Ops = {"AND", "INV"}
  MaxGates = %d
  MaxCircs = %d
  NIn = 2
  FlagRule = "%s"
  DeclRule = "%s"
INVARIANT Safety
CHECK_DEADLOCK FALSE
"""


@prop("C05")
def c05(ctx):
    thorough = ctx.tier == "thorough"
    ctx.build()
    ctx.assumptions += ["whole-circuit Compute is the reference for streaming (it is tied to the language semantics by C03)",
                        "Stream.tla abstracts wire ids to one block per value; StreamTrace.tla works on the real ids"]
    # (M) allocator + GC placement as coded: every program of <= 3 (4) steps
    if thorough:
        ctx.tlc_expect_ok("Stream", "Stream_mc.cfg", name="stream-mc", timeout=3400,
                          cfg_text=STREAM_CFG % (3, "{1, 2}", '{"alias", "concat"}', "TRUE"), heap="12g")
        ctx.tlc_expect_ok("Stream", "Stream_mc.cfg", name="stream-sim-5", mode="sim", sim="num=40000", depth=30, timeout=3400, workers=8,
                          cfg_text=STREAM_CFG % (5, "{1, 2}", '{"alias", "concat"}', "TRUE"))
    else:
        ctx.tlc_expect_ok("Stream", "Stream_mc.cfg", name="stream-mc", timeout=3400,
                          cfg_text=STREAM_CFG % (2, "{1, 2}", '{"alias", "concat"}', "TRUE"))
        ctx.tlc_expect_ok("Stream", "Stream_mc.cfg", name="stream-sim-4", mode="sim", sim="num=600", depth=30, timeout=3400, workers=4,
                          cfg_text=STREAM_CFG % (4, "{1, 2}", '{"alias", "concat"}', "TRUE"))
    # vacuity guards: the model distinguishes the two repaired defects
    for nm, steps, sizes, tracked, trans in (("one-level-aliases", 3, "{1}", '{"alias", "concat"}', "FALSE"),
                                             ("concat-untracked", 2, "{1, 2}", '{"alias"}', "TRUE")):
        r = ctx.tlc("Stream", "Stream_mc.cfg", name="stream-mc-" + nm, cfg_text=STREAM_CFG % (steps, sizes, tracked, trans))
        if r["status"] != "invariant":
            raise Broken("Stream.tla no longer finds the %s counterexample: %s" % (nm, r["status"]))
    ctx.cov["spec_detects"] = ["one-level-aliases", "concat-untracked"]
    # (M) wire-protocol layer (StreamWire.tla): gate encoding as garbleGate writes it against the evaluator's stores
    sw = lambda gates, circs, flag, decl: STREAMWIRE_CFG % (gates, circs, flag, decl)
    if thorough:
        ctx.tlc_expect_ok("StreamWire", "StreamWire_mc.cfg", name="streamwire-mc", timeout=3400, cfg_text=sw(2, 2, "abc", "numwires"), heap="12g")
    else:
        ctx.tlc_expect_ok("StreamWire", "StreamWire_mc.cfg", name="streamwire-mc", timeout=1200, cfg_text=sw(1, 2, "abc", "numwires"))
        ctx.tlc_expect_ok("StreamWire", "StreamWire_mc.cfg", name="streamwire-mc-2", timeout=1200, cfg_text=sw(2, 1, "abc", "numwires"))
    for nm, a in (("short-flag-ignores-b", (1, 2, "ac", "numwires")), ("tmp-array-sized-by-tmp-count", (2, 1, "abc", "tmpcount"))):
        r = ctx.tlc("StreamWire", "StreamWire_mc.cfg", name="streamwire-guard-" + nm, cfg_text=sw(*a), timeout=1200)
        if r["status"] != "invariant":
            raise Broken("StreamWire.tla no longer rejects the deviation %s: %s" % (nm, r["status"]))
        ctx.cov["spec_detects"].append(nm)
    trace = os.path.join(ctx.tmp, "stream_trace.ndjson")
    res = os.path.join(ctx.tmp, "c05res.ndjson")
    wdir = os.path.join(ctx.tmp, "wire")
    os.makedirs(wdir, exist_ok=True)
    wire = os.path.join(wdir, "streamwire_trace.ndjson")
    ctx.run_vh(["c05", "run", trace, res, 600 if thorough else 60, wire], timeout=3400)
    n = ctx.absorb(res)
    unparsed = [d for d in ctx.drift if "cannot be parsed into the messages of StreamWire.tla" in d]
    if unparsed:
        ctx.drift[:] = [d for d in ctx.drift if d not in unparsed]
        print("NOTE: %d streaming transcripts are not framed the way StreamWire.tla says (%s)" % (len(unparsed), unparsed[0][:200]))
    # (T) the bytes of real sessions, parsed into messages, against the evaluator machine of StreamWire.tla
    # The byte format of the stream is not part of the property (both modes are compared on their results, above and
    # below): a stream the independent parser cannot read, or that is not a behaviour of the evaluator machine, is
    # reported in the evidence and as a NOTE, it does not make the check undecided.
    wrows = read_ndjson(wire)
    ctx.cov["wire_model_agrees"] = False
    nsess = 1 + len([r for r in wrows if r["ev"] == "reset"]) if wrows else 0
    if not wrows:
        print("NOTE: no streaming transcript could be parsed into messages of StreamWire.tla (wire format changed?); "
              "the results of both modes were still compared")
    else:
        wt = ctx.tlc("StreamWireTrace", "StreamWireTrace.cfg", mode="trace", files=[wire], timeout=3000, xss="512m", name="streamwire-trace")
        if wt["status"] == "invariant":
            m = re.search(r'bad = \{<<"([^"]+)", (\d+)>>', wt["out"])
            tag, ln = (m.group(1), int(m.group(2))) if m else ("?", 0)
            print("NOTE: StreamWireTrace: %s at line %d of the parsed transcript (the stream is not what StreamWire.tla says): %s" % (
                tag, ln, json.dumps(wrows[ln - 1])[:300] if 0 < ln <= len(wrows) else ""))
        elif wt["status"] != "ok":
            raise Broken("StreamWireTrace failed: %s\n%s" % (wt["status"], wt["out"][-3000:]))
        else:
            ctx.cov["wire_model_agrees"] = True
            ctx.cov["traces_validated_against_impl"] += nsess
    ctx.cov["wire_sessions"] = nsess
    ctx.cov["wire_gate_messages"] = sum(len(r["g"]) for r in wrows if r["ev"] == "gates")
    # binding self-test: a gate that reads a temporary the current circuit has not written must be rejected
    w2 = [json.loads(json.dumps(r)) for r in wrows] if ctx.cov["wire_model_agrees"] else []
    hit = False
    for r in w2:
        if r["ev"] == "gates":
            for gt in r["g"]:
                if gt[1] & 8 == 0 and gt[0] != 4:
                    gt[1] |= 8          # "a is a temporary"
                    gt[2] = 0           # local wire 0 is an input, never a written temporary
                    hit = True
                    break
        if hit:
            break
    if hit:
        sdir = os.path.join(ctx.tmp, "wire-selftest")
        os.makedirs(sdir, exist_ok=True)
        write_ndjson(os.path.join(sdir, "streamwire_trace.ndjson"), w2)
        x = ctx.tlc("StreamWireTrace", "StreamWireTrace.cfg", mode="trace", files=[os.path.join(sdir, "streamwire_trace.ndjson")],
                    timeout=3000, xss="512m", name="streamwire-selftest")
        if x["status"] != "invariant":
            raise Broken("binding self-test: StreamWireTrace accepted a gate reading an unwritten temporary (%s)" % x["status"])
        ctx.cov.setdefault("binding_selftest", {})["stale-temporary-read"] = x["status"]
    # (G) programs generated from Mpcl.tla (the C03 corpus: arrays, structs, matrices, loops, calls, early returns), in both modes
    mcases = mpcl_cases(ctx, "mpcl-gen-c05a", "{3, 8}", 6, 1500 if thorough else 120, limit=4000 if thorough else 200,
                        kinds='{"arr", "mat", "struct", "bin", "lit"}')
    mcases += mpcl_cases(ctx, "mpcl-gen-c05b", "{8, 13}", 7, 1500 if thorough else 120, limit=4000 if thorough else 200)
    mf = os.path.join(ctx.tmp, "c05mpcl.ndjson")
    write_ndjson(mf, mcases)
    mres = os.path.join(ctx.tmp, "c05mpclres.ndjson")
    ctx.run_vh(["c05", "mpcl", mf, mres], timeout=3400)
    ctx.absorb(mres)
    ctx.cov["mpcl_programs_streamed"] = len(mcases)
    # (G) abstract SSA programs enumerated from Stream.tla, rendered as MPCL and run in both modes
    g = ctx.tlc("StreamGen", "Stream_gen.cfg", mode="sim", workers=1, sim="num=%d" % (3000 if thorough else 300), depth=7,
                name="stream-gen", timeout=3000, cfg_text=STREAM_GEN_CFG % 4)
    if g["status"] != "ok" or not g["cases"]:
        raise Broken("StreamGen failed: %s\n%s" % (g["status"], g["out"][-2000:]))
    seen, uniq = set(), []
    for cse in sorted(g["cases"], key=lambda c: -len(c["steps"])):
        k = json.dumps(cse, sort_keys=True)
        if k not in seen and len(cse["steps"]) >= 2:
            seen.add(k)
            uniq.append(cse)
    uniq = uniq[:(6000 if thorough else 400)]
    acases = os.path.join(ctx.tmp, "c05abs.ndjson")
    write_ndjson(acases, uniq)
    ares = os.path.join(ctx.tmp, "c05absres.ndjson")
    ctx.run_vh(["c05", "abstract", acases, ares], timeout=3400)
    ctx.absorb(ares)
    ctx.cov["abstract_programs_replayed"] = len(uniq)
    rows = read_ndjson(trace)
    ctx.cov["trace_events"] = len(rows)
    nprog = 1 + len([r for r in rows if r["ev"] == "reset"])
    t = ctx.tlc("StreamTrace", "StreamTrace.cfg", mode="trace", files=[trace], timeout=3000)
    if t["status"] == "invariant":
        ctx.violation("trace:NoClobber", "a step of a real streaming run reads a wire id that was recycled and overwritten "
                      "(or a value no longer maps to the ids it was created with)", t["out"][-2500:])
    elif t["status"] != "ok":
        raise Broken("StreamTrace failed: %s\n%s" % (t["status"], t["out"][-3000:]))
    else:
        ctx.cov["traces_validated_against_impl"] += nprog
    # binding self-test: overwrite an id between producer and consumer
    r2 = [json.loads(json.dumps(r)) for r in rows]
    done = False
    for i, r in enumerate(r2):
        if r["ev"] == "step" and r["op"] not in ("gc", "ret") and r["outs"] and r["outs"][0]["ids"]:
            for j in range(i + 1, len(r2)):
                if r2[j]["ev"] != "step":
                    break
                if any(x["v"] == r["outs"][0]["v"] and x["c"] == 0 for x in r2[j]["ins"]) and j > i + 1:
                    fake = {"ev": "step", "idx": 9999999, "op": "umult", "ins": [], "outs": [{"v": 999999, "c": 0, "ids": r["outs"][0]["ids"]}]}
                    r2.insert(i + 1, fake)
                    done = True
                    break
        if done:
            break
    if done:
        p = os.path.join(ctx.tmp, "selftest", "stream_trace.ndjson")
        os.makedirs(os.path.dirname(p), exist_ok=True)
        write_ndjson(p, r2)
        x = ctx.tlc("StreamTrace", "StreamTrace.cfg", mode="trace", files=[p], name="stream-selftest")
        if x["status"] != "invariant":
            raise Broken("binding self-test: StreamTrace accepted an overwritten live wire id")
        ctx.cov.setdefault("binding_selftest", {})["overwritten-id"] = x["status"]
    ctx.cov["rule"] = ("one evaluation = one (program, input pair) run in both modes; programs are alias-heavy (casts, constant shifts, "
                       "slices, array updates, concatenations, struct copies) templates and seeded generated programs; all are non-trivial; "
                       "classes: template / generated / big-ids (> 65535 live wire ids) / rejected (does not compile)")


# ---------------------------------------------------------------------- C17
POOL_CFG = """SPECIFICATION Spec
CONSTANTS
  Procs = %s
  MaxOps = %d
  UseCAS = %s
  ReleaseClears = %s
  PutOnReturn = %s
  FailPuts = 1
  UseAfterRelease = FALSE
INVARIANT Safety
CHECK_DEADLOCK FALSE
"""


@prop("C17")
def c17(ctx):
    thorough = ctx.tier == "thorough"
    ctx.build()
    ctx.assumptions += ["a garbling is released only by the goroutine that made it (concurrent Release of ONE handle is outside the property)",
                        "freedom from data races is decided by the Go race detector on the recorded stress runs, not by TLC"]
    # (M) all interleavings of Load / CAS / Get / fill / Release / runtime drops
    confs = [("{1, 2}", 3)] + ([("{1, 2, 3}", 2), ("{1, 2}", 4)] if thorough else [])
    for procs, ops in confs:
        ctx.tlc_expect_ok("Pool", "Pool_mc.cfg", name="pool-mc-%d-%d" % (len(procs), ops), timeout=3400, heap="16g",
                          cfg_text=POOL_CFG % (procs, ops, "TRUE", "TRUE", "FALSE"))
    guards = {}
    for nm, cas, clr, put in (("release-keeps-handle", "TRUE", "FALSE", "FALSE"),
                              ("put-on-return", "TRUE", "TRUE", "TRUE")):
        r = ctx.tlc("Pool", "Pool_mc.cfg", name="pool-guard-" + nm, cfg_text=POOL_CFG % ("{1, 2}", 3, cas, clr, put), timeout=1500)
        guards[nm] = r["status"]
        if r["status"] != "invariant":
            raise Broken("Pool.tla does not reject the deviation %s (%s)" % (nm, r["status"]))
    r = ctx.tlc("Pool", "Pool_mc.cfg", name="pool-guard-error-path-puts-twice", timeout=1500,
                cfg_text=(POOL_CFG % ("{1, 2}", 3, "TRUE", "TRUE", "FALSE")).replace("FailPuts = 1", "FailPuts = 2"))
    guards["error-path-puts-twice"] = r["status"]
    if r["status"] != "invariant":
        raise Broken("Pool.tla does not reject a double Put on Garble's error path (%s)" % r["status"])
    r = ctx.tlc("Pool", "Pool_mc.cfg", name="pool-guard-use-after-release", timeout=1500,
                cfg_text=(POOL_CFG % ("{1, 2}", 3, "TRUE", "TRUE", "FALSE")).replace("UseAfterRelease = FALSE", "UseAfterRelease = TRUE"))
    guards["use-after-release"] = r["status"]
    if r["status"] != "invariant":
        raise Broken("Pool.tla does not reject a holder that reads its garbling after releasing it (%s)" % r["status"])
    ctx.cov["spec_rejects_deviations"] = guards
    # (G) forced lazy-creation race through the gate
    cres = os.path.join(ctx.tmp, "c17cas.ndjson")
    def run_or_crash(args, **kw):
        """a Go runtime crash (fatal error / SIGSEGV / unrecovered panic inside library goroutines) while several
        goroutines share one circuit is the property failing, not the machinery"""
        p = ctx.run_vh(args, check=False, **kw)
        if p.returncode != 0:
            err = p.stderr or ""
            if any(s in err for s in ("fatal error:", "SIGSEGV", "panic:", "unexpected fault address", "signal ")):
                first = next((l for l in err.splitlines() if l.strip()), "")
                ctx.violation("crash:process-died", "the process dies while goroutines share one circuit value: %s" % first[:200], err[:3000])
                return False
            raise Broken("harness failed rc=%d: %s" % (p.returncode, err[-2000:]))
        return True

    if run_or_crash(["c17", "casrace", cres, 60 if thorough else 12], timeout=1500):
        ctx.absorb(cres)
    # (G) whole sessions overlapping on one circuit value, the peer of the older ones slow (Pool.tla's Use: a session
    # reads its own garbling until it is done with it, whatever the sessions after it do)
    sres = os.path.join(ctx.tmp, "c17sess.ndjson")
    if run_or_crash(["c17", "sessions", sres, 40 if thorough else 8], timeout=3000):
        ctx.absorb(sres)
    # (T) stress histories
    trace = os.path.join(ctx.tmp, "pool_trace.ndjson")
    res = os.path.join(ctx.tmp, "c17res.ndjson")
    rounds = 400 if thorough else 60
    if not run_or_crash(["c17", "stress", trace, res, rounds], timeout=3000):
        return
    n = ctx.absorb(res)
    rows = read_ndjson(trace)
    ctx.cov["trace_events"] = len(rows)
    t = ctx.tlc("PoolTrace", "PoolTrace.cfg", mode="trace", files=[trace], timeout=3000)
    if t["status"] == "invariant":
        ctx.violation("trace:Exclusive", "two garblings that were both not yet released use the same scratch buffer", t["out"][-2000:])
    elif t["status"] != "ok":
        raise Broken("PoolTrace failed: %s\n%s" % (t["status"], t["out"][-3000:]))
    else:
        ctx.cov["traces_validated_against_impl"] += n
    # the same stress under the race detector
    vr = ctx.build(race=True)
    rres = os.path.join(ctx.tmp, "c17race.ndjson")
    rtr = os.path.join(ctx.tmp, "race_trace.ndjson")
    p = ctx.run_vh(["c17", "stress", rtr, rres, 40 if thorough else 10], binary=vr, timeout=3000, check=False,
                   env={"GORACE": "exitcode=66 halt_on_error=0"})
    if "WARNING: DATA RACE" in p.stderr:
        import re
        where = sorted(set(re.findall(r"(/repo/[\w/]+\.go:\d+)", p.stderr)))[:6]
        ctx.violation("data-race", "the race detector reports a data race on a shared circuit: %s" % ", ".join(where), p.stderr[:3000])
    elif p.returncode != 0:
        raise Broken("race-detector run failed rc=%d\n%s" % (p.returncode, p.stderr[-2000:]))
    else:
        if os.path.exists(rres):
            ctx.absorb(rres)
        ctx.cov["race_detector_rounds"] = 40 if thorough else 10
    # binding self-test
    r2 = [dict(r) for r in rows]
    gi = [i for i, r in enumerate(r2) if r["ev"] == "garbled"]
    if len(gi) >= 2:
        a = r2[gi[0]]
        # a second garbling gets the same buffer while the first is live
        j = gi[0] + 1
        r2.insert(j, {"ev": "garbled", "g": 99, "h": 999999, "buf": a["buf"]})
        p2 = os.path.join(ctx.tmp, "selftest", "pool_trace.ndjson")
        os.makedirs(os.path.dirname(p2), exist_ok=True)
        write_ndjson(p2, r2)
        x = ctx.tlc("PoolTrace", "PoolTrace.cfg", mode="trace", files=[p2], name="pool-selftest")
        if x["status"] != "invariant":
            raise Broken("binding self-test: PoolTrace accepted a shared buffer")
        ctx.cov["binding_selftest"] = {"shared-buffer": x["status"]}
    ctx.cov["rule"] = ("one evaluation = one round: 2..8 goroutines x 6..15 operations (Garble/Eval-check/Release/double Release/Compute) on one "
                       "fresh shared circuit under GOMAXPROCS 1, 2 or 16; every round is non-trivial")
    ctx.check_drift()


# ---------------------------------------------------------------------- C18
@prop("C18")
def c18(ctx):
    thorough = ctx.tier == "thorough"
    ctx.build()
    ctx.assumptions += ["SHA-256 itself comes from Go's crypto/sha256 (the digest is an uninterpreted function of a xor b in the spec)",
                        "a mutated message that still parses may be accepted if the run then ends in an error or the right digest; "
                        "non-canonical acceptance of mutated bytes is recorded, not counted as a violation"]
    ctx.tlc_expect_ok("Sha2pc", "Sha2pc_mc.cfg", name="sha2pc-mc", timeout=1500)
    g = ctx.tlc("Sha2pcGen", "Sha2pc_gen.cfg", mode="gen", workers=1, name="sha2pc-gen", timeout=1500)
    if g["status"] != "ok" or not g["cases"]:
        raise Broken("Sha2pcGen failed: %s\n%s" % (g["status"], g["out"][-2000:]))
    allc = g["cases"]
    ctx.cov["behaviours_enumerated"] = len(allc)
    res_all = []
    plan = [("P-256", allc if thorough else sample_cases(allc, 60, ctx.seed))]
    plan.append(("P-224,P-384,P-521", sample_cases(allc, 240 if thorough else 18, ctx.seed + 1)))
    for i, (curves, cases) in enumerate(plan):
        cf = os.path.join(ctx.tmp, "c18cases%d.ndjson" % i)
        write_ndjson(cf, cases)
        rf = os.path.join(ctx.tmp, "c18res%d.ndjson" % i)
        ctx.run_vh(["c18", "replay", cf, rf, curves], timeout=3400)
        n = ctx.absorb(rf)
        ctx.cov["traces_validated_against_impl"] += n
    mf = os.path.join(ctx.tmp, "c18mut.ndjson")
    ctx.run_vh(["c18", "mutate", mf, 3000 if thorough else 300], timeout=3000)
    ctx.absorb(mf)
    jf = os.path.join(ctx.tmp, "c18inter.ndjson")
    ctx.run_vh(["c18", "interleave", jf, 20 if thorough else 3], timeout=3000)
    ctx.absorb(jf)
    zf = os.path.join(ctx.tmp, "c18sizes.ndjson")
    ctx.run_vh(["c18", "sizes", zf], timeout=3000)
    ctx.absorb(zf)
    ctx.cov["exhaustive"] = bool(thorough)
    ctx.cov["rule"] = ("one evaluation = one behaviour of Sha2pc.tla (pattern of restarts, re-encodings and at most one foreign/malformed "
                       "message) run on the real rounds with all messages as bytes, or one mutated message; non-trivial = has optional steps")
    ctx.check_drift()


# ---------------------------------------------------------------------- C10
GMWPOOL_CFG = """SPECIFICATION Spec
CONSTANTS
  NParties = %d
  W = 2
  LowWater = 1
  BatchWords <- %s
  Gets <- %s
  MaxBatches = %d
  GetTakesFullCount = %s
INVARIANT Safety
%s
CHECK_DEADLOCK FALSE
"""


@prop("C10")
def c10(ctx):
    thorough = ctx.tier == "thorough"
    ctx.build()
    ctx.assumptions += ["loopback TCP; the parties are goroutines of one process with real sockets",
                        "TLC checks the share algebra per bit; 64-bit words of real runs are checked in full by the harness and, "
                        "for sampled bit positions incl. word boundaries, by TLC"]
    # (M) algebra of dealing and of an AND batch over all share/mask values
    ctx.tlc_expect_ok("Gmw", "Gmw_mc.cfg", name="gmw-mc-2", cfg_text="SPECIFICATION Spec\nCONSTANT P = 2\nINVARIANT Safety\nCHECK_DEADLOCK FALSE\n")
    if thorough:
        ctx.tlc_expect_ok("Gmw", "Gmw_mc.cfg", name="gmw-mc-3", timeout=3400, heap="16g",
                          cfg_text="SPECIFICATION Spec\nCONSTANT P = 3\nINVARIANT Safety\nCHECK_DEADLOCK FALSE\n")
    else:
        ctx.tlc_expect_ok("Gmw", "Gmw_mc.cfg", name="gmw-sim-3", mode="sim", sim="num=3000", depth=6, workers=4, timeout=1500,
                          cfg_text="SPECIFICATION Spec\nCONSTANT P = 3\nINVARIANT Safety\nCHECK_DEADLOCK FALSE\n")
    # (M) the triple pool: producer/consumers of 2-3 parties
    for n, bw, gets, mb in ((3, "MCBatchA", "MCGetsA", 4), (2, "MCBatchB", "MCGetsB", 8)) + (((3, "MCBatchB", "MCGetsB", 8),) if thorough else ()):
        ctx.tlc_expect_ok("GmwPool", "GmwPool_mc.cfg", name="gmwpool-%d-%s" % (n, bw), timeout=3400,
                          cfg_text=GMWPOOL_CFG % (n, bw, gets, mb, "FALSE", "PROPERTY AllServed"))
    r = ctx.tlc("GmwPool", "GmwPool_mc.cfg", name="gmwpool-guard", cfg_text=GMWPOOL_CFG % (3, "MCBatchA", "MCGetsA", 4, "TRUE", ""))
    if r["status"] != "invariant":
        raise Broken("GmwPool.tla does not reject a Get that re-requests the full count after a partial take")
    ctx.cov["spec_rejects_deviations"] = ["get-takes-full-count"]
    # (M) formation of the network (online + offline connection per pair, one accept loop per party)
    gn = lambda n, of, le: ("SPECIFICATION Spec\nCONSTANTS\n  N = %d\n  OfflineFirst = %s\n  ListEarly = %s\n"
                            "INVARIANT Safety\nPROPERTY Terminates\nCHECK_DEADLOCK FALSE\n" % (n, of, le))
    for n in (2, 3, 4):
        ctx.tlc_expect_ok("GmwNet", "GmwNet_mc.cfg", name="gmwnet-%d" % n, timeout=3400, cfg_text=gn(n, "FALSE", "FALSE"))
    if thorough:
        # five parties: the exhaustive state space does not finish within the tier's time; random behaviours, safety only
        ctx.tlc_expect_ok("GmwNet", "GmwNet_mc.cfg", name="gmwnet-5-sim", mode="sim", sim="num=4000", depth=400, workers=8, timeout=3400,
                          cfg_text=gn(5, "FALSE", "FALSE").replace("PROPERTY Terminates\n", ""))
    ctx.tlc_expect_ok("GmwNet", "GmwNet_mc.cfg", name="gmwnet-offline-first", timeout=3400, cfg_text=gn(4, "TRUE", "FALSE"))
    r = ctx.tlc("GmwNet", "GmwNet_mc.cfg", name="gmwnet-guard", cfg_text=gn(3, "FALSE", "TRUE"))
    if r["status"] != "invariant":
        raise Broken("GmwNet.tla does not reject a peer list sent before all joiners are registered (%s)" % r["status"])
    ctx.cov["spec_rejects_deviations"].append("peer-list-before-all-joined")
    # (T) real runs
    trace = os.path.join(ctx.tmp, "gmw_trace.ndjson")
    res = os.path.join(ctx.tmp, "c10res.ndjson")
    def run_or_crash(args, what):
        """a Go runtime crash in a library goroutine while the parties run the protocol (nil connection, index out of
        range ...) is the protocol not completing, not a failure of the machinery"""
        p = ctx.run_vh(args, check=False, timeout=3400)
        if p.returncode != 0:
            err = p.stderr or ""
            if any(s in err for s in ("panic:", "fatal error:", "SIGSEGV", "unexpected fault address")):
                first = next((l for l in err.splitlines() if l.startswith(("panic:", "fatal error:"))), err[:200])
                ctx.violation("crash:process-died:" + what, "the process dies while the parties run %s: %s" % (what, first[:200]), err[:3000])
                return False
            raise Broken("harness failed rc=%d: %s" % (p.returncode, err[-2000:]))
        return True

    ran = run_or_crash(["c10", "run", trace, res, 64 if thorough else 12], "the protocol")
    n = ctx.absorb(res) if os.path.exists(res) else 0
    rows = read_ndjson(trace) if os.path.exists(trace) else []
    ctx.cov["trace_events"] = len(rows)
    t = ctx.tlc("GmwTrace", "GmwTrace.cfg", mode="trace", files=[trace], timeout=3000) if ran and rows else {"status": "skipped"}
    if t["status"] == "skipped":
        pass
    elif t["status"] == "invariant" and t.get("which") in ("TripleOK", "AndOK"):
        ctx.violation("trace:" + t["which"], "recorded shares of a real run violate GmwTrace.%s" % t["which"], t["out"][-2000:])
    elif t["status"] == "invariant":
        ctx.drift.append("GmwTrace.%s fails: the shares no longer follow the formulas of Gmw.tla" % t.get("which"))
    elif t["status"] != "ok":
        raise Broken("GmwTrace failed: %s\n%s" % (t["status"], t["out"][-3000:]))
    else:
        ctx.cov["traces_validated_against_impl"] += n
    # the triple pool alone: identical Get sequences at different paces
    pres = os.path.join(ctx.tmp, "c10pool.ndjson")
    if not ctx.violations and run_or_crash(["c10", "pool", pres, 12 if thorough else 3], "the triple pool"):
        ctx.absorb(pres)
    # binding self-test: flip one recorded c share
    r2 = [json.loads(json.dumps(x)) for x in rows]
    i = next((i for i, x in enumerate(r2) if x["ev"] == "bit"), None)
    if i is not None:
        r2[i]["c"][0] ^= 1
        p2 = os.path.join(ctx.tmp, "selftest", "gmw_trace.ndjson")
        os.makedirs(os.path.dirname(p2), exist_ok=True)
        write_ndjson(p2, r2)
        x = ctx.tlc("GmwTrace", "GmwTrace.cfg", mode="trace", files=[p2], name="gmw-selftest")
        if x["status"] != "invariant":
            raise Broken("binding self-test: GmwTrace accepted a flipped triple share")
        ctx.cov["binding_selftest"] = {"flipped-c-share": x["status"]}
    ctx.cov["rule"] = ("one evaluation = one complete GMW run (2..5 parties, random start delays) on a compiled circuit; non-trivial = 3 or "
                       "more parties; every AND batch of every run is checked in full (all 64-bit words) by the harness")
    ctx.check_drift()


# ---------------------------------------------------------------------- C06
OTEXT_CFG = """SPECIFICATION %s
CONSTANTS
  K = 2
  RPB = 2
  BPW = 2
  ChunkRows = 8
  MaxN = %d
  MaxBatches = %d
  BitsTailApplied = %s
  SendBitsAllCols = %s
  ClearChoiceBuf = %s
%s
CHECK_DEADLOCK FALSE
"""
OT_SIZES = "{1, 7, 8, 9, 63, 64, 65, 127, 128, 129, 130, 200, 511, 512, 513, 1000, 1023, 1024, 1025, 1536, 2049}"


@prop("C06")
def c06(ctx):
    thorough = ctx.tier == "thorough"
    ctx.build()
    ctx.assumptions += ["the PRG streams of the model are fixed arbitrary bit patterns (the correlation is an identity in the streams)",
                        "base OT randomness is honest; the scaled constants (K=2, 2 rows/byte, 2 bytes/word, 8 rows/chunk) keep the ratios of the real ones"]
    # (M) all batch sizes x all choice vectors x Delta, single batches and sequences of two on one instance
    ctx.tlc_expect_ok("OTExt", "OTExt_mc.cfg", name="otext-1", timeout=3000,
                      cfg_text=OTEXT_CFG % ("Spec", 12 if thorough else 10, 1, "TRUE", "TRUE", "TRUE", "INVARIANT Safety"))
    ctx.tlc_expect_ok("OTExt", "OTExt_mc.cfg", name="otext-2", timeout=3000,
                      cfg_text=OTEXT_CFG % ("Spec", 6 if thorough else 5, 2, "TRUE", "TRUE", "TRUE", "INVARIANT Safety"))
    guards = {}
    for nm, a, b, c, nb in (("bits-tail-ignored", "FALSE", "TRUE", "TRUE", 1), ("sendbits-column0-only", "TRUE", "FALSE", "TRUE", 2),
                            ("stale-choice-bytes", "TRUE", "TRUE", "FALSE", 1)):
        r = ctx.tlc("OTExt", "OTExt_mc.cfg", name="otext-guard-" + nm, cfg_text=OTEXT_CFG % ("Spec", 10 if nb == 1 else 4, nb, a, b, c, "INVARIANT Safety"))
        guards[nm] = r["status"]
        if r["status"] != "invariant":
            raise Broken("OTExt.tla does not reject the deviation %s (%s)" % (nm, r["status"]))
    ctx.cov["spec_rejects_deviations"] = guards
    # (G) batch sequences with predicted chunk sizes, run on one real IKNP pair each
    # rows per extension message: the implementation's own constant (measured), so that the predicted message sizes and
    # the batch sizes around the chunk boundary follow it
    cr = json.loads(ctx.run_vh(["c06", "consts"], timeout=300).stdout)["chunk_rows"]
    ctx.cov["implementation_constants"] = {"chunk_rows": cr}
    sizes = sorted(set(json.loads(OT_SIZES.replace("{", "[").replace("}", "]"))) | {cr - 1, cr, cr + 1, 2 * cr - 1, 2 * cr, 2 * cr + 1, 4 * cr + 1})
    ot_sizes = "{" + ", ".join(str(x) for x in sizes if x >= 1) + "}"
    gen = "CONSTANTS\n  GenSizes = %s\n  GenModes = {\"labels\", \"bits\", \"labelsm\"}\n  GenLen = %d\n  RealChunkRows = " + str(cr) + "\nCONSTRAINT Emit"
    g1 = ctx.tlc("OTExtGen", "OTExt_gen.cfg", mode="gen", workers=1, name="otext-gen1",
                 cfg_text=OTEXT_CFG % ("GenSpec", 1, 1, "TRUE", "TRUE", "TRUE", gen % (ot_sizes, 1)))
    g2 = ctx.tlc("OTExtGen", "OTExt_gen.cfg", mode="sim", workers=1, name="otext-gen2", sim="num=%d" % (600 if thorough else 60), depth=4,
                 cfg_text=OTEXT_CFG % ("GenSpec", 1, 1, "TRUE", "TRUE", "TRUE", gen % (ot_sizes, 3)))
    if g1["status"] != "ok" or not g1["cases"]:
        raise Broken("OTExtGen failed: %s\n%s" % (g1["status"], g1["out"][-2000:]))
    multi = [c for c in g2["cases"] if len(c["batches"]) >= 2]
    seen, uniq = set(), []
    for c in g1["cases"] + multi:
        k = json.dumps(c, sort_keys=True)
        if k not in seen:
            seen.add(k)
            uniq.append(c)
    if not thorough:
        uniq = uniq[:63] + sample_cases(uniq[63:], 40, ctx.seed)
    cases = os.path.join(ctx.tmp, "c06cases.ndjson")
    write_ndjson(cases, uniq)
    res = os.path.join(ctx.tmp, "c06res.ndjson")
    ctx.run_vh(["c06", "run", cases, res], timeout=3400)
    n = ctx.absorb(res)
    ctx.cov["traces_validated_against_impl"] += len(uniq)
    ctx.cov["rule"] = ("one evaluation = one initialised OT instance running 1-3 batches (sizes around 8/64/128/512/1024 boundaries, label / "
                       "packed-bit / malicious-checked form, six choice patterns, Delta bit 0 forced to 0 and 1) with every index checked, or one "
                       "run of RSA/CO/COT/ROT through the ot.OT interface; non-trivial = several batches or more than one chunk")
    ctx.check_drift()


# ---------------------------------------------------------------------- C15
KOS_CFG = """SPECIFICATION Spec
CONSTANTS
  KB = 3
  Rows = %d
  PadRows = 1
  CheckBothHalves = %s
INVARIANT Safety
CHECK_DEADLOCK FALSE
"""


@prop("C15")
def c15(ctx):
    thorough = ctx.tier == "thorough"
    ctx.build()
    ctx.assumptions += ["a challenge coefficient chi_row = 0 has probability 2^-128 on the real code and is excluded",
                        "the PRG streams stay in lock step after an abort (the sender reads all chunks before checking), "
                        "so one initialised pair is reused for many tampered batches"]
    ctx.tlc_expect_ok("Kos", "Kos_mc.cfg", name="kos-mc", timeout=3000, cfg_text=KOS_CFG % (3 if thorough else 2, "TRUE"))
    r = ctx.tlc("Kos", "Kos_mc.cfg", name="kos-guard", cfg_text=KOS_CFG % (2, "FALSE"))
    if r["status"] != "invariant":
        raise Broken("Kos.tla does not reject a check that compares only one half")
    ctx.cov["spec_rejects_deviations"] = ["check-one-half-only"]
    res = os.path.join(ctx.tmp, "c15res.ndjson")
    trace = os.path.join(ctx.tmp, "kos_trace.ndjson")
    ctx.run_vh(["c15", "run", res, trace, 100 if thorough else 2], timeout=3400)
    n = ctx.absorb(res)
    t = ctx.tlc("KosTrace", "KosTrace.cfg", mode="trace", files=[trace], timeout=3000)
    if t["status"] == "invariant" and t.get("which") in ("HonestAccepts", "Sound", "NoSilentAccept"):
        ctx.violation("trace:" + t["which"], "a real execution violates KosTrace.%s" % t["which"], t["out"][-2000:])
    elif t["status"] == "invariant":
        ctx.drift.append("KosTrace.%s fails (an unselected or unused flip makes the sender abort)" % t.get("which"))
    elif t["status"] != "ok":
        raise Broken("KosTrace failed: %s\n%s" % (t["status"], t["out"][-3000:]))
    else:
        ctx.cov["traces_validated_against_impl"] += n
    rows = read_ndjson(trace)
    r2 = [dict(x) for x in rows]
    i = next((i for i, x in enumerate(r2) if x["where"] == "payload" and x["deltacol"] == 1 and x["used"] == 1), None)
    if i is not None:
        r2[i]["accepted"] = 1
        p2 = os.path.join(ctx.tmp, "selftest", "kos_trace.ndjson")
        os.makedirs(os.path.dirname(p2), exist_ok=True)
        write_ndjson(p2, r2)
        x = ctx.tlc("KosTrace", "KosTrace.cfg", mode="trace", files=[p2], name="kos-selftest")
        if x["status"] != "invariant":
            raise Broken("binding self-test: KosTrace accepted a silently accepted flip")
        ctx.cov["binding_selftest"] = {"silent-accept": x["status"]}
    ctx.cov["exhaustive"] = bool(thorough)
    ctx.cov["rule"] = ("one evaluation = one malicious-mode batch (n in 1, 8, 9, 129) with one flipped bit (column,row) of the payload or of the "
                       "256-row check matrix, or one flipped bit of the challenge response, or an honest batch (n up to 2049); the thorough "
                       "tier visits every (column,row); all tampered runs are non-trivial")
    ctx.check_drift()


# ---------------------------------------------------------------------- C20
@prop("C20")
def c20(ctx):
    thorough = ctx.tier == "thorough"
    ctx.build()
    ctx.assumptions += ["TLC checks the relations over all values of small primes and 3-bit labels; 256-bit moduli are checked by the harness "
                        "with math/big, elements of moduli < 256 and all Fx/Fxk runs additionally by TLC on the recorded events",
                        "moduli of at most 256 bits (the property's own bound)"]
    ctx.tlc_expect_ok("Shares", "Shares_mc.cfg", name="shares-mc", timeout=3000)
    trace = os.path.join(ctx.tmp, "shares_trace.ndjson")
    res = os.path.join(ctx.tmp, "c20res.ndjson")
    ctx.run_vh(["c20", "run", trace, res, 120 if thorough else 12], timeout=3400)
    n = ctx.absorb(res)
    rows = read_ndjson(trace)
    ctx.cov["trace_events"] = len(rows)
    t = ctx.tlc("SharesTrace", "SharesTrace.cfg", mode="trace", files=[trace], timeout=3000)
    if t["status"] == "invariant":
        ctx.violation("trace:SharesOK", "recorded shares of a real run violate SharesTrace.SharesOK", t["out"][-2000:])
    elif t["status"] != "ok":
        raise Broken("SharesTrace failed: %s\n%s" % (t["status"], t["out"][-3000:]))
    else:
        ctx.cov["traces_validated_against_impl"] += n
    # the gadgets are called from concurrently running instances (one per peer in the BMR player): the same driver under
    # the race detector - a race on the OT output of an instance means another instance's share can be returned
    vr = ctx.build(race=True)
    p = ctx.run_vh(["c20", "run", os.path.join(ctx.tmp, "race_trace.ndjson"), os.path.join(ctx.tmp, "c20race.ndjson"), 4], binary=vr,
                   timeout=3000, check=False, env={"GORACE": "exitcode=66 halt_on_error=0"})
    if "WARNING: DATA RACE" in p.stderr:
        import re
        where = sorted(set(re.findall(r"(/repo/(?:bmr|vole|ot)/[\w/]+\.go:\d+)", p.stderr)))[:6]
        ctx.violation("data-race:concurrent-instances", "concurrently running gadget instances race on shared state (a share of another "
                      "instance can be returned): %s" % ", ".join(where), p.stderr[:3000])
    elif p.returncode != 0:
        raise Broken("race-detector run failed rc=%d\n%s" % (p.returncode, p.stderr[-2000:]))
    else:
        ctx.absorb(os.path.join(ctx.tmp, "c20race.ndjson"))
    r2 = [dict(x) for x in rows]
    i = next((i for i, x in enumerate(r2) if x["ev"] == "vole" and x["p"] > 2), None)
    if i is not None:
        r2[i]["u"] = (r2[i]["u"] + 1) % r2[i]["p"]
        p2 = os.path.join(ctx.tmp, "selftest", "shares_trace.ndjson")
        os.makedirs(os.path.dirname(p2), exist_ok=True)
        write_ndjson(p2, r2)
        x = ctx.tlc("SharesTrace", "SharesTrace.cfg", mode="trace", files=[p2], name="shares-selftest")
        if x["status"] != "invariant":
            raise Broken("binding self-test: SharesTrace accepted a wrong share")
        ctx.cov["binding_selftest"] = {"wrong-u": x["status"]}
    ctx.cov["rule"] = ("one evaluation = one VOLE session of 2-3 Mul calls (lengths 1..2000 across chunk boundaries, large and small moduli, "
                       "elements 0/1/p-1/short/random) with every element checked, or a batch of Fx/Fxk runs over all (a,b) and boundary labels, "
                       "sequential and from 8 concurrent instances; all non-trivial")


# ---------------------------------------------------------------------- C03
MPCL_CFG = """SPECIFICATION Spec
CONSTANTS
  Widths = %s
  MaxStmts = %d
  Kinds = %s
%s
CHECK_DEADLOCK FALSE
"""
MPCL_ALL_KINDS = '{"const", "lit", "bin", "cmp", "logic", "neg", "shift", "cast", "if", "ifnest", "ifret", "loop", "loopret", "nest", "shadow", "expr3", "arr", "mat", "call", "struct", "tuple", "opassign"}'


def mpcl_cases(ctx, name, widths, nstmts, num, kinds=MPCL_ALL_KINDS, limit=None):
    g = ctx.tlc("MpclGen", "Mpcl_gen.cfg", mode="sim", workers=1, sim="num=%d" % num, depth=nstmts + 3, name=name, timeout=3000,
                cfg_text=MPCL_CFG % (widths, nstmts, kinds, "CONSTRAINT Emit"))
    if g["status"] != "ok" or not g["cases"]:
        raise Broken("MpclGen failed: %s\n%s" % (g["status"], g["out"][-2000:]))
    seen, uniq = set(), []
    for c in sorted(g["cases"], key=lambda c: -len(c["stmts"])):
        k = json.dumps(c, sort_keys=True)
        if k not in seen:
            seen.add(k)
            uniq.append(c)
    return uniq[:limit] if limit else uniq


@prop("C03")
def c03(ctx):
    thorough = ctx.tier == "thorough"
    ctx.build()
    ctx.assumptions += ["only the modelled core of the language is claimed (Mpcl.tla header); pointers, make, strings, natives and builtin packages "
                        "are covered through the shipped @Test vectors only",
                        "signed modulo is |a| mod |b| and widening casts sign-extend only between signed types, as the shipped vectors / the "
                        "compiler's own rule fix them; division by zero is unspecified and never generated",
                        "TLC's integers limit the interpreter to widths <= 13; single-operator programs on 33..130-bit types are checked relationally on limbs "
                        "(ArithTrace.tla), the builders themselves under C07"]
    # (M) the interpreter is total and type-correct on every program of <= 2 statements (states = programs)
    ctx.tlc_expect_ok("MpclGen", "Mpcl_mc.cfg", name="mpcl-mc", timeout=3000,
                      cfg_text=MPCL_CFG % ("{1, 3}", 2 if thorough else 1,
                                           '{"const", "lit", "bin", "cmp", "logic", "neg", "shift", "cast", "if", "ifret", "loop", "call"}',
                                           "INVARIANT ResultTyped"))
    if not thorough:
        ctx.tlc_expect_ok("MpclGen", "Mpcl_mc.cfg", name="mpcl-sim", mode="sim", sim="num=300", depth=8, workers=4, timeout=3000,
                          cfg_text=MPCL_CFG % ("{1, 3, 8}", 5, MPCL_ALL_KINDS, "INVARIANT ResultTyped"))
    # (G) programs with predicted results, compiled and evaluated by the real compiler
    cases = mpcl_cases(ctx, "mpcl-gen-a", "{1, 3, 8, 13}", 6, 4000 if thorough else 500, limit=20000 if thorough else 2500)
    cases += mpcl_cases(ctx, "mpcl-gen-b", "{2, 5, 9, 12}", 8, 2000 if thorough else 200, limit=8000 if thorough else 800)
    # control flow only: comparisons, nested ifs, calls inside branches, early returns
    cases += mpcl_cases(ctx, "mpcl-gen-c", "{3, 8}", 6, 2000 if thorough else 300, limit=6000 if thorough else 700,
                        kinds='{"cmp", "lit", "bin", "if", "ifnest", "ifret", "logic"}')
    # data structures only: arrays and structs built, read, updated from variables and from literals
    cases += mpcl_cases(ctx, "mpcl-gen-d", "{3, 8}", 7, 3000 if thorough else 500, limit=9000 if thorough else 1200,
                        kinds='{"arr", "mat", "struct", "neg"}')
    cases += mpcl_cases(ctx, "mpcl-gen-e", "{5, 13}", 6, 1500 if thorough else 250, limit=4000 if thorough else 600,
                        kinds='{"arr", "mat", "struct"}')
    # loops only: nested loops, the loop variable as an operand, returns inside an unrolled loop (guarded by the loop
    # variable or by a run-time condition), a local shadowing a package-level variable across a run-time if
    cases += mpcl_cases(ctx, "mpcl-gen-f", "{3, 8}", 6, 2000 if thorough else 400, limit=6000 if thorough else 900,
                        kinds='{"cmp", "lit", "loop", "loopret", "nest", "shadow", "ifret"}')
    # nested ifs and calls inside a branch, their results used afterwards (starved in the mixed runs)
    cases += mpcl_cases(ctx, "mpcl-gen-i", "{3, 8}", 5, 1200 if thorough else 200, limit=4000 if thorough else 400,
                        kinds='{"cmp", "ifnest", "logic"}')
    # structs only: built field by field and as composite literals of constants, fields read and updated
    cases += mpcl_cases(ctx, "mpcl-gen-j", "{3, 8}", 6, 1500 if thorough else 300, limit=4000 if thorough else 600,
                        kinds='{"struct"}')
    # expressions of two operators without parentheses (precedence, associativity) next to plain arithmetic
    cases += mpcl_cases(ctx, "mpcl-gen-h", "{3, 8}", 4, 1200 if thorough else 250, limit=4000 if thorough else 500,
                        kinds='{"expr3", "neg", "const"}')
    # statements that need a boolean are starved when arithmetic is available (TLC's simulation picks uniformly among
    # successor states): comparisons, ifs, early returns and shadowing on their own
    cases += mpcl_cases(ctx, "mpcl-gen-g", "{3, 8}", 5, 1500 if thorough else 300, limit=5000 if thorough else 700,
                        kinds='{"cmp", "shadow", "if", "ifret"}')
    # tuple assignments (swaps of variables, of the two fields of a struct, of two array elements; the two results of
    # a call stored into fields / elements): every right-hand side is evaluated before any store
    cases += mpcl_cases(ctx, "mpcl-gen-k", "{3, 8}", 5, 1200 if thorough else 250, limit=4000 if thorough else 500,
                        kinds='{"tuple", "struct"}')
    cases += mpcl_cases(ctx, "mpcl-gen-l", "{3, 8}", 5, 1200 if thorough else 250, limit=4000 if thorough else 500,
                        kinds='{"tuple", "arr"}')
    # compound assignments (op= on variables, fields and elements, ++ / --, a loop over len(array))
    cases += mpcl_cases(ctx, "mpcl-gen-m", "{3, 8}", 5, 1500 if thorough else 300, limit=5000 if thorough else 600,
                        kinds='{"opassign", "struct", "arr", "const"}')
    cf = os.path.join(ctx.tmp, "c03cases.ndjson")
    write_ndjson(cf, cases)
    rf = os.path.join(ctx.tmp, "c03res.ndjson")
    ctx.run_vh(["c03", "replay", cf, rf], timeout=3400)
    n = ctx.absorb(rf)
    ctx.cov["traces_validated_against_impl"] += ctx.cov.get("classes", {}).get("compared", 0)
    ctx.cov["programs_generated"] = len(cases)
    # every shipped @Test vector
    vf = os.path.join(ctx.tmp, "c03vec.ndjson")
    ctx.run_vh(["c03", "vectors", vf], timeout=3400)
    ctx.absorb(vf)
    # operators on 33..130-bit types: results of the compiled programs checked relationally on limbs (ArithTrace.tla)
    wtrace = os.path.join(ctx.tmp, "c03wide", "arith_trace.ndjson")
    os.makedirs(os.path.dirname(wtrace), exist_ok=True)
    wres = os.path.join(ctx.tmp, "c03wide.ndjson")
    ctx.run_vh(["c03", "wide", wtrace, wres, 1500 if thorough else 150], timeout=3400)
    ctx.absorb(wres)
    wrows = read_ndjson(wtrace)
    # every event is judged (no invariant in this configuration: the trace contains the listed known finding)
    t = ctx.tlc("ArithTrace", "ArithTrace.cfg", mode="trace", files=[wtrace], name="c03-wide", timeout=3400, xss="64m",
                cfg_text="SPECIFICATION Spec\nPOSTCONDITION Accepted\nCHECK_DEADLOCK FALSE\n")
    if t["status"] != "ok":
        raise Broken("ArithTrace (C03 wide) failed: %s\n%s" % (t["status"], t["out"][-3000:]))
    badlines = sorted(set(int(x) for x in re.findall(r'<<"VHBAD", (\d+)>>', t["out"])))
    for ln in badlines:
        ev = wrows[ln - 1] if 0 < ln <= len(wrows) else {}
        if ev.get("target") == "mpcl-literal":
            key = "wide-literal:%s:%s:%s" % (ev.get("lit"), ev.get("op"), ev.get("wx"))
        else:
            key = "wide:%s:%s" % (ev.get("op"), ev.get("wx"))
        ctx.violation(key, "`%s` on %s-bit operands%s: the compiled program's result violates the exact relation (trace line %d: x=%s y=%s z=%s r=%s, "
                      "base-4096 limbs)" % (ev.get("op"), ev.get("wx"), " (right operand a literal, class %s)" % ev.get("lit") if ev.get("lit") else "",
                                            ln, ev.get("x"), ev.get("y"), ev.get("z"), ev.get("r")), ev)
    ctx.cov["traces_validated_against_impl"] += len(wrows) - len(badlines)
    ctx.cov["wide_events"] = len(wrows)
    ctx.cov["rule"] = ("one evaluation = one generated program (rendered to MPCL, compiled, evaluated on up to 49 boundary input pairs against the "
                       "interpreter) or one shipped test program with all its @Test vectors; non-trivial = at least three statements; class "
                       "`rejected` = the compiler refuses the program (not counted as held or violated)")
    ctx.check_drift()


# ---------------------------------------------------------------------- C07
ARITH_OPS = '{"add", "sub", "mul", "udiv", "umod", "idiv", "imod", "ult", "ule", "ugt", "uge", "ilt", "ile", "igt", "ige", "eq", "neq", "band", "bor", "bxor", "bclr", "hamming", "mux", "index1", "index2", "index3", "land", "lor", "bts", "btc"}'
ARITH_CFG = """SPECIFICATION Spec
CONSTANTS
  OpSet = %s
  WMin = %d
  WMax = %d
  WzKinds = %s
  EqualOnly = %s
CONSTRAINT Emit
INVARIANT RefSane
CHECK_DEADLOCK FALSE
"""


@prop("C07")
def c07(ctx):
    thorough = ctx.tier == "thorough"
    ctx.build()
    ctx.assumptions += ["Circuit.Compute is the evaluator of record (tied to garbled evaluation by C01)",
                        "TLC enumerates complete truth tables for widths up to 5 (8 for equal widths); wider operands (to 130 bits) are "
                        "boundary-pattern samples checked relationally with limb arithmetic (BV.tla)",
                        "signed modulo is |x| mod |y| as the shipped vectors fix it; division by zero is unspecified"]
    runs = [("arith-all", ARITH_OPS, 1, 5 if thorough else 3, '{"min", "max", "max+1", "2max", "2max+3"}' if thorough else '{"min", "max", "max+1", "2max"}', "FALSE")]
    runs.append(("arith-eq", '{"add", "sub", "mul", "udiv", "umod", "idiv", "imod", "ilt", "uge", "eq", "hamming"}', 4 if not thorough else 6,
                 6 if not thorough else 8, '{"max"}', "TRUE"))
    # array index: 1..6 (8) elements of 1..3 bits, index values of 1..6 (8) bits (more and fewer than needed)
    runs.append(("arith-index", '{"index1", "index2", "index3", "bts", "btc"}', 1, 6 if not thorough else 8, '{"max"}', "FALSE"))
    allcases = []
    for name, ops, wmin, wmax, kinds, eq in runs:
        g = ctx.tlc("Arith", "Arith_gen.cfg", mode="gen", name=name, timeout=3400, heap="16g", cfg_text=ARITH_CFG % (ops, wmin, wmax, kinds, eq))
        if g["status"] != "ok" or not g["cases"]:
            raise Broken("Arith generator failed: %s\n%s" % (g["status"], g["out"][-2000:]))
        allcases += g["cases"]
    cf = os.path.join(ctx.tmp, "c07cases.ndjson")
    write_ndjson(cf, allcases)
    rf = os.path.join(ctx.tmp, "c07res.ndjson")
    ctx.run_vh(["c07", "tables", cf, rf], timeout=3400)
    n = ctx.absorb(rf)
    ctx.cov["traces_validated_against_impl"] += n
    ctx.cov["truth_tables"] = len(allcases)
    ctx.cov["table_entries"] = sum(len(c["table"]) for c in allcases)
    # wide operands, relational
    trace = os.path.join(ctx.tmp, "arith_trace.ndjson")
    wres = os.path.join(ctx.tmp, "c07wide.ndjson")
    ctx.run_vh(["c07", "wide", trace, wres, 3200 if thorough else 320], timeout=3400)
    ctx.absorb(wres)
    rows = read_ndjson(trace)
    ctx.cov["wide_events"] = len(rows)
    # every event is judged (no invariant in this configuration: the trace contains the listed finding of the GMW divider)
    t = ctx.tlc("ArithTrace", "ArithTrace.cfg", mode="trace", files=[trace], timeout=3400, xss="64m",
                cfg_text="SPECIFICATION Spec\nPOSTCONDITION Accepted\nCHECK_DEADLOCK FALSE\n")
    if t["status"] != "ok":
        raise Broken("ArithTrace failed: %s\n%s" % (t["status"], t["out"][-3000:]))
    badlines = sorted(set(int(x) for x in re.findall(r'<<"VHBAD", (\d+)>>', t["out"])))
    for ln in badlines:
        ev = rows[ln - 1] if 0 < ln <= len(rows) else {}
        key = "wide:%s:%s:%s,%s,%s" % (ev.get("op"), ev.get("target"), ev.get("wx"), ev.get("wy"), ev.get("wz"))
        if ev.get("allones"):
            # the dividend 2^w - 1 on the GMW divider: the input class of the listed finding
            key = "wide:%s:%s:x=allones:%s" % (ev.get("op"), ev.get("target"), ev.get("wx"))
        ctx.violation(key, "the %s circuit for operand widths (%s,%s), result width %s on %s computes a result that violates the exact "
                      "relation (trace line %d: x=%s y=%s z=%s r=%s, base-4096 limbs)" % (ev.get("op"), ev.get("wx"), ev.get("wy"), ev.get("wz"),
                                                                                       ev.get("target"), ln, ev.get("x"), ev.get("y"), ev.get("z"), ev.get("r")), ev)
    ctx.cov["traces_validated_against_impl"] += len(rows) - len(badlines)
    # binding self-test
    r2 = [json.loads(json.dumps(x)) for x in rows]
    i = next((i for i, x in enumerate(r2) if x["op"] == "mul"), None)
    if i is not None:
        r2[i]["z"][0] ^= 1
        p2 = os.path.join(ctx.tmp, "selftest", "arith_trace.ndjson")
        os.makedirs(os.path.dirname(p2), exist_ok=True)
        write_ndjson(p2, r2)
        x = ctx.tlc("ArithTrace", "ArithTrace.cfg", mode="trace", files=[p2], name="arith-selftest", xss="64m")
        if x["status"] != "invariant":
            raise Broken("binding self-test: ArithTrace accepted a flipped result bit")
        ctx.cov["binding_selftest"] = {"flipped-product-bit": x["status"]}
    ctx.cov["exhaustive"] = True
    ctx.cov["rule"] = ("one evaluation = one complete truth table (op, wx, wy, wz) compared on both targets, or one wide (op, widths, target) "
                       "circuit on six boundary operand pairs; non-trivial = at least 4 operand bits; tables are exhaustive over operands")


# ---------------------------------------------------------------------- C09
OPT_CFG = """SPECIFICATION Spec
CONSTANTS
  NIn = 2
  MaxGates = %d
  Ops = %s
  ShortCircuitOutputs = FALSE
  XnorRuleWrong = %s
%s
CHECK_DEADLOCK FALSE
"""
ALL_GATE_OPS = '{"XOR", "XNOR", "AND", "OR", "INV"}'


@prop("C09")
def c09(ctx):
    thorough = ctx.tier == "thorough"
    ctx.build()
    ctx.assumptions += ["circuit outputs are dedicated wires fed through identity gates (as ssa/circuitgen.go creates them); in Opt.tla "
                        "output flags sit directly on gate wires",
                        "the default configuration (Yao, no pruning, automatic multiplier threshold) is anchored to the language semantics by "
                        "the interpreter's predictions; the other configurations must agree with it on every explored input"]
    # (M) the passes as a transition system over all small graphs
    ctx.tlc_expect_ok("Opt", "Opt_mc.cfg", name="opt-mc-2", timeout=3000, cfg_text=OPT_CFG % (2, ALL_GATE_OPS, "FALSE", "INVARIANT Safety"))
    if thorough:
        ctx.tlc_expect_ok("Opt", "Opt_mc.cfg", name="opt-mc-3", timeout=3400, heap="16g",
                          cfg_text=OPT_CFG % (3, '{"XOR", "AND", "INV"}', "FALSE", "INVARIANT Safety"))
    else:
        ctx.tlc_expect_ok("Opt", "Opt_mc.cfg", name="opt-sim-4", mode="sim", sim="num=3000", depth=20, workers=4, timeout=3000,
                          cfg_text=OPT_CFG % (4, ALL_GATE_OPS, "FALSE", "INVARIANT Safety"))
    r = ctx.tlc("Opt", "Opt_mc.cfg", name="opt-guard", cfg_text=OPT_CFG % (2, ALL_GATE_OPS, "TRUE", "INVARIANT Safety"))
    if r["status"] != "invariant":
        raise Broken("Opt.tla does not reject a wrong XNOR constant rule")
    ctx.cov["spec_rejects_deviations"] = ["xnor-constant-rule"]
    # (G) graphs through the real passes
    g = ctx.tlc("OptGen", "Opt_gen.cfg", mode="gen", name="opt-gen", timeout=3000,
                cfg_text=OPT_CFG % (2, ALL_GATE_OPS, "FALSE", "CONSTRAINT Emit\nCONSTRAINT Stop"))
    if g["status"] != "ok" or not g["cases"]:
        raise Broken("OptGen failed: %s\n%s" % (g["status"], g["out"][-2000:]))
    graphs = g["cases"] if thorough else sample_cases(g["cases"], 4000, ctx.seed)
    g3 = ctx.tlc("OptGen", "Opt_gen.cfg", mode="sim", workers=1, sim="num=%d" % (3000 if thorough else 300), depth=8, name="opt-gen-4",
                 cfg_text=OPT_CFG % (4, ALL_GATE_OPS, "FALSE", "CONSTRAINT Emit\nCONSTRAINT Stop"))
    graphs += [c for c in g3["cases"] if len(c["gates"]) >= 3][:(20000 if thorough else 1500)]
    gf = os.path.join(ctx.tmp, "c09graphs.ndjson")
    write_ndjson(gf, graphs)
    gr = os.path.join(ctx.tmp, "c09gres.ndjson")
    ctx.run_vh(["c09", "graphs", gf, gr], timeout=3400)
    n = ctx.absorb(gr)
    ctx.cov["traces_validated_against_impl"] += n
    ctx.cov["graphs_replayed"] = len(graphs)
    # program level: every configuration computes the same function
    cases = mpcl_cases(ctx, "mpcl-gen-c09", "{3, 6, 8}", 5, 1500 if thorough else 150,
                       kinds='{"const", "lit", "bin", "cmp", "logic", "neg", "shift", "cast", "if", "ifnest", "ifret", "loop", "loopret", "call"}',
                       limit=1000 if thorough else 70)
    cases += mpcl_cases(ctx, "mpcl-gen-c09w", "{4, 7, 13}", 4, 600 if thorough else 60, kinds='{"bin", "lit", "cmp", "cast", "if", "shift"}',
                        limit=400 if thorough else 30)
    cf = os.path.join(ctx.tmp, "c09cases.ndjson")
    write_ndjson(cf, cases)
    rf = os.path.join(ctx.tmp, "c09res.ndjson")
    ctx.run_vh(["c09", "programs", cf, rf], timeout=4 * 3600 if thorough else 3400)
    ctx.absorb(rf)
    ctx.cov["rule"] = ("one evaluation = one gate graph compiled under {prune on/off} x {Yao, GMW} and compared on every input with the "
                       "original graph's truth table, or one program compiled under 17 configurations ({prune} x {multiplier thresholds 0, 8, 16, "
                       "21, 64} x {Yao, GMW}, plus diagnostics and all listings switched on, and all warnings switched off) and compared on every input (<= 12/16 input bits) or 64 vectors; non-trivial = >= 2 gates / >= 3 statements")
    ctx.check_drift()


# ---------------------------------------------------------------------- C12
FOLD_CFG = """SPECIFICATION FSpec
CONSTANTS
  Widths = {8}
  MaxStmts = 1
  Kinds = {}
  FoldWidths = %s
  FoldOps = {"+", "-", "*", "/", "%%", "&", "|", "^", "&^", "<<", ">>", "<", "<=", ">", ">=", "==", "!=", "neg"}
  Consumers = {"ret", "add1", "div3", "lt2", "shl1"}
CONSTRAINT FEmit
CHECK_DEADLOCK FALSE
"""


def c12_space(cat):
    """the case space spanned by FoldCat.tla's catalogue, in a fixed order"""
    cmp_ops = {"<", "<=", ">", ">=", "==", "!="}
    cases = []
    for wd in sorted(cat["widths"], key=lambda d: d["w"]):
        w = wd["w"]
        pats = {p["n"]: p["v"] for p in wd["pats"]}
        counts = sorted(wd["counts"], key=lambda c: c["n"])
        for signed in (0, 1):
            for op in cat["ops"]:
                ks = ["ret"] if op in cmp_ops else cat["ks"]
                for k in ks:
                    for xn in cat["xpats"]:
                        if op in ("<<", ">>"):
                            for c in counts:
                                cases.append({"op": op, "k": k, "w": w, "signed": signed, "bool": 0, "xn": xn, "yn": c["n"],
                                              "x": pats[xn], "y": pats["zero"], "cnt": c["v"]})
                        elif op == "neg":
                            cases.append({"op": op, "k": k, "w": w, "signed": signed, "bool": 0, "xn": xn, "yn": "zero",
                                          "x": pats[xn], "y": pats["zero"], "cnt": 0})
                        else:
                            for yn in cat["ypats"]:
                                if op in ("/", "%") and not any(pats[yn]):
                                    continue
                                cases.append({"op": op, "k": k, "w": w, "signed": signed, "bool": 0, "xn": xn, "yn": yn,
                                              "x": pats[xn], "y": pats[yn], "cnt": 0})
    for op in cat["boolops"]:
        for x in (0, 1):
            for y in ((0,) if op == "not" else (0, 1)):
                cases.append({"op": op, "k": "ret", "w": 1, "signed": 0, "bool": 1, "xn": "true" if x else "false",
                              "yn": "true" if y else "false", "x": [x], "y": [y], "cnt": 0})
    for i, c in enumerate(cases):
        c["i"] = i
    return cases


def c12_run(ctx, cases, par=14):
    """harness + FoldTrace.tla over the cases, in parallel chunks; returns (results per class, events, verdicts)"""
    from concurrent.futures import ThreadPoolExecutor
    n = max(1, min(par, (len(cases) + 499) // 500))
    chunks = [cases[j::n] for j in range(n)]

    def one(j):
        d = os.path.join(ctx.tmp, "c12-%d" % j)
        os.makedirs(d, exist_ok=True)
        cf, rf, tf = (os.path.join(d, f) for f in ("cases.ndjson", "res.ndjson", "fold_trace.ndjson"))
        write_ndjson(cf, chunks[j])
        ctx.run_vh(["c12", "cases", cf, rf, tf], timeout=3400)
        events = read_ndjson(tf)
        verdicts = {}
        # TLC decides every recorded case; pieces of 4000 events keep the deserialised trace small
        for b in range(0, len(events), 4000):
            piece = events[b:b + 4000]
            pd = os.path.join(d, "p%d" % b)
            os.makedirs(pd, exist_ok=True)
            pf = os.path.join(pd, "fold_trace.ndjson")
            write_ndjson(pf, [{k: e[k] for k in ("i", "op", "k", "w", "signed", "bool", "x", "y", "folded", "runtime")} for e in piece])
            r = ctx.tlc("FoldTrace", "FoldTrace.cfg", mode="trace", name="foldtrace-%d-%d" % (j, b), files=[pf], timeout=3000, heap="3g")
            if r["status"] != "ok":
                raise Broken("FoldTrace failed: %s\n%s" % (r["status"], r["out"][-3000:]))
            for v in r["cases"]:
                verdicts[v["i"]] = v
            if len([1 for e in piece if e["i"] in verdicts]) != len(piece):
                raise Broken("FoldTrace decided %d of %d recorded cases" % (len(r["cases"]), len(piece)))
        return rf, events, verdicts, sum(1 for _ in events)

    with ThreadPoolExecutor(max_workers=n) as ex:
        return list(ex.map(one, range(n)))


@prop("C12")
def c12(ctx):
    thorough = ctx.tier == "thorough"
    ctx.build()
    ctx.assumptions += ["the case space is the fixed product FoldCat.tla spans (13 widths x signedness x 18 operators x 6 consumers x 16 x 8 operand "
                        "patterns / shift counts, plus the boolean operators) and every operand pair of the types of <= 4 bits; the quick tier "
                        "draws a seeded sample of it, the thorough tier takes all of it",
                        "division, modulo and shifts have no typed reference value for wide operands here (the circuits are checked against "
                        "Arith.tla under C07); folded and run-time results are still compared",
                        "inputs on which the unchanged compiler folds differently from its circuits are listed one by one in known/C12.inputs.json; "
                        "a discrepancy on any other input is a violation"]
    # catalogue and case space from the specification
    g = ctx.tlc("FoldCatGen", "FoldCat_gen.cfg", mode="gen1", name="foldcat", timeout=600)
    if g["status"] != "ok" or len(g["cases"]) != 1:
        raise Broken("FoldCat failed: %s\n%s" % (g["status"], g["out"][-2000:]))
    space = c12_space(g["cases"][0])
    ctx.cov["case_space"] = len(space)
    if thorough:
        cases = space
    else:
        import random
        rnd = random.Random(ctx.seed)
        nb = [c for c in space if c["bool"]]
        cases = rnd.sample([c for c in space if not c["bool"]], 7000) + nb
    # the same folds on other routes (constant locals, constant arguments, an unsized function instantiated at two
    # widths, a constant that is also cast to a wider type); case numbers leave room for a second observation
    import random as _r
    rr = _r.Random(ctx.seed * 7 + 1)
    rbase = [c for c in space if not c["bool"] and c["w"] <= 65]
    routed = []
    for c in (rbase if thorough else rr.sample(rbase, 6000)):
        for route in ("local", "param", "unsized", "cast"):
            if route == "unsized" and c["k"] != "ret":
                continue
            if not thorough and rr.random() > 0.3:
                continue
            pick = rr.randrange(2)
            for swap in ((0, 1) if route in ("unsized", "cast") else (0,)):
                if not thorough and route in ("unsized", "cast") and swap != pick:
                    continue
                d = dict(c)
                d["route"] = route
                d["swap"] = swap
                routed.append(d)
    base_i = len(space) + 10
    for j, d in enumerate(routed):
        d["i"] = base_i + 2 * j
    ctx.cov["routed_cases"] = len(routed)
    cases = cases + routed
    n_ev = 0
    for rf, events, verdicts, n in c12_run(ctx, cases):
        ctx.absorb(rf)
        n_ev += n
        for e in events:
            v = verdicts[e["i"]]
            if not v["same"] and "/" in e["key"].split("@")[0] and e.get("pkgfv") not in (None, e["fv"]):
                # a routed case whose fold differs from what the package-constant route folds for the same typed operands
                ctx.violation("fold-route:" + e["key"], "%s: folded constant %s, run-time circuit %s, the same operands as package constants fold to %s" % (
                    e["what"], e["fv"], e["rv"], e["pkgfv"]))
            elif not v["same"]:
                ctx.violation("fold:" + e["key"], "%s: folded constant %s, run-time circuit %s" % (e["what"], e["fv"], e["rv"]))
            elif v["typed"] == "bad":
                ctx.drift.append("%s: folded and run-time agree on %s, which is not the typed value of FoldCat.tla" % (e["what"], e["rv"]))
        ctx.sample({"case": events[0]["key"], "folded": events[0]["fv"], "runtime": events[0]["rv"]} if events else None)
    ctx.cov["traces_validated_against_impl"] += n_ev
    ctx.cov["cases_decided_by_FoldTrace"] = n_ev
    # narrow types: every operand pair, with the expected value from Mpcl.tla's typed semantics
    fg = ctx.tlc("Fold", "Fold_gen.cfg", mode="gen", name="fold-gen", timeout=3000, cfg_text=FOLD_CFG % ("{1, 2, 3, 4}" if thorough else "{1, 3, 4}"))
    if fg["status"] != "ok" or not fg["cases"]:
        raise Broken("Fold generator failed: %s\n%s" % (fg["status"], fg["out"][-2000:]))
    fcases = fg["cases"] if thorough else sample_cases(fg["cases"], 150, ctx.seed)
    ff = os.path.join(ctx.tmp, "c12small.ndjson")
    write_ndjson(ff, sorted(fcases, key=lambda c: json.dumps(c, sort_keys=True)))
    fr = os.path.join(ctx.tmp, "c12smallres.ndjson")
    ctx.run_vh(["c12", "replay", ff, fr], timeout=3400)
    ctx.absorb(fr)
    ctx.cov["rule"] = ("one evaluation = one (operator, type, operand pair, consumer): the constant variant (typed package constants; CompileSSA "
                       "confirms no arithmetic instruction is left) and the run-time variant are compiled and evaluated; FoldTrace.tla decides "
                       "equality and the typed reference value on limbs; classes: folded / rejected (the compiler refuses the constant "
                       "declaration) / not-folded / crash")
    if ctx.drift:
        raise Broken("MODEL-DRIFT: run-time circuits disagree with the typed semantics although folding agrees with them:\n  " + "\n  ".join(ctx.drift[:10]))


# ---------------------------------------------------------------------- C13
IOENC_CFG = """SPECIFICATION %s
CONSTANTS
  MaxMembers = %d
  ScalarWidths = %s
  ElWidths = %s
  Counts = %s
%s
CHECK_DEADLOCK FALSE
"""


@prop("C13")
def c13(ctx):
    thorough = ctx.tier == "thorough"
    ctx.build()
    ctx.assumptions += ["an argument is a flat sequence of members (the compiler flattens struct arguments into IOArg.Compound); members are bool, "
                        "intN/uintN, or arrays/slices of intN/uintN; string and struct result values are not decoded",
                        "array literals are hexadecimal with element widths that are multiples of 4 (other widths have no unambiguous spelling); "
                        "IOArg.Set takes []byte for arrays, so its array cases use elements of >= 8 bits with byte-sized values",
                        "the size inferred for a non-negative spelling is the number of bits written (\"255\" -> 8 bits, also for a signed "
                        "argument); for a negative decimal it must include the sign bit",
                        "an empty array has no spelling of its own and is excluded from the size-inference cases"]
    # (M) the layout: decoding inverts encoding, members do not interfere, textual and typed readings agree
    ctx.tlc_expect_ok("IOEnc", "IOEnc_mc.cfg", name="ioenc-mc", timeout=3000,
                      cfg_text=IOENC_CFG % ("Spec", 2, "{1, 3}", "{2}", "{0, 1, 2}", "INVARIANT Safety"))
    if thorough:
        ctx.tlc_expect_ok("IOEnc", "IOEnc_mc.cfg", name="ioenc-mc-3", timeout=3400, heap="16g",
                          cfg_text=IOENC_CFG % ("Spec", 3, "{1, 2}", "{2}", "{0, 1}", "INVARIANT Safety"))
    # (G) cases with their wires through Parse / Set / InputSizes / Result
    cases = []
    for nm, sw, ew, cn, num in ((4, "{1, 3, 8, 16}", "{4, 8}", "{0, 1, 3}", 6000 if thorough else 1200),
                                (3, "{2, 7, 12, 32}", "{8, 16}", "{0, 2, 4}", 6000 if thorough else 800)):
        g = ctx.tlc("IOEncGen", "IOEnc_gen.cfg", mode="sim", workers=1, sim="num=%d" % num, depth=nm + 3, name="ioenc-gen-%d" % nm, timeout=3000,
                    cfg_text=IOENC_CFG % ("GSpec", nm, sw, ew, cn, "CONSTRAINT Emit"))
        if g["status"] != "ok" or not g["cases"]:
            raise Broken("IOEncGen failed: %s\n%s" % (g["status"], g["out"][-2000:]))
        cases += g["cases"]
    # every one- and two-member argument over a small type set
    g = ctx.tlc("IOEncGen", "IOEnc_gen.cfg", mode="gen", name="ioenc-gen-bfs", timeout=3000,
                cfg_text=IOENC_CFG % ("GSpec", 2, "{1, 3}" if thorough else "{3}", "{4}", "{0, 1, 2}" if thorough else "{0, 2}", "CONSTRAINT Emit"))
    if g["status"] != "ok" or not g["cases"]:
        raise Broken("IOEncGen (exhaustive) failed: %s\n%s" % (g["status"], g["out"][-2000:]))
    cases += g["cases"] if thorough else sample_cases(g["cases"], 1500, ctx.seed)
    cf = os.path.join(ctx.tmp, "c13cases.ndjson")
    write_ndjson(cf, cases)
    rf = os.path.join(ctx.tmp, "c13res.ndjson")
    ctx.run_vh(["c13", "replay", cf, rf], timeout=3400)
    n = ctx.absorb(rf)
    ctx.cov["traces_validated_against_impl"] += n
    # (T) members of 1..130 bits: observations of the real API decided by IOEncTrace.tla
    wr = os.path.join(ctx.tmp, "c13wide.ndjson")
    wt = os.path.join(ctx.tmp, "c13wide_trace.ndjson")
    ctx.run_vh(["c13", "wide", wr, wt, 6000 if thorough else 800], timeout=3400)
    ctx.absorb(wr)
    events = read_ndjson(wt)
    if not events:
        raise Broken("the wide driver recorded nothing")
    # the binding is live: a corrupted observation must be rejected
    probe = json.loads(json.dumps(events[0]))
    if probe["observed"]:
        probe["observed"][0] ^= 1
    else:
        probe["observed"] = [1]
    keep = ("api", "ts", "vs", "observed", "member")
    bad = 0
    nprobe = 0
    for b in range(0, len(events), 5000):
        piece = events[b:b + 5000]
        rows = [{k: e[k] for k in keep if k in e} for e in piece]
        if b == 0:
            rows.append({k: probe[k] for k in keep if k in probe})
        d = os.path.join(ctx.tmp, "ioenc-%d" % b)
        os.makedirs(d, exist_ok=True)
        pf = os.path.join(d, "ioenc_trace.ndjson")
        write_ndjson(pf, rows)
        r = ctx.tlc("IOEncTrace", "IOEncTrace.cfg", mode="trace", name="ioenctrace-%d" % b, files=[pf], timeout=3000)
        if r["status"] != "ok" or len(r["cases"]) != len(rows):
            raise Broken("IOEncTrace failed: %s, %d of %d verdicts\n%s" % (r["status"], len(r["cases"]), len(rows), r["out"][-3000:]))
        for v in r["cases"]:
            i = v["i"] - 1
            if b == 0 and i == len(piece):
                nprobe += 1
                if v["ok"]:
                    raise Broken("IOEncTrace accepts a corrupted observation: the trace specification does not constrain the wires")
                continue
            if not v["ok"]:
                e = piece[i]
                bad += 1
                kinds = "+".join(sorted(set(e.get("kinds", [])))) or "member"
                ctx.violation("%s:wide:%s" % (e["api"], kinds), "%s: the observed wires %s are not the layout of IOEnc.tla" % (e["desc"], "".join(map(str, e["observed"]))[:200]))
    if nprobe != 1:
        raise Broken("the corrupted probe event was not decided")
    ctx.cov["traces_validated_against_impl"] += len(events)
    ctx.cov["binding_probe"] = "one corrupted observation rejected by IOEncTrace.tla"
    ctx.cov["rule"] = ("one evaluation = one argument (1..5 members) with values: IOArg.Parse under 5 spelling variants (decimal, hexadecimal, binary, octal, "
                       "unsigned decimal; true/false/t/f/0/1; hex array literals, short literals, empty), IOArg.Set under 2 Go-type variants (exact-size and "
                       "64-bit Go integers, []byte, nil; fresh and reused result), InputSizes + InstantiateWithSizes + Parse for the unsized variant of each "
                       "member, mpc.Result twice per member with the argument compared before and after; non-trivial = >= 2 members")


# ---------------------------------------------------------------------- C14
CIRCFILE_CFG = """SPECIFICATION Spec
CONSTANTS
  MaxWires = %d
  MaxGates = %d
  MaxRecords = %d
  Ops = %s
  InShapes <- ShapesIn
  OutShapes <- ShapesOut
  Format = "%s"
  CheckGateIndex = %s
%s
CHECK_DEADLOCK FALSE
"""


@prop("C14")
def c14(ctx):
    thorough = ctx.tier == "thorough"
    ctx.build()
    ctx.assumptions += ["CircFile.tla models files at the level of declared counts, I/O sizes and gate records (every structural corruption over a "
                        "small alphabet); byte-level corruption (truncation, extension, bit flips, field splices, boundary counts) is driven by the "
                        "harness and judged by the property alone: error, or a circuit that passes the well-formedness check, within 10 s",
                        "declared sizes above a million are outside the property and skipped",
                        "the Bristol format carries only sizes: names, types and compound members are compared for the native format only",
                        "a gate may write a wire that is already assigned (both parsers allow it)"]
    # (M) the parser as a transition system over all small files
    for fmt in ("mpclc", "bristol"):
        r = ctx.tlc_expect_ok("CircFileGen", "CircFile_mc.cfg", name="circfile-mc-" + fmt, timeout=3000,
                              cfg_text=CIRCFILE_CFG % (2, 2, 2, '{"XOR", "INV"}', fmt, "TRUE", "INVARIANT Safety\nPROPERTY Terminates"))
    if thorough:
        ctx.tlc_expect_ok("CircFileGen", "CircFile_mc.cfg", name="circfile-mc-3", timeout=3400, heap="16g",
                          cfg_text=CIRCFILE_CFG % (3, 2, 2, '{"XOR", "AND", "INV"}', "mpclc", "TRUE", "INVARIANT Safety"))
    r = ctx.tlc("CircFileGen", "CircFile_mc.cfg", name="circfile-guard",
                cfg_text=CIRCFILE_CFG % (2, 2, 2, '{"XOR", "INV"}', "mpclc", "FALSE", "INVARIANT Safety"))
    if r["status"] != "invariant":
        raise Broken("CircFile.tla does not reject a parser without the gate-index check")
    ctx.cov["spec_rejects_deviations"] = ["no-gate-index-check"]
    # (G) every file with the model's verdict through the real parsers
    for fmt in ("mpclc", "bristol"):
        g = ctx.tlc("CircFileGen", "CircFile_gen.cfg", mode="gen", name="circfile-gen-" + fmt, timeout=3000,
                    cfg_text=CIRCFILE_CFG % (3 if thorough else 2, 2, 2, '{"XOR", "INV"}', fmt, "TRUE", "CONSTRAINT Emit"))
        if g["status"] != "ok" or not g["cases"]:
            raise Broken("CircFileGen failed: %s\n%s" % (g["status"], g["out"][-2000:]))
        cf = os.path.join(ctx.tmp, "c14cases-%s.ndjson" % fmt)
        write_ndjson(cf, g["cases"])
        rf = os.path.join(ctx.tmp, "c14res-%s.ndjson" % fmt)
        ctx.run_vh(["c14", "replay", cf, rf, fmt], timeout=3400)
        n = ctx.absorb(rf)
        ctx.cov["traces_validated_against_impl"] += n
        ctx.cov["files_" + fmt] = n
    # round trips of rich signatures and compiled programs
    rt = os.path.join(ctx.tmp, "c14rt.ndjson")
    ctx.run_vh(["c14", "roundtrip", rt, 1500 if thorough else 240], timeout=3400)
    ctx.absorb(rt)
    # byte-level corruption
    mu = os.path.join(ctx.tmp, "c14mut.ndjson")
    ctx.run_vh(["c14", "mutate", mu, 40000 if thorough else 3000], timeout=3400)
    ctx.absorb(mu)
    if ctx.drift:
        raise Broken("MODEL-DRIFT: the real parsers and CircFile.tla disagree on verdicts that the property does not decide:\n  " + "\n  ".join(ctx.drift[:10]))
    ctx.cov["rule"] = ("one evaluation = one file given to a real parser: every file of the CircFile.tla alphabet in both formats with the modelled verdict "
                       "(accepted files compared gate by gate and re-marshalled byte for byte), Marshal/Parse/Marshal of generated signatures (empty, "
                       "long and non-ASCII names, all scalar types, nested arrays, struct arguments with compound members, headers and names longer "
                       "than the parser's buffer, INV-only circuits) and of compiled programs, and mutated valid files; non-trivial = >= 2 gate records")


# ---------------------------------------------------------------------- C08
DETERM_CFG = """SPECIFICATION %s
CONSTANTS
  Progs = %s
  SizeIds = %s
  ValIds = %s
  MaxOps = %d
  Procs = %s
  Orders = {1, 2}
  LeakMemo = %s
  LeakCache = %s
  LeakOrder = %s
  LeakScratch = FALSE
%s
CHECK_DEADLOCK FALSE
"""


def tla_set(xs):
    return "{" + ", ".join('"%s"' % x for x in xs) + "}"


@prop("C08")
def c08(ctx):
    thorough = ctx.tier == "thorough"
    ctx.build()
    ctx.assumptions += ["Go randomises map iteration per range statement and per process: order dependence is explored by repeating every request "
                        "several times in several OS processes, not by forcing an order (no hook can do that without changing the code under test)",
                        "a request is (program, input sizes, parameter values); the sharing modes are fresh Params+Compiler, a new Compiler on a "
                        "shared Params object (what apps/garbled does) and a reused Compiler instance",
                        "the byte-identical circuit is compared through the SHA-256 of Circuit.Marshal and of the Params.SSAOut text"]
    # (M) the design: no hidden state reaches the output; every named leak is rejected
    ctx.tlc_expect_ok("Determ", "Determ_mc.cfg", name="determ-mc", timeout=3000,
                      cfg_text=DETERM_CFG % ("Spec", tla_set(["mul", "libs"]), tla_set(["s16", "s32"]), tla_set(["default", "gmw"]),
                                             4 if thorough else 3, "{1, 2}", "FALSE", "FALSE", "FALSE", "INVARIANT Deterministic"))
    rejected = []
    for i, name in enumerate(("memo", "cache", "order")):
        flags = ["FALSE"] * 3
        flags[i] = "TRUE"
        r = ctx.tlc("Determ", "Determ_mc.cfg", name="determ-guard-" + name,
                    cfg_text=DETERM_CFG % ("Spec", tla_set(["mul"]), tla_set(["s16", "s32"]), tla_set(["default"]), 3, "{1, 2}",
                                           flags[0], flags[1], flags[2], "INVARIANT Deterministic"))
        if r["status"] != "invariant":
            raise Broken("Determ.tla does not reject the leak '%s'" % name)
        rejected.append("leak-" + name)
    r = ctx.tlc("Determ", "Determ_mc.cfg", name="determ-guard-scratch",
                cfg_text=(DETERM_CFG % ("Spec", tla_set(["mul"]), tla_set(["s16", "s32"]), tla_set(["default"]), 3, "{1}",
                                        "FALSE", "FALSE", "FALSE", "INVARIANT Deterministic")).replace("LeakScratch = FALSE", "LeakScratch = TRUE"))
    if r["status"] != "invariant":
        raise Broken("Determ.tla does not reject process-wide scratch shared by concurrent compilations")
    rejected.append("leak-scratch")
    ctx.cov["spec_rejects_deviations"] = rejected
    # (G) histories through real compilations in separate processes
    combos = [(["mul"], ["s16", "s32", "s64"], ["default"], 5, 8),
              (["mul"], ["s16", "s32"], ["gmw"], 4, 4),
              (["mul", "arith"], ["s24x40"], ["default", "thresh8"], 5, 4),
              (["arith", "funcs"], ["none"], ["default", "gmw"], 6, 5),
              (["libs"], ["none"], ["default", "prune"], 5, 4),
              # several imported packages with package-level variables (their initialisers are emitted per package)
              (["imports"], ["none"], ["default", "prune"], 5, 3),
              # a compilation that fails half way, then the same Compiler / Params used again (one process)
              (["libs", "failing"], ["none"], ["default"], 6, 6, "{1}")]
    if thorough:
        combos = [tuple([c[0], c[1], c[2], c[3] + 2, c[4] * 4] + list(c[5:])) for c in combos]
        combos += [(["hmac"], ["none"], ["default"], 5, 4), (["aes"], ["none"], ["default", "gmw"], 4, 3),
                   (["libs", "funcs", "mul"], ["s16", "none"], ["default", "gmw", "prune"], 8, 12)]
    hists = []
    for ci, combo in enumerate(combos):
        progs, sizes, vals, nops, num = combo[:5]
        procs = combo[5] if len(combo) > 5 else "{1, 2, 3}"
        g = ctx.tlc("DetermGen", "Determ_gen.cfg", mode="sim", workers=1, sim="num=%d" % num, depth=nops + 3, name="determ-gen-%d" % ci, timeout=3000,
                    cfg_text=DETERM_CFG % ("GSpec", tla_set(progs), tla_set(sizes), tla_set(vals), nops, procs, "FALSE", "FALSE", "FALSE",
                                           "CONSTRAINT Emit"))
        if g["status"] != "ok" or not g["cases"]:
            raise Broken("DetermGen failed: %s\n%s" % (g["status"], g["out"][-2000:]))
        hists += g["cases"]
    # histories of Determ.tla that simulation rarely draws: four compilations of one request at the same time in one
    # process, next to a lone one, for two programs
    for prog, sizes in (("libs", "none"), ("mul", "s32"), ("arith", "none")):
        ops = [{"proc": 1, "share": "par", "prog": prog, "sizes": sizes, "vals": "default"} for _ in range(4)]
        ops.append({"proc": 1, "share": "fresh", "prog": prog, "sizes": sizes, "vals": "default"})
        ops += [{"proc": 2, "share": "par", "prog": prog, "sizes": sizes, "vals": "default"},
                {"proc": 2, "share": "par", "prog": "mul", "sizes": "s16", "vals": "default"}]
        hists.append({"ops": ops})
    hf = os.path.join(ctx.tmp, "c08hist.ndjson")
    write_ndjson(hf, hists)
    rf = os.path.join(ctx.tmp, "c08res.ndjson")
    d = os.path.join(ctx.tmp, "c08trace")
    os.makedirs(d, exist_ok=True)
    tf = os.path.join(d, "determ_trace.ndjson")
    ctx.run_vh(["c08", "run", hf, rf, tf], timeout=3400)
    ctx.absorb(rf)
    events = read_ndjson(tf)
    if not events:
        raise Broken("no compilation was recorded")
    errs = [e for e in events if e["err"] and not e["key"].startswith("failing/")]
    if [e for e in events if e["key"].startswith("failing/") and not e["err"]]:
        raise Broken("the program `failing` compiles (dead driver)")
    ctx.cov["compilations"] = len(events)
    ctx.cov["compile_errors"] = len(errs)
    if len(errs) * 2 > len(events):
        raise Broken("most compilations fail: %s" % errs[0]["err"])
    for prog in sorted(set(e["key"].split("/")[0] for e in events)):
        mine = [e for e in events if e["key"].split("/")[0] == prog]
        if prog != "failing" and all(e["err"] for e in mine):
            raise Broken("program %s never compiles (dead driver): %s" % (prog, mine[0]["err"]))
    # (T) one key, one circuit, one SSA listing - decided by DetermTrace.tla over all histories
    r = ctx.tlc("DetermTrace", "DetermTrace.cfg", mode="trace", name="determtrace", files=[tf], timeout=3000)
    if r["status"] != "ok":
        raise Broken("DetermTrace failed: %s\n%s" % (r["status"], r["out"][-3000:]))
    for v in r["cases"]:
        e, ref = events[v["l"] - 1], events[v["ref"] - 1]
        prog, sizes, vals = e["key"].split("/")
        where = "same-process" if (e["h"], e["proc"]) == (ref["h"], ref["proc"]) else "other-process"
        ctx.violation("nondet:%s:%s:%s:%s-%s:%s" % (v["what"], prog, vals, ref["share"], e["share"], where),
                      "%s compiled with %s (history %d, operation %d, process %d) gives %s %s, but %s with %s (history %d, operation %d, process %d)"
                      % (e["key"], e["share"], e["h"], e["i"], e["proc"], v["what"], e[{"circuit": "circ", "ssa": "ssa", "error": "err"}[v["what"]]] or "-",
                         ref[{"circuit": "circ", "ssa": "ssa", "error": "err"}[v["what"]]] or "-", ref["share"], ref["h"], ref["i"], ref["proc"]))
    ctx.cov["traces_validated_against_impl"] += len(events)
    keys = {}
    for e in events:
        keys.setdefault(e["key"], 0)
        keys[e["key"]] += 1
    ctx.cov["requests"] = len(keys)
    ctx.cov["min_repeats_per_request"] = min(keys.values())
    ctx.cov["rule"] = ("one evaluation = one history of 4..8 compile operations spread over up to 3 OS processes; every operation is an event (request key, "
                       "circuit hash, SSA hash); DetermTrace.tla requires one output per request over all histories; non-trivial = >= 3 operations")
