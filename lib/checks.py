"""Per-property check procedures. Each takes a vcheck.Ctx."""
import json, os, random
from vcheck import Broken, write_ndjson, read_ndjson

TABLE = {}


def prop(pid):
    def deco(f):
        TABLE[pid] = f
        return f
    return deco


def tlc_reject_line(out):
    """(line number, line json) printed by a trace spec's postcondition, if any"""
    import re
    m = re.search(r'<<"VHREJECT", (\d+), (.*)>>', out)
    if m:
        return int(m.group(1)), m.group(2)
    return None, None


# ---------------------------------------------------------------------- C11
CONN_MC = """SPECIFICATION Spec
CONSTANTS
  WBuf = 4
  RBuf = 6
  NBufs = 3
  Lens = {0, 1, 5, 9}
  SizesLens = {0, 2}
  MaxOps = %d
INVARIANT Safety
PROPERTY EventuallyAllReceived
CHECK_DEADLOCK FALSE
"""


@prop("C11")
def c11(ctx):
    thorough = ctx.tier == "thorough"
    ctx.build()
    ctx.assumptions += ["transport Write consumes the whole buffer (net.Conn / io.Pipe semantics)",
                        "error paths (writerErr) are outside C11",
                        "one goroutine sends and one receives per Conn"]
    # (M) every interleaving of caller, writer goroutine and receiver at tiny buffer sizes
    ctx.tlc_expect_ok("Conn", "Conn_mc.cfg", cfg_text=CONN_MC % (3 if thorough else 2), timeout=3000)
    # (G) behaviours with the real buffer sizes, replayed on the real Conn
    num = 400 if thorough else 40
    g = ctx.tlc("ConnGen", "Conn_gen.cfg", mode="sim", workers=1, sim="num=%d" % num, depth=30000, timeout=1500)
    if g["status"] != "ok" or not g["cases"]:
        raise Broken("generator produced no cases: %s\n%s" % (g["status"], g["out"][-2000:]))
    cases = os.path.join(ctx.tmp, "c11cases.ndjson")
    write_ndjson(cases, g["cases"])
    res = os.path.join(ctx.tmp, "c11res.ndjson")
    ctx.run_vh(["c11", "replay", cases, res], timeout=3000)
    n = ctx.absorb(res)
    ctx.cov["traces_validated_against_impl"] += n
    ctx.cov["generated_behaviours"] = len(g["cases"])
    # (T) free-running sessions validated against the abstract property spec and the impl-shaped spec
    nsess = 60 if thorough else 8
    trace = os.path.join(ctx.tmp, "conn_trace.ndjson")
    res2 = os.path.join(ctx.tmp, "c11rec.ndjson")
    ctx.run_vh(["c11", "record", trace, res2, nsess], timeout=3000)
    ctx.absorb(res2)
    nev = len(read_ndjson(trace))
    ctx.cov["trace_events"] = nev
    a = ctx.tlc("ConnAbs", "ConnAbs.cfg", mode="trace", files=[trace], timeout=1500)
    if a["status"] == "invariant":
        ctx.violation("trace:" + a.get("which", "Property"),
                      "recorded run violates the abstract stream property (ConnAbs.%s)" % a.get("which"),
                      a["out"][-3000:])
    elif a["status"] != "ok":
        raise Broken("ConnAbs trace check failed: %s\n%s" % (a["status"], a["out"][-3000:]))
    t = ctx.tlc("ConnTrace", "ConnTrace.cfg", mode="trace", files=[trace], timeout=1500)
    if t["status"] == "ok":
        ctx.cov["traces_validated_against_impl"] += 2 * nsess
    elif t["status"] in ("postcondition", "invariant"):
        ln, line = tlc_reject_line(t["out"])
        ctx.drift.append("ConnTrace rejects the recorded run at line %s: %s (%s)" % (ln, line, t.get("which", "")))
    else:
        raise Broken("ConnTrace failed: %s\n%s" % (t["status"], t["out"][-3000:]))
    # binding self-test: a corrupted field and a dropped event must both be rejected
    rows = read_ndjson(trace)
    st = {}
    for name, mut in (("corrupt-field", "corrupt"), ("drop-event", "drop")):
        r2 = [dict(r) for r in rows]
        idx = [i for i, r in enumerate(r2) if r["ev"] == "write"]
        i = idx[len(idx) // 2]
        if mut == "corrupt":
            r2[i]["a"] += 1
        else:
            del r2[i]
        p = os.path.join(ctx.tmp, "selftest", "conn_trace.ndjson")
        os.makedirs(os.path.dirname(p), exist_ok=True)
        write_ndjson(p, r2)
        x = ctx.tlc("ConnTrace", "ConnTrace.cfg", mode="trace", files=[p], timeout=1500, name="selftest-" + mut)
        st[name] = x["status"]
        if x["status"] == "ok":
            raise Broken("binding self-test: ConnTrace accepted a trace with a %s" % name)
    ctx.cov["binding_selftest"] = st
    ctx.cov["rule"] = ("a replayed behaviour is non-trivial when it flushes at least once and uses >= 3 message kinds; "
                       "a free-running session is non-trivial when it carries payloads around the 64Ki/1Mi buffer boundaries")
    ctx.check_drift()
