package main

// C08: compilation is deterministic.
//
//   vh c08 run histories.ndjson results.ndjson trace.ndjson
//       histories of specs/Determ.tla: sequences of compile operations [proc, share, prog, sizes, vals].
//       Every process of a history is a separate OS process (vh c08 child) that executes its operations
//       in order - with fresh Params and Compiler, a new Compiler on the process' shared Params, or the
//       process' shared Compiler instance - and reports the SHA-256 of the marshalled circuit and of the
//       SSA listing.  The events are written as a trace for specs/DetermTrace.tla, which decides that
//       equal (program, sizes, parameter values) always gave equal bytes.
//   vh c08 child events.ndjson   (ops on stdin)

import (
	"bytes"
	"crypto/sha256"
	"encoding/json"
	"fmt"
	"io"
	"os"
	"os/exec"
	"sort"
	"strings"
	"sync"

	"github.com/markkurossi/mpc/compiler"
	"github.com/markkurossi/mpc/compiler/utils"
)

func init() { commands["c08"] = c08Main }

type detOp struct {
	I     int    `json:"i"`
	Proc  int    `json:"proc"`
	Share string `json:"share"` // fresh | params | compiler
	Prog  string `json:"prog"`
	Sizes string `json:"sizes"`
	Vals  string `json:"vals"`
}

type detEvent struct {
	I     int    `json:"i"`
	Proc  int    `json:"proc"`
	Share string `json:"share"`
	Key   string `json:"key"`
	Circ  string `json:"circ"`
	SSA   string `json:"ssa"`
	Err   string `json:"err"`
	Gates int    `json:"gates"`
}

var c08Progs = map[string]string{
	// unsized arguments: the input sizes select the multiplier widths
	"mul": `package main

func main(a, b uint) uint {
	return a * b
}
`,
	"arith": `package main

func main(a, b int32) (int32, bool) {
	c := a*b + a/7
	if c > b {
		return c - b, true
	}
	return c % 5, false
}
`,
	// several library packages with package-level variables and constants
	"libs": `package main

import (
	"bytes"
	"crypto/sha1"
	"encoding/hex"
	"math"
)

func main(a, b [8]byte) ([]byte, int32) {
	d := sha1.Sum(a[:])
	h := hex.EncodeToString(d[0:2])
	var r int32 = math.MaxInt16
	if bytes.Compare(a[:], b[:]) > 0 {
		r = r + int32(h[0])
	}
	return d[0:4], r
}
`,
	// several imported packages that have package-level variables: their initialisers are emitted per package
	"imports": `package main

import (
	"crypto/aes"
	"crypto/curve25519"
	"crypto/hkdf"
	"crypto/sha256"
	"encoding/hex"
)

func main(a, b [16]byte) ([]byte, []byte, string) {
	s := sha256.Sum256(a[:])
	return aes.Block128(a, b), s[0:4], hex.EncodeToString(b[0:2])
}
`,
	// does not compile: the error is found after main has called into imported packages, so the compiler has
	// parsed, initialised and instantiated them by then; what it leaves behind must not reach a later compilation
	"failing": `package main

import (
	"bytes"
	"crypto/sha1"
	"encoding/hex"
	"math"
)

func main(a, b [8]byte) ([]byte, int32) {
	d := sha1.Sum(a[:])
	h := hex.EncodeToString(d[0:2])
	var r int32 = math.MaxInt16
	if bytes.Compare(a[:], b[:]) > 0 {
		r = r + int32(h[0]) + undefinedName
	}
	return d[0:4], r
}
`,
	"hmac": `package main

import (
	"bytes"
	"crypto/hmac"
	"encoding/binary"
)

func main(k [8]byte, d [8]byte) ([]byte, uint32) {
	m := hmac.SumSHA256(d[:], k[:])
	var r uint32 = binary.GetUint32(m[4:8])
	if bytes.Compare(k[:], d[:]) < 0 {
		r = r + uint32(k[0])
	}
	return m[0:4], r
}
`,
	"aes": `package main

import (
	"crypto/aes"
	"crypto/sha256"
)

func main(k, d [16]byte) ([]byte, []byte) {
	s := sha256.Sum256(d[:])
	return aes.EncryptBlock(k, d), s[0:4]
}
`,
	"funcs": `package main

type Acc struct {
	Sum uint16
	N   uint8
}

func add(a Acc, v uint16) Acc {
	a.Sum += v
	a.N++
	return a
}

func main(x, y uint16) (uint16, uint8) {
	var a Acc
	for i := 0; i < 3; i++ {
		a = add(a, x*uint16(i)+y)
	}
	return a.Sum, a.N
}
`,
}

func c08Sizes(id string) [][]int {
	switch id {
	case "s16":
		return [][]int{{16}, {16}}
	case "s32":
		return [][]int{{32}, {32}}
	case "s64":
		return [][]int{{64}, {64}}
	case "s24x40":
		return [][]int{{24}, {40}}
	}
	return nil
}

func c08Params(id string) *utils.Params {
	p := utils.NewParams()
	p.MPCLCErrorLoc = false
	switch id {
	case "prune":
		p.OptPruneGates = true
	case "gmw":
		p.Target = utils.TargetGMW
	case "thresh8":
		p.CircMultArrayTreshold = 8
	}
	return p
}

type nopWC struct{ io.Writer }

func (nopWC) Close() error { return nil }

func c08Child() error {
	var ops []detOp
	if err := json.NewDecoder(os.Stdin).Decode(&ops); err != nil {
		return err
	}
	// the compiler prints diagnostics to stdout: events go to a file of their own
	f, err := os.Create(os.Args[len(os.Args)-1])
	if err != nil {
		return err
	}
	defer f.Close()
	enc := json.NewEncoder(f)
	sharedParams := map[string]*utils.Params{}
	sharedCompiler := map[string]*compiler.Compiler{}
	var encMu sync.Mutex
	one := func(op detOp, params *utils.Params, c *compiler.Compiler, barrier func()) error {
		ev := detEvent{I: op.I, Proc: op.Proc, Share: op.Share, Key: op.Prog + "/" + op.Sizes + "/" + op.Vals}
		var ssa bytes.Buffer
		params.SSAOut = nopWC{&ssa}
		func() {
			defer func() {
				if x := recover(); x != nil {
					ev.Err = fmt.Sprintf("panic: %v", x)
				}
			}()
			circ, _, err := c.Compile(c08Progs[op.Prog], c08Sizes(op.Sizes))
			barrier() // concurrent operations also write their circuits out at the same time
			if err != nil {
				ev.Err = err.Error()
				return
			}
			var b bytes.Buffer
			if err := circ.Marshal(&b); err != nil {
				ev.Err = err.Error()
				return
			}
			ev.Circ = fmt.Sprintf("%x", sha256.Sum256(b.Bytes()))[:16]
			ev.SSA = fmt.Sprintf("%x", sha256.Sum256(ssa.Bytes()))[:16]
			ev.Gates = circ.NumGates
		}()
		params.SSAOut = nil
		encMu.Lock()
		defer encMu.Unlock()
		return enc.Encode(ev)
	}
	for i := 0; i < len(ops); i++ {
		op := ops[i]
		if op.Share == "par" {
			// the run of consecutive "par" operations executes at the same time, each with its own Params and Compiler
			j := i
			for j < len(ops) && ops[j].Share == "par" {
				j++
			}
			group := ops[i:j]
			var wg, atMarshal sync.WaitGroup
			atMarshal.Add(len(group))
			errs := make([]error, len(group))
			for g, gop := range group {
				wg.Add(1)
				go func(g int, gop detOp) {
					defer wg.Done()
					params := c08Params(gop.Vals)
					var once sync.Once
					errs[g] = one(gop, params, compiler.New(params), func() {
						once.Do(func() { atMarshal.Done(); atMarshal.Wait() })
					})
					once.Do(func() { atMarshal.Done() })
				}(g, gop)
			}
			wg.Wait()
			for _, e := range errs {
				if e != nil {
					return e
				}
			}
			i = j - 1
			continue
		}
		var params *utils.Params
		var c *compiler.Compiler
		switch op.Share {
		case "fresh":
			params = c08Params(op.Vals)
			c = compiler.New(params)
		case "params":
			if sharedParams[op.Vals] == nil {
				sharedParams[op.Vals] = c08Params(op.Vals)
			}
			params = sharedParams[op.Vals]
			c = compiler.New(params)
		default:
			if sharedParams[op.Vals] == nil {
				sharedParams[op.Vals] = c08Params(op.Vals)
			}
			params = sharedParams[op.Vals]
			if sharedCompiler[op.Vals] == nil {
				sharedCompiler[op.Vals] = compiler.New(params)
			}
			c = sharedCompiler[op.Vals]
		}
		if err := one(op, params, c, func() {}); err != nil {
			return err
		}
	}
	return nil
}

// c08Probe compiles one program n times with fresh compilers in this process and prints the distinct output hashes.
func c08Probe(prog string, n int) error {
	src, ok := c08Progs[prog]
	if !ok {
		b, err := os.ReadFile(prog)
		if err != nil {
			return err
		}
		src = string(b)
	}
	seen := map[string]int{}
	for i := 0; i < n; i++ {
		params := c08Params("default")
		var ssa bytes.Buffer
		params.SSAOut = nopWC{&ssa}
		circ, _, err := compiler.New(params).Compile(src, nil)
		if err != nil {
			return err
		}
		var b bytes.Buffer
		if err := circ.Marshal(&b); err != nil {
			return err
		}
		ch, sh := sha256.Sum256(b.Bytes()), sha256.Sum256(ssa.Bytes())
		seen[fmt.Sprintf("circ=%x ssa=%x", ch[:8], sh[:8])]++
	}
	for k, v := range seen {
		fmt.Println(v, k)
	}
	return nil
}

func c08Main(args []string) error {
	if len(args) == 3 && args[0] == "probe" {
		n := 20
		fmt.Sscan(args[2], &n)
		return c08Probe(args[1], n)
	}
	if len(args) >= 1 && args[0] == "child" {
		return c08Child()
	}
	if len(args) < 4 || args[0] != "run" {
		return fmt.Errorf("usage: vh c08 run histories.ndjson results.ndjson trace.ndjson | vh c08 child")
	}
	out, err := newND(args[2])
	if err != nil {
		return err
	}
	defer out.close()
	tr, err := newND(args[3])
	if err != nil {
		return err
	}
	defer tr.close()
	self, err := os.Executable()
	if err != nil {
		return err
	}
	hi := 0
	return readND(args[1], func(raw json.RawMessage) error {
		var h struct {
			Ops []detOp `json:"ops"`
		}
		if err := json.Unmarshal(raw, &h); err != nil {
			return err
		}
		res := &Result{Case: hi, Nontrivial: len(h.Ops) >= 3}
		byProc := map[int][]detOp{}
		for i := range h.Ops {
			h.Ops[i].I = i + 1
			byProc[h.Ops[i].Proc] = append(byProc[h.Ops[i].Proc], h.Ops[i])
		}
		var procs []int
		for p := range byProc {
			procs = append(procs, p)
		}
		sort.Ints(procs)
		var events []detEvent
		for _, p := range procs {
			in, _ := json.Marshal(byProc[p])
			evf := fmt.Sprintf("%s.child-%d-%d", args[3], hi, p)
			cmd := exec.Command(self, "c08", "child", evf)
			cmd.Stdin = bytes.NewReader(in)
			var stdout, stderr bytes.Buffer
			cmd.Stdout = &stdout
			cmd.Stderr = &stderr
			if err := cmd.Run(); err != nil {
				return fmt.Errorf("child process failed: %v\n%s", err, clipStr(stderr.String(), 2000))
			}
			evb, err := os.ReadFile(evf)
			if err != nil {
				return err
			}
			os.Remove(evf)
			dec := json.NewDecoder(bytes.NewReader(evb))
			for {
				var ev detEvent
				if err := dec.Decode(&ev); err != nil {
					break
				}
				events = append(events, ev)
			}
		}
		if len(events) != len(h.Ops) {
			return fmt.Errorf("history %d: %d events for %d operations", hi, len(events), len(h.Ops))
		}
		sort.Slice(events, func(i, j int) bool { return events[i].I < events[j].I })
		classes := map[string]bool{}
		for _, ev := range events {
			if ev.Err != "" {
				classes["compile-error"] = true
			}
			classes[ev.Share] = true
			tr.put(map[string]interface{}{"h": hi, "i": ev.I, "proc": ev.Proc, "share": ev.Share, "key": ev.Key, "circ": ev.Circ, "ssa": ev.SSA,
				"err": clipStr(ev.Err, 200), "gates": ev.Gates})
		}
		var cl []string
		for c := range classes {
			cl = append(cl, c)
		}
		sort.Strings(cl)
		res.Class = strings.Join(cl, "+")
		if hi < 2 {
			res.Sample = map[string]interface{}{"ops": h.Ops, "events": events}
		}
		hi++
		out.put(res)
		return nil
	})
}

func clipStr(s string, n int) string {
	if len(s) > n {
		return s[:n]
	}
	return s
}
