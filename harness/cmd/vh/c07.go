package main

// C07: arithmetic and logic circuit builders are exact for every width.
//
//   vh c07 tables cases.ndjson results.ndjson
//       complete truth tables printed by specs/Arith.tla, one per (op, wx, wy, wz),
//       are compared with the circuits the real builders produce for the Yao and
//       the GMW target (built the way ssa/circuitgen.go builds them).
//   vh c07 wide trace.ndjson results.ndjson n
//       wide operands (15..17, 31..33, 46..66, 127..130 bits, every Karatsuba
//       threshold +-1): the results of the real circuits are written as limb
//       sequences for specs/ArithTrace.tla, which checks them relationally.

import (
	"encoding/json"
	"fmt"
	"math/big"
	"math/rand"

	"github.com/markkurossi/mpc/circuit"
	"github.com/markkurossi/mpc/compiler/circuits"
	"github.com/markkurossi/mpc/compiler/utils"
	"github.com/markkurossi/mpc/types"
)

func init() { commands["c07"] = c07Main }

type arCase struct {
	Op    string `json:"op"`
	Wx    int    `json:"wx"`
	Wy    int    `json:"wy"`
	Wz    int    `json:"wz"`
	Table []int  `json:"table"`
}

type builtCirc struct {
	circ *circuit.Circuit
	nout int // outputs: wz, or wz+wr for the dividers built with both results
}

// buildOp builds the circuit of one builder call. For the dividers both results are requested
// from one builder call when both is set (quotient in the first wz outputs, remainder in the rest).
func buildOp(op string, wx, wy, wz int, target utils.Target, both bool, prune bool, konst ...int) (c *circuit.Circuit, err error) {
	defer func() {
		if x := recover(); x != nil {
			err = fmt.Errorf("builder panics: %v", x)
		}
	}()
	params := utils.NewParams()
	params.Target = target
	params.OptPruneGates = prune
	calloc := circuits.NewAllocator()
	x := calloc.Wires(types.Size(wx))
	y := calloc.Wires(types.Size(wy))
	nout := wz
	if both {
		nout = 2 * wz
	}
	outs := calloc.Wires(types.Size(nout))
	for _, o := range outs {
		o.SetOutput(true)
	}
	flat := append(append([]*circuits.Wire{}, x...), y...)
	io := func(n int, name string) circuit.IO {
		return circuit.IO{circuit.IOArg{Name: name, Type: types.Info{Type: types.TUint, IsConcrete: true, Bits: types.Size(n)}}}
	}
	cc, err := circuits.NewCompiler(params, calloc, io(wx+wy, "in"), io(nout, "out"), flat, outs)
	if err != nil {
		return nil, err
	}
	// the builders write into intermediate wires which are then copied to the output wires (circuitgen.go does the same)
	z := calloc.Wires(types.Size(wz))
	var z2 []*circuits.Wire
	if both {
		z2 = calloc.Wires(types.Size(wz))
	}
	switch op {
	case "add":
		err = circuits.NewAdder(cc, x, y, z)
	case "sub":
		err = circuits.NewSubtractor(cc, x, y, z)
	case "mul":
		err = circuits.NewMultiplier(cc, params.CircMultArrayTreshold, x, y, z)
	case "udiv":
		if both {
			err = circuits.NewUDivider(cc, x, y, z, z2)
		} else {
			err = circuits.NewUDivider(cc, x, y, z, nil)
		}
	case "umod":
		err = circuits.NewUDivider(cc, x, y, nil, z)
	case "idiv":
		if both {
			err = circuits.NewIDivider(cc, x, y, z, z2)
		} else {
			err = circuits.NewIDivider(cc, x, y, z, nil)
		}
	case "imod":
		err = circuits.NewIDivider(cc, x, y, nil, z)
	case "ult":
		err = circuits.NewUintLtComparator(cc, x, y, z)
	case "ule":
		err = circuits.NewUintLeComparator(cc, x, y, z)
	case "ugt":
		err = circuits.NewUintGtComparator(cc, x, y, z)
	case "uge":
		err = circuits.NewUintGeComparator(cc, x, y, z)
	case "ilt":
		err = circuits.NewIntLtComparator(cc, x, y, z)
	case "ile":
		err = circuits.NewIntLeComparator(cc, x, y, z)
	case "igt":
		err = circuits.NewIntGtComparator(cc, x, y, z)
	case "ige":
		err = circuits.NewIntGeComparator(cc, x, y, z)
	case "eq":
		err = circuits.NewEqComparator(cc, x, y, z)
	case "neq":
		err = circuits.NewNeqComparator(cc, x, y, z)
	case "band":
		err = circuits.NewBinaryAND(cc, x, y, z)
	case "bor":
		err = circuits.NewBinaryOR(cc, x, y, z)
	case "bxor":
		err = circuits.NewBinaryXOR(cc, x, y, z)
	case "bclr":
		err = circuits.NewBinaryClear(cc, x, y, z)
	case "hamming":
		err = circuits.Hamming(cc, x, y, z)
	case "mux":
		err = circuits.NewMUX(cc, x[0:1], y[0:wz], y[wz:2*wz], z)
	case "index1", "index2", "index3":
		err = circuits.NewIndex(cc, wz, x, y, z)
	case "land":
		err = circuits.NewLogicalAND(cc, x, y, z)
	case "lor":
		err = circuits.NewLogicalOR(cc, x, y, z)
	case "bts":
		// the bit number is a compile-time constant: one circuit per value (y is an unused input)
		err = circuits.NewBitSetTest(cc, x, types.Size(konst[0]), z)
	case "btc":
		err = circuits.NewBitClrTest(cc, x, types.Size(konst[0]), z)
	default:
		return nil, fmt.Errorf("unknown op %s", op)
	}
	if err != nil {
		return nil, err
	}
	for i := 0; i < wz; i++ {
		cc.ID(z[i], outs[i])
	}
	for i := 0; i < len(z2); i++ {
		cc.ID(z2[i], outs[wz+i])
	}
	cc.ConstPropagate()
	cc.ShortCircuitXORZero()
	if prune {
		cc.Prune()
	}
	return cc.Compile(), nil
}

func computeXY(c *circuit.Circuit, wx int, x, y *big.Int) (*big.Int, error) {
	in := new(big.Int).Lsh(y, uint(wx))
	in.Or(in, x)
	out, err := c.Compute([]*big.Int{in})
	if err != nil {
		return nil, err
	}
	return out[0], nil
}

var targets = []struct {
	name string
	t    utils.Target
}{{"yao", utils.TargetYao}, {"gmw", utils.TargetGMW}}

func c07Tables(args []string) error {
	out, err := newND(args[1])
	if err != nil {
		return err
	}
	defer out.close()
	idx := 0
	nviol := 0
	return readND(args[0], func(raw json.RawMessage) error {
		var ac arCase
		if err := json.Unmarshal(raw, &ac); err != nil {
			return err
		}
		if nviol >= 100000 {
			return nil
		}
		res := &Result{Case: idx, Nontrivial: ac.Wx+ac.Wy >= 4, Class: ac.Op}
		idx++
		for _, tg := range targets {
			c, err := buildOp(ac.Op, ac.Wx, ac.Wy, ac.Wz, tg.t, false, idx%2 == 0, 0)
			if err != nil {
				res.viol(fmt.Sprintf("builder-error:%s:%s:%d,%d,%d", ac.Op, tg.name, ac.Wx, ac.Wy, ac.Wz), "%s (%d,%d)->%d on %s: %v", ac.Op, ac.Wx, ac.Wy, ac.Wz, tg.name, err)
				continue
			}
			bad, first := 0, ""
			perConst := map[int]*circuit.Circuit{}
			for i, want := range ac.Table {
				if want < 0 {
					continue
				}
				x := i >> uint(ac.Wy)
				y := i & (1<<uint(ac.Wy) - 1)
				if ac.Op == "bts" || ac.Op == "btc" {
					// y is the constant bit number: its own circuit
					if perConst[y] == nil {
						cy, err := buildOp(ac.Op, ac.Wx, ac.Wy, ac.Wz, tg.t, false, idx%2 == 0, y)
						if err != nil {
							res.viol(fmt.Sprintf("builder-error:%s:%s:%d,%d,%d", ac.Op, tg.name, ac.Wx, ac.Wy, ac.Wz), "%s (%d, bit %d) on %s: %v", ac.Op, ac.Wx, y, tg.name, err)
							break
						}
						perConst[y] = cy
					}
					c = perConst[y]
				}
				got, err := computeXY(c, ac.Wx, big.NewInt(int64(x)), big.NewInt(int64(y)))
				if err != nil {
					res.viol("compute-error", "%v", err)
					break
				}
				if got.Cmp(big.NewInt(int64(want))) != 0 {
					bad++
					if first == "" {
						first = fmt.Sprintf("x=%d y=%d: circuit %v, exact %d", x, y, got, want)
					}
				}
			}
			if bad > 0 {
				wzc := "wz<=max"
				m := ac.Wx
				if ac.Wy > m {
					m = ac.Wy
				}
				if ac.Wz > m {
					wzc = "wz>max"
				}
				res.viol(fmt.Sprintf("table:%s:%s:%s:%d,%d,%d", ac.Op, tg.name, wzc, ac.Wx, ac.Wy, ac.Wz),
					"%s with operand widths (%d,%d) and result width %d on %s: %d of %d operand pairs wrong (%s)", ac.Op, ac.Wx, ac.Wy, ac.Wz, tg.name, bad, len(ac.Table), first)
			}
		}
		if len(res.Viol) > 0 {
			nviol++
		}
		if idx <= 2 {
			res.Sample = ac
		}
		out.put(res)
		return nil
	})
}

func limbs(v *big.Int, w int) []int {
	n := (w + 11) / 12
	r := make([]int, n)
	t := new(big.Int).Set(v)
	mask := big.NewInt(4095)
	for i := 0; i < n; i++ {
		r[i] = int(new(big.Int).And(t, mask).Int64())
		t.Rsh(t, 12)
	}
	return r
}

func boundaryOperand(rng *rand.Rand, w int) *big.Int {
	max := new(big.Int).Lsh(big.NewInt(1), uint(w))
	switch rng.Intn(8) {
	case 0:
		return big.NewInt(0)
	case 1:
		return big.NewInt(1)
	case 2:
		return new(big.Int).Sub(max, big.NewInt(1)) // all ones / -1
	case 3:
		return new(big.Int).Rsh(max, 1) // sign bit only / min
	case 4:
		return new(big.Int).Sub(new(big.Int).Rsh(max, 1), big.NewInt(1)) // max signed
	case 5:
		// 0101...
		v := new(big.Int)
		for i := 0; i < w; i += 2 {
			v.SetBit(v, i, 1)
		}
		return v
	case 6:
		// small
		return new(big.Int).Mod(big.NewInt(int64(rng.Intn(1000))), max)
	}
	return new(big.Int).Rand(rng, max)
}

func c07Wide(args []string) error {
	tr, err := newND(args[0])
	if err != nil {
		return err
	}
	defer tr.close()
	out, err := newND(args[1])
	if err != nil {
		return err
	}
	defer out.close()
	n := 200
	if len(args) > 2 {
		fmt.Sscan(args[2], &n)
	}
	rng := rand.New(rand.NewSource(seed()*6700417 + 7))
	widths := []int{7, 8, 9, 15, 16, 17, 21, 22, 24, 31, 32, 33, 46, 47, 50, 63, 64, 65, 66}
	if thorough() {
		widths = append(widths, 83, 127, 128, 129, 130)
	}
	ops := []string{"add", "sub", "mul", "udiv", "idiv", "mul", "ult", "ugt", "ilt", "ige", "eq", "neq", "band", "bxor", "bclr", "hamming"}
	cache := map[string]*circuit.Circuit{}
	for i := 0; i < n; i++ {
		op := ops[i%len(ops)]
		wx := widths[rng.Intn(len(widths))]
		wy := wx
		if rng.Intn(4) == 0 {
			wy = widths[rng.Intn(len(widths))]
		}
		if op == "mul" && rng.Intn(2) == 0 {
			// every Karatsuba / array multiplier switch point and its neighbours
			wx = []int{8, 9, 16, 17, 20, 21, 22, 23, 32, 33, 45, 46, 47, 48, 63, 64, 65}[rng.Intn(17)]
			wy = wx
		}
		m := wx
		if wy > m {
			m = wy
		}
		wz := []int{m, m, m + 1, 2 * m}[rng.Intn(4)]
		if op == "sub" && wz > m+1 || op == "udiv" || op == "idiv" {
			// results wider than the operands are a recorded deviation for these builders (small-width tables)
			wz = m
		}
		isCmp := op == "ult" || op == "ugt" || op == "ilt" || op == "ige" || op == "eq" || op == "neq"
		if isCmp {
			wz = 1
		}
		tg := targets[i/len(ops)%2]
		both := op == "udiv" || op == "idiv"
		key := fmt.Sprintf("%s/%d/%d/%d/%s", op, wx, wy, wz, tg.name)
		res := &Result{Case: i, Nontrivial: true, Class: op + ":" + tg.name}
		c, ok := cache[key]
		if !ok {
			c, err = buildOp(op, wx, wy, wz, tg.t, both, i%3 == 0)
			if err != nil {
				res.viol(fmt.Sprintf("builder-error:%s:%s", op, tg.name), "%s (%d,%d)->%d on %s: %v", op, wx, wy, wz, tg.name, err)
				out.put(res)
				continue
			}
			cache[key] = c
		}
		for k := 0; k < 6; k++ {
			x := boundaryOperand(rng, wx)
			y := boundaryOperand(rng, wy)
			if (op == "udiv" || op == "idiv" || op == "imod") && y.Sign() == 0 {
				y = big.NewInt(1)
			}
			got, err := computeXY(c, wx, x, y)
			if err != nil {
				res.viol("compute-error", "%v", err)
				break
			}
			ev := map[string]interface{}{"ev": "op", "op": op, "target": tg.name, "wx": wx, "wy": wy, "wz": wz,
				"x": limbs(x, wx), "y": limbs(y, wy)}
			if op == "udiv" && x.BitLen() == wx && new(big.Int).Add(x, big.NewInt(1)).BitLen() == wx+1 {
				ev["allones"] = 1
			}
			if both {
				mask := new(big.Int).Sub(new(big.Int).Lsh(big.NewInt(1), uint(wz)), big.NewInt(1))
				ev["z"] = limbs(new(big.Int).And(got, mask), wz)
				ev["r"] = limbs(new(big.Int).And(new(big.Int).Rsh(got, uint(wz)), mask), wz)
			} else {
				ev["z"] = limbs(got, wz)
				ev["r"] = []int{0}
			}
			tr.put(ev)
		}
		out.put(res)
	}
	// the dividend 2^w - 1 on the unsigned dividers of both targets, against every divisor below 2100 (and a few large
	// ones): the input class on which the GMW Goldschmidt divider is known to be off by two
	for _, tg := range targets {
		for _, w := range []int{9, 10, 12, 16, 24, 32} {
			c, err := buildOp("udiv", w, w, w, tg.t, true, false)
			if err != nil {
				return err
			}
			x := new(big.Int).Sub(new(big.Int).Lsh(big.NewInt(1), uint(w)), big.NewInt(1))
			mask := new(big.Int).Set(x)
			for d := 1; d < 2100 && d < 1<<uint(w); d++ {
				y := big.NewInt(int64(d))
				got, err := computeXY(c, w, x, y)
				if err != nil {
					return err
				}
				tr.put(map[string]interface{}{"ev": "op", "op": "udiv", "target": tg.name, "wx": w, "wy": w, "wz": w, "allones": 1,
					"x": limbs(x, w), "y": limbs(y, w), "z": limbs(new(big.Int).And(got, mask), w),
					"r": limbs(new(big.Int).And(new(big.Int).Rsh(got, uint(w)), mask), w)})
			}
		}
	}
	return nil
}

func c07Main(args []string) error {
	if len(args) < 3 {
		return fmt.Errorf("usage: vh c07 tables|wide ...")
	}
	switch args[0] {
	case "tables":
		return c07Tables(args[1:])
	case "wide":
		return c07Wide(args[1:])
	}
	return fmt.Errorf("unknown c07 mode")
}
