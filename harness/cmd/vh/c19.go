package main

// C19: the p2p mesh always forms completely and consistently.
//
//   vh c19 replay cases.ndjson results.ndjson
//       TLC behaviours of specs/MeshGen.tla are replayed step by step on the
//       real p2p.Create/Join/Connect over loopback TCP through the blocking
//       `verif` gates in p2p/network.go.
//   vh c19 random trace.ndjson results.ndjson nruns
//       a seeded random scheduler drives the same gates; go/at events are
//       recorded for validation by specs/MeshTrace.tla.
//   vh c19 free results.ndjson nruns
//       free-running formation with random delays in the gates.

import (
	"encoding/json"
	"fmt"
	"math/rand"
	"net"
	"strings"
	"sync"
	"time"

	"github.com/markkurossi/mpc/p2p"
)

func init() { commands["c19"] = c19Main }

type meshAct struct {
	P   int    `json:"p"`
	Act string `json:"act"`
	A   int    `json:"a"`
	B   int    `json:"b"`
}

type meshCase struct {
	N    int       `json:"n"`
	C    int       `json:"c"`
	Acts []meshAct `json:"acts"`
}

type meshEv struct {
	Ev  string `json:"ev"` // go | at | fin | Create | Join | reset
	P   int    `json:"p"`
	T   string `json:"t"` // main | acc
	Act string `json:"act"`
	A   int    `json:"a"`
	B   int    `json:"b"`
}

type threadKey struct {
	p    int
	kind string
}

func gateKind(point string) string {
	switch point {
	case "Accept", "ReadHello", "AFirst", "ASecond":
		return "acc"
	}
	return "main"
}

type gateReq struct {
	point   string
	a, b    int
	release chan struct{}
	serial  int
}

type meshSched struct {
	mu        sync.Mutex
	cond      *sync.Cond
	waiting   map[threadKey]*gateReq
	serial    int
	open      bool // free mode: gates do not block
	delayRng  *rand.Rand
	maxDelay  int    // microseconds, free mode
	holdPoint string // free mode: the first thread arriving at this gate is held for holdDur
	holdDur   time.Duration
	holdParty int // -1: any party; otherwise only this party's thread is held
	held      bool
	finished  map[int]error
	done      map[int]bool
	events    []meshEv
	record    bool
}

func newMeshSched() *meshSched {
	s := &meshSched{waiting: map[threadKey]*gateReq{}, finished: map[int]error{}, done: map[int]bool{}, holdParty: -1}
	s.cond = sync.NewCond(&s.mu)
	return s
}

func (s *meshSched) gate(point string, self, a, b int) {
	s.mu.Lock()
	if s.open {
		var d time.Duration
		if s.holdPoint == point && !s.held && (s.holdParty < 0 || s.holdParty == self) {
			s.held = true
			s.mu.Unlock()
			time.Sleep(s.holdDur)
			return
		}
		if s.delayRng != nil && s.maxDelay > 0 && s.delayRng.Intn(3) > 0 {
			d = time.Duration(s.delayRng.Intn(s.maxDelay)) * time.Microsecond
		}
		s.mu.Unlock()
		if d > 0 {
			time.Sleep(d)
		}
		return
	}
	s.serial++
	req := &gateReq{point: point, a: a, b: b, release: make(chan struct{}), serial: s.serial}
	k := threadKey{self, gateKind(point)}
	s.waiting[k] = req
	if s.record {
		s.events = append(s.events, meshEv{Ev: "at", P: self, T: k.kind, Act: point, A: a, B: b})
	}
	s.cond.Broadcast()
	s.mu.Unlock()
	<-req.release
}

func (s *meshSched) openAll() {
	s.mu.Lock()
	s.open = true
	for k, r := range s.waiting {
		close(r.release)
		delete(s.waiting, k)
	}
	s.mu.Unlock()
}

// waitFor waits until pred() holds (called with mu held) or the timeout expires.
func (s *meshSched) waitFor(d time.Duration, pred func() bool) bool {
	deadline := time.Now().Add(d)
	timer := time.AfterFunc(d, func() {
		s.mu.Lock()
		s.cond.Broadcast()
		s.mu.Unlock()
	})
	defer timer.Stop()
	s.mu.Lock()
	defer s.mu.Unlock()
	for !pred() {
		if time.Now().After(deadline) {
			return false
		}
		s.cond.Wait()
	}
	return true
}

type meshRun struct {
	n, c   int
	s      *meshSched
	nets   []*p2p.Network
	addrs  []string
	res    *Result
	incomp []string
}

func freePorts(n int) ([]string, error) {
	var ls []net.Listener
	var addrs []string
	for i := 0; i < n; i++ {
		l, err := net.Listen("tcp", "127.0.0.1:0")
		if err != nil {
			return nil, err
		}
		ls = append(ls, l)
		addrs = append(addrs, l.Addr().String())
	}
	for _, l := range ls {
		l.Close()
	}
	return addrs, nil
}

func newMeshRun(n, c int, res *Result) (*meshRun, error) {
	addrs, err := freePorts(n)
	if err != nil {
		return nil, err
	}
	r := &meshRun{n: n, c: c, s: newMeshSched(), nets: make([]*p2p.Network, n), addrs: addrs, res: res}
	p2p.VerifGate = r.s.gate
	return r, nil
}

func (r *meshRun) startConnect(p int) {
	nw := r.nets[p]
	go func() {
		var err error
		func() {
			defer func() {
				if x := recover(); x != nil {
					err = fmt.Errorf("panic: %v", x)
				}
			}()
			err = nw.Connect()
			if err == nil {
				// the application uses its connections the moment Connect returns, whatever the other parties are
				// still doing: a first datum on every connection (read by the final check before anything else)
				for _, peer := range nw.Peers {
					if peer == nil || peer.ID == p {
						continue
					}
					for k, c := range peer.Conns {
						if c == nil {
							continue
						}
						if e := c.SendUint32(earlyToken(p, peer.ID, k)); e == nil {
							c.Flush()
						}
					}
				}
			}
		}()
		r.s.mu.Lock()
		// Connect has returned at p: the property requires p to hold all its connections now.
		r.s.finished[p] = err
		if err == nil {
			if miss := r.missing(p); miss != "" {
				r.incomp = append(r.incomp, miss)
			}
		}
		r.s.done[p] = true
		if r.s.record {
			r.s.events = append(r.s.events, meshEv{Ev: "fin", P: p, T: "main"})
		}
		r.s.cond.Broadcast()
		r.s.mu.Unlock()
	}()
}

func earlyToken(p, q, k int) int { return 2000000 + p*10000 + q*100 + k }

// missing inspects Network.Peers of party p the way an application would
// right after Connect returned.
func (r *meshRun) missing(p int) string {
	nw := r.nets[p]
	byID := map[int]*p2p.Peer{}
	for _, peer := range nw.Peers {
		if peer != nil {
			byID[peer.ID] = peer
		}
	}
	for q := 0; q < r.n; q++ {
		if q == p {
			continue
		}
		peer, ok := byID[q]
		if !ok {
			return fmt.Sprintf("party %d: peer %d missing from Peers when Connect returned", p, q)
		}
		if len(peer.Conns) != r.c {
			return fmt.Sprintf("party %d: peer %d has %d connections when Connect returned, want %d", p, q, len(peer.Conns), r.c)
		}
		for k, c := range peer.Conns {
			if c == nil {
				return fmt.Sprintf("party %d: Peers[%d].Conns[%d] is nil when Connect returned", p, q, k)
			}
		}
	}
	return ""
}

func (r *meshRun) create() error {
	nw, err := p2p.Create(r.addrs[0], r.n, r.c)
	if err != nil {
		return err
	}
	r.nets[0] = nw
	if r.s.record {
		r.s.mu.Lock()
		r.s.events = append(r.s.events, meshEv{Ev: "Create", P: 0, T: "main"})
		r.s.mu.Unlock()
	}
	r.startConnect(0)
	return nil
}

func (r *meshRun) join(j int) error {
	nw, err := p2p.Join(r.addrs[0], r.addrs[j], j, r.c)
	if err != nil {
		return err
	}
	r.nets[j] = nw
	if r.s.record {
		r.s.mu.Lock()
		r.s.events = append(r.s.events, meshEv{Ev: "Join", P: j, T: "main"})
		r.s.mu.Unlock()
	}
	r.startConnect(j)
	return nil
}

func (r *meshRun) allDone() bool {
	for p := 0; p < r.n; p++ {
		if !r.s.done[p] {
			return false
		}
	}
	return true
}

// finalCheck: every pair shares exactly c connections and the k-th at one end is the k-th at the other.
func (r *meshRun) finalCheck() {
	res := r.res
	for _, m := range r.incomp {
		res.viol("incomplete-at-return", "%s", m)
	}
	for p := 0; p < r.n; p++ {
		if err := r.s.finished[p]; err != nil {
			res.viol("connect-error", "party %d: Connect returned %v", p, err)
		}
	}
	if len(res.Viol) > 0 {
		return
	}
	for p := 0; p < r.n; p++ {
		if m := r.missing(p); m != "" {
			res.viol("incomplete-final", "%s (final state)", m)
			return
		}
	}
	conn := func(p, q, k int) *p2p.Conn {
		for _, peer := range r.nets[p].Peers {
			if peer.ID == q {
				return peer.Conns[k]
			}
		}
		return nil
	}
	token := func(p, q, k int) int { return 1000000 + p*10000 + q*100 + k }
	var wg sync.WaitGroup
	var mu sync.Mutex
	for p := 0; p < r.n; p++ {
		for q := 0; q < r.n; q++ {
			if p == q {
				continue
			}
			for k := 0; k < r.c; k++ {
				p, q, k := p, q, k
				wg.Add(1)
				go func() {
					defer wg.Done()
					c := conn(p, q, k)
					if err := c.SendUint32(token(p, q, k)); err == nil {
						c.Flush()
					}
					// first what the peer sent the moment its own Connect returned
					early, err := c.ReceiveUint32()
					if err == nil && early != earlyToken(q, p, k) {
						mu.Lock()
						res.viol("pairing", "party %d, connection %d to %d: the first datum received is %d, the peer sent %d right after its Connect returned (lost or cross-wired)", p, k, q, early, earlyToken(q, p, k))
						mu.Unlock()
						return
					}
					var got int
					if err == nil {
						got, err = c.ReceiveUint32()
					}
					mu.Lock()
					defer mu.Unlock()
					if err != nil {
						res.viol("pairing", "party %d: receive on connection %d to %d: %v", p, k, q, err)
					} else if got != token(q, p, k) {
						res.viol("pairing", "party %d, connection %d to %d: received token %d, want %d (cross-wired)", p, k, q, got, token(q, p, k))
					}
				}()
			}
		}
	}
	if !withTimeout(10*time.Second, wg.Wait) {
		mu.Lock()
		res.viol("pairing", "token exchange did not finish: data sent on a connection does not arrive at its other end")
		mu.Unlock()
	}
}

func (r *meshRun) close() {
	r.s.openAll()
	for _, nw := range r.nets {
		if nw != nil {
			nw := nw
			withTimeout(2*time.Second, func() { nw.Close() })
		}
	}
	p2p.VerifGate = nil
}

// step releases thread (p,kind) which must be waiting at `point` with the given
// arguments and waits until it reaches its next gate or finishes.
func (r *meshRun) step(a meshAct, d time.Duration) string {
	s := r.s
	k := threadKey{a.P, gateKind(a.Act)}
	var req *gateReq
	ok := s.waitFor(d, func() bool {
		req = s.waiting[k]
		return req != nil
	})
	if !ok {
		return fmt.Sprintf("thread %v never reached gate %s", k, a.Act)
	}
	if req.point != a.Act || (a.Act == "Dial" || a.Act == "AFirst" || a.Act == "ASecond") && (req.a != a.A || req.b != a.B) ||
		a.Act == "Wait" && req.a != a.A {
		if req.point == "Dial" && a.Act == "Dial" && req.b == a.B {
			// the same round, another target first: the order of the dials of one round is the implementation's choice
			return fmt.Sprintf("dial-order: thread %v dials %d where the behaviour dials %d (round %d)", k, req.a, a.A, a.B)
		}
		return fmt.Sprintf("thread %v is at gate %s(%d,%d), behaviour wants %s(%d,%d)", k, req.point, req.a, req.b, a.Act, a.A, a.B)
	}
	s.mu.Lock()
	delete(s.waiting, k)
	serial := req.serial
	if s.record {
		s.events = append(s.events, meshEv{Ev: "go", P: a.P, T: k.kind, Act: a.Act, A: req.a, B: req.b})
	}
	s.mu.Unlock()
	close(req.release)
	ok = s.waitFor(d, func() bool {
		if w := s.waiting[k]; w != nil && w.serial != serial {
			return true
		}
		return k.kind == "main" && s.done[a.P]
	})
	if !ok {
		return fmt.Sprintf("thread %v blocked in step %s(%d,%d) which the specification says is enabled", k, a.Act, a.A, a.B)
	}
	return ""
}

func c19Replay(idx int, mc *meshCase) (*Result, error) {
	res := &Result{Case: idx}
	r, err := newMeshRun(mc.N, mc.C, res)
	if err != nil {
		return nil, err
	}
	defer r.close()
	diverged := ""
	for i, a := range mc.Acts {
		switch a.Act {
		case "Create":
			if err := r.create(); err != nil {
				return nil, err
			}
		case "Join":
			if err := r.join(a.P); err != nil {
				return nil, err
			}
		default:
			if d := r.step(a, 3*time.Second); d != "" {
				diverged = fmt.Sprintf("step %d: %s", i, d)
			}
		}
		if diverged != "" {
			break
		}
	}
	if diverged != "" {
		// let the real code run on alone; the verdict comes from what it does
		r.s.openAll()
		for p := 0; p < r.n; p++ {
			if r.nets[p] == nil {
				if p == 0 {
					err = r.create()
				} else {
					err = r.join(p)
				}
				if err != nil {
					return nil, err
				}
			}
		}
	}
	if !r.s.waitFor(10*time.Second, r.allDone) {
		res.viol("stall", "mesh formation does not terminate (%s)", diverged)
		return res, nil
	}
	r.finalCheck()
	if strings.Contains(diverged, "dial-order:") {
		// not replayable on this implementation (it dials in another order); the mesh it formed on its own was checked
		res.Class = "dial-order-differs"
	} else if diverged != "" && len(res.Viol) == 0 {
		res.drift("%s", diverged)
	}
	res.Nontrivial = mc.N >= 3
	return res, nil
}

// c19Random drives the gates with a seeded random scheduler and records go/at events.
func c19Random(idx int, n, c int, rng *rand.Rand, record bool) (*Result, []meshEv, error) {
	res := &Result{Case: idx, Sample: map[string]int{"n": n, "c": c}}
	r, err := newMeshRun(n, c, res)
	if err != nil {
		return nil, nil, err
	}
	defer r.close()
	r.s.record = record
	started := map[int]bool{}
	if err := r.create(); err != nil {
		return nil, nil, err
	}
	started[0] = true
	idle := 0
	for steps := 0; steps < 100000; steps++ {
		r.s.mu.Lock()
		if r.allDone() {
			// all Connect calls returned; drain accept goroutines that are mid-step
			busy := false
			for k, w := range r.s.waiting {
				if k.kind == "acc" && w.point != "Accept" {
					busy = true
				}
			}
			if !busy {
				r.s.mu.Unlock()
				break
			}
		}
		var keys []threadKey
		for k, w := range r.s.waiting {
			if k.kind == "acc" && w.point == "Accept" && r.allDone() {
				continue
			}
			keys = append(keys, k)
		}
		r.s.mu.Unlock()
		// pending joins are schedulable steps too
		var joins []int
		for j := 1; j < n; j++ {
			if !started[j] {
				joins = append(joins, j)
			}
		}
		total := len(keys) + len(joins)
		if total == 0 {
			progressed := r.s.waitFor(200*time.Millisecond, func() bool { return len(r.s.waiting) > 0 || r.allDone() })
			if !progressed {
				idle++
				if idle > 25 {
					res.viol("stall", "mesh formation does not terminate: every thread is blocked inside the library (n=%d c=%d)", n, c)
					return res, r.s.events, nil
				}
			}
			continue
		}
		// deterministic order of candidates
		for i := 0; i < len(keys); i++ {
			for j := i + 1; j < len(keys); j++ {
				if keys[j].p < keys[i].p || keys[j].p == keys[i].p && keys[j].kind < keys[i].kind {
					keys[i], keys[j] = keys[j], keys[i]
				}
			}
		}
		pick := rng.Intn(total)
		if pick >= len(keys) {
			j := joins[pick-len(keys)]
			if err := r.join(j); err != nil {
				return nil, nil, err
			}
			started[j] = true
			idle = 0
			continue
		}
		k := keys[pick]
		r.s.mu.Lock()
		w := r.s.waiting[k]
		r.s.mu.Unlock()
		if w == nil {
			continue
		}
		d := r.step(meshAct{P: k.p, Act: w.point, A: w.a, B: w.b}, 60*time.Millisecond)
		if d == "" {
			idle = 0
		} else {
			// blocked inside the library (legitimately or not): keep scheduling the others
			idle++
			if idle > 200 {
				res.viol("stall", "mesh formation does not terminate under the random schedule (n=%d c=%d): %s", n, c, d)
				return res, r.s.events, nil
			}
		}
	}
	if !r.s.waitFor(10*time.Second, r.allDone) {
		res.viol("stall", "mesh formation does not terminate (n=%d c=%d)", n, c)
		return res, r.s.events, nil
	}
	r.s.mu.Lock()
	evs := append([]meshEv(nil), r.s.events...)
	r.s.mu.Unlock()
	r.finalCheck()
	res.Nontrivial = n >= 3
	return res, evs, nil
}

func c19Free(idx, n, c int, rng *rand.Rand, hold string, holdDur time.Duration, holdParty ...int) (*Result, error) {
	res := &Result{Case: idx, Sample: map[string]interface{}{"n": n, "c": c, "hold": hold}}
	r, err := newMeshRun(n, c, res)
	if err != nil {
		return nil, err
	}
	defer r.close()
	r.s.open = true
	r.s.holdPoint, r.s.holdDur, r.s.holdParty = hold, holdDur, -1
	if len(holdParty) > 0 {
		r.s.holdParty = holdParty[0]
	}
	r.s.delayRng = rand.New(rand.NewSource(rng.Int63()))
	r.s.maxDelay = []int{0, 200, 2000, 8000}[rng.Intn(4)]
	if err := r.create(); err != nil {
		return nil, err
	}
	order := rng.Perm(n - 1)
	var wg sync.WaitGroup
	var jerr error
	var mu sync.Mutex
	for _, o := range order {
		j := o + 1
		d := time.Duration(rng.Intn(3000)) * time.Microsecond
		wg.Add(1)
		go func() {
			defer wg.Done()
			time.Sleep(d)
			if err := r.join(j); err != nil {
				mu.Lock()
				jerr = err
				mu.Unlock()
			}
		}()
	}
	wg.Wait()
	if jerr != nil {
		return nil, jerr
	}
	// the patience covers the hold itself plus 20 s
	if !r.s.waitFor(20*time.Second+holdDur, r.allDone) {
		res.viol("stall", "free-running mesh formation does not terminate (n=%d c=%d, max gate delay %dus, one thread held %v at %q)", n, c, r.s.maxDelay, holdDur, hold)
		return res, nil
	}
	// accept goroutines may still be adding the last peers: the property is about the state at return,
	// which startConnect sampled; the final check runs after a grace period
	time.Sleep(20*time.Millisecond + c19Idle)
	r.finalCheck()
	res.Nontrivial = n >= 3
	return res, nil
}

// c19Starts: start conditions outside the gates' reach.
//
//	early-joiner   a joiner calls Join before the leader exists and retries until it succeeds (every attempt must
//	               return: refused or joined), then the mesh must form as always
//	hosts          the parties listen on distinct loopback hosts (127.0.0.1, 127.0.0.2, ...), two of them on the
//	               same port number: an address is a host AND a port
func c19Starts(idx int, kind string, rng *rand.Rand) (*Result, error) {
	n, c := 3+rng.Intn(2), 2
	res := &Result{Case: idx, Class: "start:" + kind, Sample: map[string]interface{}{"n": n, "c": c}}
	r, err := newMeshRun(n, c, res)
	if err != nil {
		return nil, err
	}
	defer r.close()
	r.s.open = true
	r.s.delayRng = rand.New(rand.NewSource(rng.Int63()))
	if kind == "hosts" {
		_, port2, _ := net.SplitHostPort(r.addrs[2])
		for p := 0; p < n; p++ {
			_, port, _ := net.SplitHostPort(r.addrs[p])
			if p == 1 {
				port = port2
			}
			r.addrs[p] = fmt.Sprintf("127.0.0.%d:%s", p+1, port)
			l, err := net.Listen("tcp", r.addrs[p])
			if err != nil {
				res.Class = "start:hosts:not-available"
				return res, nil
			}
			l.Close()
		}
	}
	early := -1
	earlyDone := make(chan error, 1)
	if kind == "early-joiner" {
		early = 1 + rng.Intn(n-1)
		go func() {
			for try := 0; try < 200; try++ {
				ret := make(chan error, 1)
				go func() { ret <- r.join(early) }()
				select {
				case err := <-ret:
					if err == nil {
						earlyDone <- nil
						return
					}
				case <-time.After(8 * time.Second):
					earlyDone <- fmt.Errorf("Join of party %d, called before the leader existed, does not return", early)
					return
				}
				time.Sleep(40 * time.Millisecond)
			}
			earlyDone <- fmt.Errorf("Join of party %d never succeeded", early)
		}()
		time.Sleep(250 * time.Millisecond)
	}
	if err := r.create(); err != nil {
		if kind == "hosts" {
			res.viol("start:listen", "the leader cannot listen on its own address %s: %v", r.addrs[0], err)
			return res, nil
		}
		return nil, err
	}
	for j := 1; j < n; j++ {
		if j == early {
			continue
		}
		if err := r.join(j); err != nil {
			if kind == "hosts" {
				res.viol("start:listen", "party %d cannot join with its own address %s (two parties share the port number on different hosts): %v", j, r.addrs[j], err)
				return res, nil
			}
			return nil, err
		}
	}
	if early >= 0 {
		if err := <-earlyDone; err != nil {
			res.viol("start:early-joiner", "%v", err)
			return res, nil
		}
	}
	if !r.s.waitFor(20*time.Second, r.allDone) {
		res.viol("stall", "mesh formation does not terminate (%s, n=%d c=%d)", kind, n, c)
		return res, nil
	}
	time.Sleep(20 * time.Millisecond)
	r.finalCheck()
	res.Nontrivial = true
	return res, nil
}

// c19Idle: how long the formed mesh stays unused before the token exchange of the final check
var c19Idle time.Duration

func c19Main(args []string) error {
	if len(args) < 2 {
		return fmt.Errorf("usage: vh c19 replay|random|free ...")
	}
	rng := rand.New(rand.NewSource(seed()*104729 + 19))
	switch args[0] {
	case "replay":
		out, err := newND(args[2])
		if err != nil {
			return err
		}
		defer out.close()
		idx := 0
		nviol := 0
		return readND(args[1], func(raw json.RawMessage) error {
			var mc meshCase
			if err := json.Unmarshal(raw, &mc); err != nil {
				return err
			}
			if nviol >= 3 {
				return nil
			}
			r, err := c19Replay(idx, &mc)
			if err != nil {
				return err
			}
			if idx < 2 {
				n := len(mc.Acts)
				if n > 12 {
					n = 12
				}
				r.Sample = map[string]interface{}{"n": mc.N, "c": mc.C, "acts": mc.Acts[:n]}
			}
			if len(r.Viol) > 0 {
				nviol++
			}
			idx++
			out.put(r)
			return nil
		})
	case "random":
		tr, err := newND(args[1])
		if err != nil {
			return err
		}
		defer tr.close()
		out, err := newND(args[2])
		if err != nil {
			return err
		}
		defer out.close()
		nruns := 5
		if len(args) > 3 {
			fmt.Sscan(args[3], &nruns)
		}
		n, c := 3, 2
		if len(args) > 5 {
			fmt.Sscan(args[4], &n)
			fmt.Sscan(args[5], &c)
		}
		for i := 0; i < nruns; i++ {
			r, evs, err := c19Random(i, n, c, rng, true)
			if err != nil {
				return err
			}
			out.put(r)
			if i > 0 {
				tr.put(meshEv{Ev: "reset"})
			}
			for _, e := range evs {
				tr.put(e)
			}
			if len(r.Viol) > 0 {
				break
			}
		}
		return nil
	case "late":
		// a party that starts its Connect (its hello) a long time after it joined: vh c19 late results ms
		out, err := newND(args[1])
		if err != nil {
			return err
		}
		defer out.close()
		ms := 12500
		if len(args) > 2 {
			fmt.Sscan(args[2], &ms)
		}
		r, err := c19Free(0, 3, 2, rng, "Hello", time.Duration(ms)*time.Millisecond)
		if err != nil {
			return err
		}
		r.Class = fmt.Sprintf("slow:late-starter-%ds", ms/1000)
		out.put(r)
		return nil
	case "slow":
		// one party is slow at one scheduling point: every timing of the parties must still form the mesh
		out, err := newND(args[1])
		if err != nil {
			return err
		}
		defer out.close()
		dur := 1500
		if len(args) > 2 {
			fmt.Sscan(args[2], &dur)
		}
		points := []string{"Hello", "Dial", "ReadHello"}
		if thorough() {
			points = []string{"LStart", "Hello", "RecvList", "Dial", "Wait", "SendList", "Accept", "ReadHello", "AFirst", "ASecond"}
		}
		for i, p := range points {
			r, err := c19Free(i, 3+rng.Intn(2), 1+rng.Intn(2), rng, p, time.Duration(dur)*time.Millisecond)
			if err != nil {
				return err
			}
			r.Class = "slow:" + p
			out.put(r)
		}
		// the joiner with the highest id learns the peer list late: the lower ids, which dial it, are already under way
		for k := 0; k < 2; k++ {
			n := 3 + k
			r, err := c19Free(len(points)+2+k, n, 2, rng, "RecvList", time.Duration(dur)*time.Millisecond, n-1)
			if err != nil {
				return err
			}
			r.Class = "slow:RecvList-last-joiner"
			out.put(r)
		}
		// a party that starts several seconds late, and a mesh that is first used several seconds after it formed:
		// neither the start timing nor idleness may cost a connection
		r, err := c19Free(len(points), 3, 2, rng, "Hello", 5500*time.Millisecond)
		if err != nil {
			return err
		}
		r.Class = "slow:late-starter"
		out.put(r)
		c19Idle = 5500 * time.Millisecond
		r, err = c19Free(len(points)+1, 2+rng.Intn(2), 2, rng, "", 0)
		c19Idle = 0
		if err != nil {
			return err
		}
		r.Class = "slow:idle-then-data"
		out.put(r)
		for k, kind := range []string{"early-joiner", "hosts", "early-joiner"} {
			r, err := c19Starts(len(points)+10+k, kind, rng)
			if err != nil {
				return err
			}
			out.put(r)
		}
		return nil
	case "free":
		out, err := newND(args[1])
		if err != nil {
			return err
		}
		defer out.close()
		nruns := 10
		if len(args) > 2 {
			fmt.Sscan(args[2], &nruns)
		}
		nviol := 0
		for i := 0; i < nruns && nviol < 3; i++ {
			n := 2 + rng.Intn(5)
			c := 1 + rng.Intn(4)
			r, err := c19Free(i, n, c, rng, "", 0)
			if err != nil {
				return err
			}
			if len(r.Viol) > 0 {
				nviol++
			}
			out.put(r)
		}
		return nil
	}
	return fmt.Errorf("unknown c19 mode %q", args[0])
}
