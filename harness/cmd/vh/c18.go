package main

// C18: SHA256(XOR) protocol: correct, resumable, canonical encodings.
//
//   vh c18 replay cases.ndjson results.ndjson
//       every behaviour of specs/Sha2pc.tla (restart / re-encode pattern, one
//       optional misdelivered or malformed message) is executed on the real
//       GarblerRound1/3, EvaluatorRound2/4 and Encode*/Decode* functions; all
//       messages travel as bytes.
//   vh c18 mutate results.ndjson n
//       random mutations of every encoded message and session.

import (
	"bytes"
	"crypto/elliptic"
	"crypto/sha256"
	"encoding/binary"
	"encoding/json"
	"fmt"
	"math/rand"
	"strings"

	"github.com/markkurossi/mpc/sha2pc"
)

func init() { commands["c18"] = c18Main }

type shaCase struct {
	Acts []string `json:"acts"`
	Out  string   `json:"out"`
	Err  string   `json:"err"`
}

var shaCurves = map[string]elliptic.Curve{"P-224": elliptic.P224(), "P-256": elliptic.P256(), "P-384": elliptic.P384(), "P-521": elliptic.P521()}

type shaSess struct {
	curve  elliptic.Curve
	a, b   [32]byte
	gs     *sha2pc.GarblerSession
	es     *sha2pc.EvaluatorSession
	b1, b2 []byte
	b3     []byte
	seed   uint64
}

// step runs protocol round r (1..4) of s on bytes; returns the stage that rejected ("" if ok).
func (s *shaSess) round(r int) (stage string, digest [32]byte, err error) {
	defer func() {
		if x := recover(); x != nil {
			stage = "crash"
			err = fmt.Errorf("panic in round %d: %v", r, x)
		}
	}()
	switch r {
	case 1:
		m, gs, e := sha2pc.GarblerRound1(newDetRand(s.seed+1), s.curve)
		if e != nil {
			return "G1", digest, e
		}
		s.gs = gs
		s.b1, e = sha2pc.EncodeRound1(s.curve, m)
		if e != nil {
			return "G1", digest, e
		}
	case 2:
		m, e := sha2pc.DecodeRound1(s.curve, s.b1)
		if e != nil {
			return "decode1", digest, e
		}
		m2, es, e := sha2pc.EvaluatorRound2(newDetRand(s.seed+2), s.curve, m, s.b)
		if e != nil {
			return "E2", digest, e
		}
		s.es = es
		s.b2, e = sha2pc.EncodeRound2(s.curve, m2)
		if e != nil {
			return "E2", digest, e
		}
	case 3:
		m, e := sha2pc.DecodeRound2(s.curve, s.b2)
		if e != nil {
			return "decode2", digest, e
		}
		m3, e := sha2pc.GarblerRound3(newDetRand(s.seed+3), s.curve, s.gs, s.a, m)
		if e != nil {
			return "G3", digest, e
		}
		s.b3, e = sha2pc.EncodeRound3(m3)
		if e != nil {
			return "G3", digest, e
		}
	case 4:
		m, e := sha2pc.DecodeRound3(s.b3)
		if e != nil {
			return "decode3", digest, e
		}
		d, e := sha2pc.EvaluatorRound4(s.curve, s.es, m)
		if e != nil {
			return "E4", digest, e
		}
		return "", d, nil
	}
	return "", digest, nil
}

func newShaSess(curve elliptic.Curve, rng *rand.Rand, seedv uint64) *shaSess {
	s := &shaSess{curve: curve, seed: seedv}
	switch rng.Intn(5) {
	case 0: // all zero
	case 1:
		for i := range s.a {
			s.a[i], s.b[i] = 0xff, 0xff
		}
	case 2:
		rng.Read(s.a[:])
		s.b = s.a
	default:
		rng.Read(s.a[:])
		rng.Read(s.b[:])
	}
	return s
}

func otherCurve(c elliptic.Curve) elliptic.Curve {
	if c.Params().Name == "P-256" {
		return elliptic.P384()
	}
	return elliptic.P256()
}

// foreign produces message k of an independent session; with sameSid on another curve but carrying sid of s.
func (s *shaSess) foreign(k int, how string, rng *rand.Rand) ([]byte, error) {
	curve := s.curve
	if how == "samesid-othercurve" {
		curve = otherCurve(s.curve)
	}
	o := newShaSess(curve, rng, s.seed+1000)
	for r := 1; r <= k; r++ {
		if st, _, err := o.round(r); st != "" {
			return nil, fmt.Errorf("foreign session round %d: %v", r, err)
		}
	}
	if how == "samesid-othercurve" {
		// same session id, other curve
		switch k {
		case 1:
			m, err := sha2pc.DecodeRound1(curve, o.b1)
			if err != nil {
				return nil, err
			}
			m.SessionID = s.gs.SessionID
			return sha2pc.EncodeRound1(curve, m)
		case 2:
			m, err := sha2pc.DecodeRound2(curve, o.b2)
			if err != nil {
				return nil, err
			}
			m.SessionID = s.gs.SessionID
			return sha2pc.EncodeRound2(curve, m)
		}
	}
	return [][]byte{nil, o.b1, o.b2, o.b3}[k], nil
}

func malform(b []byte, rng *rand.Rand) []byte {
	switch rng.Intn(3) {
	case 0: // truncated
		return append([]byte(nil), b[:rng.Intn(len(b))]...)
	case 1: // wrong magic
		c := append([]byte(nil), b...)
		c[rng.Intn(2)] ^= 0x55
		return c
	default: // truncated by a few bytes
		n := 1 + rng.Intn(7)
		if n >= len(b) {
			n = 1
		}
		return append([]byte(nil), b[:len(b)-n]...)
	}
}

func c18Replay(idx int, sc *shaCase, curveName string, rng *rand.Rand) *Result {
	res := &Result{Case: idx, Class: curveName}
	curve := shaCurves[curveName]
	s := newShaSess(curve, rng, uint64(seed())<<24+uint64(idx)*16)
	want := sha256.Sum256(xor32(s.a, s.b))
	fault := false
	rejected := ""
	var digest [32]byte
	finished := false
	for _, act := range sc.Acts {
		if rejected != "" {
			break
		}
		switch {
		case act == "G1" || act == "E2" || act == "G3" || act == "E4":
			r := map[string]int{"G1": 1, "E2": 2, "G3": 3, "E4": 4}[act]
			st, d, err := s.round(r)
			if st == "crash" {
				res.viol("crash:round", "%s: %v (%s)", act, err, strings.Join(sc.Acts, " "))
				return res
			}
			if st != "" {
				rejected = st
				_ = err
			} else if r == 4 {
				digest, finished = d, true
			}
		case act == "restartG":
			enc, err := sha2pc.EncodeGarblerSession(curve, s.gs)
			if err != nil {
				res.viol("session-encode", "EncodeGarblerSession: %v", err)
				return res
			}
			gs, err := sha2pc.DecodeGarblerSession(curve, enc)
			if err != nil {
				res.viol("session-decode", "DecodeGarblerSession rejects the output of EncodeGarblerSession (%s): %v", curveName, err)
				return res
			}
			enc2, _ := sha2pc.EncodeGarblerSession(curve, gs)
			if !bytes.Equal(enc, enc2) {
				res.viol("not-canonical:gsession", "garbler session: encode(decode(x)) != x")
			}
			s.gs = gs
		case act == "restartE":
			enc, err := sha2pc.EncodeEvaluatorSession(curve, s.es)
			if err != nil {
				res.viol("session-encode", "EncodeEvaluatorSession: %v", err)
				return res
			}
			es, err := sha2pc.DecodeEvaluatorSession(curve, enc)
			if err != nil {
				res.viol("session-decode", "DecodeEvaluatorSession rejects the output of EncodeEvaluatorSession (%s): %v", curveName, err)
				return res
			}
			enc2, _ := sha2pc.EncodeEvaluatorSession(curve, es)
			if !bytes.Equal(enc, enc2) {
				res.viol("not-canonical:esession", "evaluator session: encode(decode(x)) != x")
			}
			s.es = es
		case strings.HasPrefix(act, "recode"):
			k := int(act[6] - '0')
			var re []byte
			var err error
			switch k {
			case 1:
				var m sha2pc.Round1Payload
				if m, err = sha2pc.DecodeRound1(curve, s.b1); err == nil {
					re, err = sha2pc.EncodeRound1(curve, m)
				}
				if err == nil && !bytes.Equal(re, s.b1) {
					res.viol("not-canonical:round1", "round 1: encode(decode(x)) != x")
				}
				s.b1 = re
			case 2:
				var m sha2pc.Round2Payload
				if m, err = sha2pc.DecodeRound2(curve, s.b2); err == nil {
					re, err = sha2pc.EncodeRound2(curve, m)
				}
				if err == nil && !bytes.Equal(re, s.b2) {
					res.viol("not-canonical:round2", "round 2: encode(decode(x)) != x")
				}
				s.b2 = re
			case 3:
				var m sha2pc.Round3Payload
				if m, err = sha2pc.DecodeRound3(s.b3); err == nil {
					re, err = sha2pc.EncodeRound3(m)
				}
				if err == nil && !bytes.Equal(re, s.b3) {
					res.viol("not-canonical:round3", "round 3: encode(decode(x)) != x")
				}
				s.b3 = re
			}
			if err != nil {
				if fault {
					// a foreign or malformed message is rejected by the decoder
					rejected = fmt.Sprintf("decode%d", k)
					break
				}
				res.viol("recode-error", "re-encoding message %d fails: %v", k, err)
				return res
			}
		case strings.HasPrefix(act, "misdeliver"):
			fault = true
			k := int(act[10] - '0')
			how := act[12:]
			fb, err := s.foreign(k, how, rng)
			if err != nil {
				res.drift("cannot build the foreign message: %v", err)
				return res
			}
			switch k {
			case 1:
				s.b1 = fb
			case 2:
				s.b2 = fb
			case 3:
				s.b3 = fb
			}
		case strings.HasPrefix(act, "malform"):
			fault = true
			k := int(act[7] - '0')
			switch k {
			case 1:
				s.b1 = malform(s.b1, rng)
			case 2:
				s.b2 = malform(s.b2, rng)
			case 3:
				s.b3 = malform(s.b3, rng)
			}
		}
	}
	what := strings.Join(sc.Acts, " ")
	if fault {
		if finished {
			if digest == want {
				res.viol("accepted-foreign-or-malformed", "a foreign or malformed message was accepted and the run finished (%s, %s)", what, curveName)
			} else {
				res.viol("wrong-digest", "a foreign or malformed message was accepted and a WRONG digest returned (%s, %s)", what, curveName)
			}
		} else if rejected == "" {
			res.drift("run did not finish and nothing rejected (%s)", what)
		} else if !stageMatches(sc.Err, rejected) {
			res.drift("rejected at %s, specification predicts %s (%s)", rejected, sc.Err, what)
		}
	} else {
		if rejected != "" {
			res.viol("honest-run-rejected", "an honest run with restarts/re-encodings is rejected at %s (%s, %s)", rejected, what, curveName)
		} else if !finished {
			res.drift("run did not finish (%s)", what)
		} else if digest != want {
			res.viol("wrong-digest", "digest differs from SHA-256(a xor b) (%s, %s)", what, curveName)
		}
	}
	res.Nontrivial = len(sc.Acts) > 4
	return res
}

func stageMatches(pred, real string) bool {
	switch pred {
	case "decode1":
		return real == "decode1" || real == "E2"
	case "decode2":
		return real == "decode2" || real == "G3"
	case "decode3":
		return real == "decode3" || real == "E4"
	case "G3-session", "G3-nostate":
		return real == "G3"
	case "E4-session", "E4-labels", "E4-nostate":
		return real == "E4"
	}
	return false
}

func xor32(a, b [32]byte) []byte {
	r := make([]byte, 32)
	for i := range r {
		r[i] = a[i] ^ b[i]
	}
	return r
}

// c18Mutate: arbitrary mutations of encoded messages: decoders must return an error or an object that
// re-encodes to the same bytes; continuing the protocol yields an error or the right digest.
func c18Mutate(out *ndWriter, n int, rng *rand.Rand) {
	curve := elliptic.P256()
	s := newShaSess(curve, rng, uint64(seed())<<24+0xabc)
	for r := 1; r <= 3; r++ {
		s.round(r)
	}
	want := sha256.Sum256(xor32(s.a, s.b))
	genc, _ := sha2pc.EncodeGarblerSession(curve, s.gs)
	eenc, _ := sha2pc.EncodeEvaluatorSession(curve, s.es)
	mut := func(b []byte) []byte {
		c := append([]byte(nil), b...)
		switch rng.Intn(6) {
		case 5: // a length prefix replaced by a boundary varint (lengths are uvarints; the framing sits in the first bytes)
			vals := []uint64{1 << 63, 1<<64 - 1, 1<<63 + 5, 1 << 62, 1 << 32, 1<<31 - 1, 1 << 24, 0}
			var vb [binary.MaxVarintLen64]byte
			k := binary.PutUvarint(vb[:], vals[rng.Intn(len(vals))])
			at := rng.Intn(min(48, len(c)))
			if rng.Intn(2) == 0 {
				// overwrite in place
				c = append(append(append([]byte(nil), c[:at]...), vb[:k]...), c[min(len(c), at+k):]...)
			} else {
				// replace the one-byte length that is there
				c = append(append(append([]byte(nil), c[:at]...), vb[:k]...), c[min(len(c), at+1):]...)
			}
		case 0:
			c[rng.Intn(len(c))] ^= 1 << uint(rng.Intn(8))
		case 1:
			c = c[:rng.Intn(len(c))]
		case 2:
			c = append(c, byte(rng.Intn(256)))
		case 3: // corrupt the framing area at the start
			c[rng.Intn(min(40, len(c)))] ^= byte(1 + rng.Intn(255))
		case 4: // splice
			i, j := rng.Intn(len(c)), rng.Intn(len(c))
			if i > j {
				i, j = j, i
			}
			c = append(append([]byte(nil), c[:i]...), c[j:]...)
		}
		return c
	}
	for i := 0; i < n; i++ {
		res := &Result{Case: i, Nontrivial: true}
		kind := []string{"round1", "round2", "round3", "gsession", "esession"}[i%5]
		res.Class = "mutate:" + kind
		func() {
			defer func() {
				if x := recover(); x != nil {
					res.viol("crash:decode:"+kind, "decoder panics on mutated bytes: %v", x)
				}
			}()
			switch kind {
			case "round1":
				m := mut(s.b1)
				if p, err := sha2pc.DecodeRound1(curve, m); err == nil {
					if re, err := sha2pc.EncodeRound1(curve, p); err != nil || !bytes.Equal(re, m) {
						res.Class = "mutate:round1:accepted-noncanonical"
					}
				}
			case "round2":
				m := mut(s.b2)
				if p, err := sha2pc.DecodeRound2(curve, m); err == nil {
					if re, err := sha2pc.EncodeRound2(curve, p); err != nil || !bytes.Equal(re, m) {
						res.Class = "mutate:round2:accepted-noncanonical"
					}
				}
			case "round3":
				m := mut(s.b3)
				if p, err := sha2pc.DecodeRound3(m); err == nil {
					if re, err := sha2pc.EncodeRound3(p); err != nil || !bytes.Equal(re, m) {
						res.Class = "mutate:round3:accepted-noncanonical"
					}
					if d, err := sha2pc.EvaluatorRound4(curve, s.es, p); err == nil && d != want {
						res.viol("wrong-digest", "a mutated round-3 message yields a wrong digest without error")
					}
				}
			case "gsession":
				m := mut(genc)
				if p, err := sha2pc.DecodeGarblerSession(curve, m); err == nil {
					if re, err := sha2pc.EncodeGarblerSession(curve, p); err != nil || !bytes.Equal(re, m) {
						res.Class = "mutate:gsession:accepted-noncanonical"
					}
				}
			case "esession":
				m := mut(eenc)
				if p, err := sha2pc.DecodeEvaluatorSession(curve, m); err == nil {
					if re, err := sha2pc.EncodeEvaluatorSession(curve, p); err != nil || !bytes.Equal(re, m) {
						res.Class = "mutate:esession:accepted-noncanonical"
					}
				}
			}
		}()
		out.put(res)
	}
}

func c18Main(args []string) error {
	if len(args) < 2 {
		return fmt.Errorf("usage: vh c18 replay|mutate|sizes ...")
	}
	rng := rand.New(rand.NewSource(seed()*982451653 + 18))
	switch args[0] {
	case "replay":
		out, err := newND(args[2])
		if err != nil {
			return err
		}
		defer out.close()
		curves := []string{"P-256"}
		if len(args) > 3 {
			curves = strings.Split(args[3], ",")
		}
		idx := 0
		nviol := 0
		return readND(args[1], func(raw json.RawMessage) error {
			var sc shaCase
			if err := json.Unmarshal(raw, &sc); err != nil {
				return err
			}
			if nviol >= 5 {
				return nil
			}
			r := c18Replay(idx, &sc, curves[idx%len(curves)], rng)
			if idx < 3 {
				r.Sample = sc
			}
			if len(r.Viol) > 0 {
				nviol++
			}
			idx++
			out.put(r)
			return nil
		})
	case "mutate":
		out, err := newND(args[1])
		if err != nil {
			return err
		}
		defer out.close()
		n := 100
		if len(args) > 2 {
			fmt.Sscan(args[2], &n)
		}
		c18Mutate(out, n, rng)
		return nil
	case "interleave":
		// several sessions in one process: every round-3 payload object is kept while the other sessions run
		// their round 3, and only then serialised and evaluated
		out, err := newND(args[1])
		if err != nil {
			return err
		}
		defer out.close()
		n := 3
		if len(args) > 2 {
			fmt.Sscan(args[2], &n)
		}
		for it := 0; it < n; it++ {
			res := &Result{Case: it, Class: "interleave", Nontrivial: true}
			curve := elliptic.P256()
			k := 2 + rng.Intn(3)
			ss := make([]*shaSess, k)
			p3 := make([]sha2pc.Round3Payload, k)
			for i := range ss {
				ss[i] = newShaSess(curve, rng, uint64(seed())<<24+uint64(it*10+i)+0x7777)
				for r := 1; r <= 2; r++ {
					if st, _, err := ss[i].round(r); st != "" {
						res.viol("honest-run-rejected", "round %d: %v", r, err)
					}
				}
			}
			for i, s := range ss {
				m2, err := sha2pc.DecodeRound2(curve, s.b2)
				if err == nil {
					p3[i], err = sha2pc.GarblerRound3(newDetRand(s.seed+3), curve, s.gs, s.a, m2)
				}
				if err != nil {
					res.viol("honest-run-rejected", "round 3: %v", err)
				}
			}
			for i, s := range ss {
				b3, err := sha2pc.EncodeRound3(p3[i])
				if err != nil {
					res.viol("honest-run-rejected", "EncodeRound3: %v", err)
					continue
				}
				s.b3 = b3
				st, d, err := s.round(4)
				want := sha256.Sum256(xor32(s.a, s.b))
				if st != "" {
					res.viol("interleaved-sessions", "session %d of %d interleaved sessions: a round-3 payload kept while other sessions ran round 3 is rejected at %s: %v", i, k, st, err)
				} else if d != want {
					res.viol("wrong-digest", "session %d of %d interleaved sessions returns a wrong digest", i, k)
				}
			}
			out.put(res)
		}
		return nil
	case "sizes":
		// fixed sizes: every encoding of one kind on one curve has one length; round 3 has the documented constant
		out, err := newND(args[1])
		if err != nil {
			return err
		}
		defer out.close()
		const round3Len = 2 + 8 + 32 + 42914*16 + 256*16 + 256*32 + 256*32
		i := 0
		for name, curve := range shaCurves {
			res := &Result{Case: i, Class: "sizes:" + name, Nontrivial: true}
			var lens [][5]int
			for k := 0; k < 2; k++ {
				s := newShaSess(curve, rng, uint64(seed())<<24+uint64(i*10+k)+0x5151)
				for r := 1; r <= 3; r++ {
					if st, _, err := s.round(r); st != "" {
						res.viol("honest-run-rejected", "round %d on %s: %v", r, name, err)
					}
				}
				if len(res.Viol) > 0 {
					break
				}
				g, _ := sha2pc.EncodeGarblerSession(curve, s.gs)
				e, _ := sha2pc.EncodeEvaluatorSession(curve, s.es)
				lens = append(lens, [5]int{len(s.b1), len(s.b2), len(s.b3), len(g), len(e)})
			}
			if len(lens) == 2 {
				if lens[0] != lens[1] {
					res.viol("sizes:not-fixed", "encodings on %s do not have fixed sizes: %v vs %v", name, lens[0], lens[1])
				}
				if lens[0][2] != round3Len {
					res.viol("sizes:round3", "round-3 message has %d bytes, documented %d", lens[0][2], round3Len)
				}
				res.Sample = map[string]interface{}{"curve": name, "round1,round2,round3,gsession,esession": lens[0]}
			}
			out.put(res)
			i++
		}
		return nil
	}
	return fmt.Errorf("unknown c18 mode")
}
