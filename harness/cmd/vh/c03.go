package main

// C03: the compiled circuit computes what the MPCL program means.
//
//   vh c03 replay cases.ndjson results.ndjson [config]
//       programs generated from specs/MpclGen.tla (three-address core of MPCL with
//       the interpreter's predicted result on boundary inputs) are rendered as MPCL
//       source, compiled with the real compiler and evaluated with Circuit.Compute.
//   vh c03 vectors results.ndjson
//       every @Test vector shipped under testsuite/ is evaluated on the real circuit.

import (
	"encoding/json"
	"fmt"
	"math/big"
	"math/rand"
	"os"
	"path/filepath"
	"regexp"
	"sort"
	"strings"
	"sync"

	"github.com/markkurossi/mpc"
	"github.com/markkurossi/mpc/circuit"
	"github.com/markkurossi/mpc/compiler"
	"github.com/markkurossi/mpc/compiler/utils"
)

func init() { commands["c03"] = c03Main }

type mpType []interface{}

type mpStmt struct {
	K  string `json:"k"`
	X  int    `json:"x"`
	Y  int    `json:"y"`
	Z  int    `json:"z"`
	Op string `json:"op"`
	T  mpType `json:"t"`
	C  int    `json:"c"`
}

type mpCase struct {
	Ta    mpType   `json:"ta"`
	Tb    mpType   `json:"tb"`
	Stmts []mpStmt `json:"stmts"`
	Ret   int      `json:"ret"`
	Rt    mpType   `json:"rt"`
	Tests [][]int  `json:"tests"`
}

// third: the statement kind elseif carries the index of its third value in the type field (a one-element tuple)
func (t mpType) third() int { return int(t[0].(float64)) }

func (t mpType) kind() string { return t[0].(string) }
func (t mpType) width() int   { return int(t[1].(float64)) }
func (t mpType) String() string {
	switch t.kind() {
	case "u":
		return fmt.Sprintf("uint%d", t.width())
	case "i":
		return fmt.Sprintf("int%d", t.width())
	case "b":
		return "bool"
	}
	return "?"
}

// static types while rendering
type rType struct {
	s      string // MPCL type
	elem   string
	f1, f2 string
}

func signedLit(t mpType, c int) string {
	if t.kind() == "i" && c >= 1<<uint(t.width()-1) {
		return fmt.Sprintf("-%d", (1<<uint(t.width()))-c)
	}
	return fmt.Sprint(c)
}

// renderMpcl renders a generated program; inline folds single-use scalar temporaries into their use.
func renderMpcl(mc *mpCase) string {
	var body strings.Builder
	types := []rType{{s: mc.Ta.String()}, {s: mc.Tb.String()}}
	names := []string{"a", "b"}
	helpers := map[string]string{}
	name := func(v int) string { return names[v-1] }
	def := func(t rType) string {
		n := fmt.Sprintf("v%d", len(names)+1)
		names = append(names, n)
		types = append(types, t)
		return n
	}
	for _, s := range mc.Stmts {
		switch s.K {
		case "const":
			n := def(rType{s: s.T.String()})
			if s.T.kind() == "i" && s.C >= 1<<uint(s.T.width()-1) {
				// negative literals of small signed types are rejected by the compiler: go through the unsigned type
				fmt.Fprintf(&body, "\tvar %su uint%d = %d\n\t%s := %s(%su)\n", n, s.T.width(), s.C, n, s.T.String(), n)
			} else {
				fmt.Fprintf(&body, "\tvar %s %s = %d\n", n, s.T.String(), s.C)
			}
		case "bin":
			t := types[s.X-1]
			y := name(s.Y)
			if s.Op == "/" || s.Op == "%" {
				y = fmt.Sprintf("(%s | 1)", y)
			}
			x := name(s.X)
			n := def(t)
			fmt.Fprintf(&body, "\t%s := %s %s %s\n", n, x, s.Op, y)
		case "binlit", "cmplit":
			x := name(s.X)
			t := types[s.X-1]
			if s.K == "cmplit" {
				t = rType{s: "bool"}
			}
			n := def(t)
			fmt.Fprintf(&body, "\t%s := %s %s %d\n", n, x, s.Op, s.C)
		case "cmp", "logic":
			x, y := name(s.X), name(s.Y)
			n := def(rType{s: "bool"})
			fmt.Fprintf(&body, "\t%s := %s %s %s\n", n, x, s.Op, y)
		case "not":
			x := name(s.X)
			n := def(rType{s: "bool"})
			fmt.Fprintf(&body, "\t%s := !%s\n", n, x)
		case "neg":
			x := name(s.X)
			n := def(types[s.X-1])
			fmt.Fprintf(&body, "\t%s := -%s\n", n, x)
		case "shift":
			x := name(s.X)
			n := def(types[s.X-1])
			fmt.Fprintf(&body, "\t%s := %s %s %d\n", n, x, s.Op, s.C)
		case "cast":
			x := name(s.X)
			n := def(rType{s: s.T.String()})
			fmt.Fprintf(&body, "\t%s := %s(%s)\n", n, s.T.String(), x)
		case "if":
			x, y, c := name(s.X), name(s.Y), name(s.Z)
			t := types[s.X-1]
			n := def(t)
			fmt.Fprintf(&body, "\tvar %s %s\n\tif %s {\n\t\t%s = %s\n\t} else {\n\t\t%s = %s\n\t}\n", n, t.s, c, n, x, n, y)
		case "ifnest":
			x, y, c1, c2 := name(s.X), name(s.Y), name(s.Z), name(s.C)
			t := types[s.X-1]
			n := def(t)
			fmt.Fprintf(&body, "\tvar %s %s\n\tif %s {\n\t\t%s = %s\n\t\tif %s {\n\t\t\t%s = %s\n\t\t}\n\t} else {\n\t\t%s = %s\n\t}\n", n, t.s, c1, n, x, c2, n, y, n, y)
		case "ifcall":
			x, y, c1 := name(s.X), name(s.Y), name(s.Z)
			t := types[s.X-1]
			fn := "addsub_" + t.s
			helpers[fn] = fmt.Sprintf("func %s(x, y %s) (%s, %s) {\n\treturn x + y, x - y\n}\n", fn, t.s, t.s, t.s)
			n := def(t)
			fmt.Fprintf(&body, "\tvar %s %s\n\tif %s {\n\t\t%ss, %sd := %s(%s, %s)\n\t\t%s = %sd + %ss - %ss\n\t} else {\n\t\t%s = %s\n\t}\n", n, t.s, c1, n, n, fn, x, y, n, n, n, n, n, x)
		case "elseif":
			x, y, c1, c2 := name(s.X), name(s.Y), name(s.Z), name(s.C)
			z := name(s.T.third())
			t := types[s.X-1]
			n := def(t)
			fmt.Fprintf(&body, "\t%s := %s\n\tif %s {\n\t\t%s = %s\n\t} else if %s {\n\t\t%s = %s\n\t}\n", n, z, c1, n, x, c2, n, y)
		case "ifret":
			x, c := name(s.X), name(s.Z)
			n := def(rType{s: "bool"})
			fmt.Fprintf(&body, "\tif %s {\n\t\treturn %s\n\t}\n\t%s := %s\n", c, x, n, c)
		case "loop":
			x, y := name(s.X), name(s.Y)
			n := def(types[s.X-1])
			fmt.Fprintf(&body, "\t%s := %s\n\tfor i := 0; i < %d; i++ {\n\t\t%s = %s %s %s\n\t}\n", n, x, s.C, n, n, s.Op, y)
		case "loopt":
			x, y := name(s.X), name(s.Y)
			n := def(types[s.X-1])
			fmt.Fprintf(&body, "\t%s := %s\n\tfor i, j := 0, 1; i < %d; i, j = j, i+j {\n\t\t%s = %s %s %s\n\t}\n", n, x, s.C, n, n, s.Op, y)
		case "loopret":
			x, y := name(s.X), name(s.Y)
			n := def(types[s.X-1])
			fmt.Fprintf(&body, "\t%s := %s\n\tfor i := 0; i < %d; i++ {\n\t\tif i == %d {\n\t\t\treturn %s\n\t\t}\n\t\t%s = %s %s %s\n\t}\n", n, x, s.C, s.Z, n, n, n, s.Op, y)
		case "looprc":
			x, y, c := name(s.X), name(s.Y), name(s.Z)
			n := def(types[s.X-1])
			fmt.Fprintf(&body, "\t%s := %s\n\tfor i := 0; i < %d; i++ {\n\t\tif %s {\n\t\t\treturn %s\n\t\t}\n\t\t%s = %s %s %s\n\t}\n", n, x, s.C, c, n, n, n, s.Op, y)
		case "nest":
			x, y := name(s.X), name(s.Y)
			n := def(types[s.X-1])
			fmt.Fprintf(&body, "\t%s := %s\n\tfor i := 0; i < %d; i++ {\n\t\tfor j := 0; j < 2; j++ {\n\t\t\t%s = %s %s %s\n\t\t}\n\t}\n", n, x, s.C, n, n, s.Op, y)
		case "loopi":
			x := name(s.X)
			t := types[s.X-1]
			n := def(t)
			fmt.Fprintf(&body, "\t%s := %s\n\tfor i := 0; i < %d; i++ {\n\t\t%s = %s %s %s(i)\n\t}\n", n, x, s.C, n, n, s.Op, t.s)
		case "expr3":
			// no parentheses: the parser's precedence and associativity decide; the second operator is ExprOpList[c]
			x, y, z := name(s.X), name(s.Y), name(s.Z)
			n := def(types[s.X-1])
			fmt.Fprintf(&body, "\t%s := %s %s %s %s %s\n", n, x, s.Op, y, []string{"+", "-", "*", "&", "|", "^", "&^"}[s.C-1], z)
		case "shadow":
			x, y, c := name(s.X), name(s.Y), name(s.Z)
			t := types[s.X-1]
			n := def(t)
			g := "g" + n
			helpers["var "+g] = fmt.Sprintf("var %s %s = 0\n", g, t.s)
			// (`g := x` is refused by the compiler when g exists at package level: "no new variables")
			fmt.Fprintf(&body, "\tvar %s %s = %s\n\tvar %st %s = %s\n\tif %s {\n\t\t%st = %st + 1\n\t}\n\t%s := %s + %st\n", g, t.s, x, n, t.s, y, c, n, n, n, g, n)
		case "arr":
			x, y, z := name(s.X), name(s.Y), name(s.Z)
			et := types[s.X-1].s
			n := def(rType{s: "[3]" + et, elem: et})
			fmt.Fprintf(&body, "\tvar %s [3]%s\n\t%s[0] = %s\n\t%s[1] = %s\n\t%s[2] = %s\n", n, et, n, x, n, y, n, z)
		case "idx":
			a := name(s.X)
			n := def(rType{s: types[s.X-1].elem})
			fmt.Fprintf(&body, "\t%s := %s[%d]\n", n, a, s.C)
		case "arrl":
			x := name(s.X)
			et := types[s.X-1].s
			n := def(rType{s: "[3]" + et, elem: et})
			fmt.Fprintf(&body, "\tvar %s [3]%s\n\t%s[0] = %d\n\t%s[1] = %s\n\t%s[2] = %d\n", n, et, n, s.Z, n, x, n, s.C)
		case "idxv":
			a, u := name(s.X), name(s.Y)
			n := def(rType{s: types[s.X-1].elem})
			fmt.Fprintf(&body, "\t%s := %s[%s %% 3]\n", n, a, u)
		case "aset":
			a, x := name(s.X), name(s.Y)
			n := def(types[s.X-1])
			fmt.Fprintf(&body, "\t%s := %s\n\t%s[%d] = %s\n", n, a, n, s.C, x)
		case "mat":
			et := types[s.X-1].s
			n := def(rType{s: "[2][2]" + et, elem: et})
			fmt.Fprintf(&body, "\tvar %s [2][2]%s\n\t%s[0][0] = %s\n\t%s[0][1] = %s\n\t%s[1][0] = %s\n\t%s[1][1] = %s\n", n, et, n, name(s.X), n, name(s.Y), n, name(s.Z), n, name(s.C))
		case "midx":
			n := def(rType{s: types[s.X-1].elem})
			fmt.Fprintf(&body, "\t%s := %s[%d][%d]\n", n, name(s.X), s.C/2, s.C%2)
		case "mset":
			m, x := name(s.X), name(s.Y)
			n := def(types[s.X-1])
			fmt.Fprintf(&body, "\t%s := %s\n\t%s[%d][%d] = %s\n", n, m, n, s.C/2, s.C%2, x)
		case "asetl":
			a := name(s.X)
			n := def(types[s.X-1])
			fmt.Fprintf(&body, "\t%s := %s\n\t%s[%d] = %d\n", n, a, n, s.C, s.Z)
		case "fsetl":
			st := types[s.X-1]
			x := name(s.X)
			n := def(st)
			fmt.Fprintf(&body, "\t%s := %s\n\t%s.f%d = %d\n", n, x, n, s.C, s.Z)
		case "call":
			t := types[s.X-1]
			x, y := name(s.X), name(s.Y)
			fn := "addsub_" + t.s
			helpers[fn] = fmt.Sprintf("func %s(x, y %s) (%s, %s) {\n\treturn x + y, x - y\n}\n", fn, t.s, t.s, t.s)
			n1 := def(t)
			n2 := def(t)
			fmt.Fprintf(&body, "\t%s, %s := %s(%s, %s)\n", n1, n2, fn, x, y)
		case "opa":
			y := name(s.Y)
			if s.Op == "/" {
				y = fmt.Sprintf("(%s | 1)", y)
			}
			n := def(types[s.X-1])
			fmt.Fprintf(&body, "\t%s := %s\n\t%s %s= %s\n", n, name(s.X), n, s.Op, y)
		case "opal":
			n := def(types[s.X-1])
			fmt.Fprintf(&body, "\t%s := %s\n\t%s %s= %d\n", n, name(s.X), n, s.Op, s.C)
		case "incdec":
			n := def(types[s.X-1])
			fmt.Fprintf(&body, "\t%s := %s\n", n, name(s.X))
			for k := 0; k < s.C; k++ {
				fmt.Fprintf(&body, "\t%s++\n", n)
			}
			for k := 0; k < -s.C; k++ {
				fmt.Fprintf(&body, "\t%s--\n", n)
			}
		case "opf":
			st := types[s.X-1]
			ft := st.f1
			if s.C == 2 {
				ft = st.f2
			}
			y := name(s.Y)
			if s.Op == "/" {
				y = fmt.Sprintf("(%s | 1)", y)
			}
			n := def(rType{s: ft})
			fmt.Fprintf(&body, "\t%st := %s\n\t%st.f%d %s= %s\n\t%s := %st.f%d\n", n, name(s.X), n, s.C, s.Op, y, n, n, s.C)
		case "ope":
			at := types[s.X-1]
			y := name(s.Y)
			if s.Op == "/" {
				y = fmt.Sprintf("(%s | 1)", y)
			}
			n := def(rType{s: at.elem})
			fmt.Fprintf(&body, "\t%st := %s\n\t%st[%d] %s= %s\n\t%s := %st[%d]\n", n, name(s.X), n, s.C, s.Op, y, n, n, s.C)
		case "lensum":
			at := types[s.X-1]
			n := def(rType{s: at.elem})
			fmt.Fprintf(&body, "\tvar %s %s\n\tfor %si := 0; %si < len(%s); %si++ {\n\t\t%s += %s[%si]\n\t}\n", n, at.elem, n, n, name(s.X), n, n, name(s.X), n)
		case "vswap":
			t := types[s.X-1]
			n1 := def(t)
			n2 := def(t)
			fmt.Fprintf(&body, "\t%s, %s := %s, %s\n\t%s, %s = %s, %s\n", n1, n2, name(s.X), name(s.Y), n1, n2, n2, n1)
		case "fswap":
			st := types[s.X-1]
			n := def(rType{s: st.f1})
			fmt.Fprintf(&body, "\t%st := %s\n\t%st.f1, %st.f2 = %st.f2, %st.f1\n\t%s := %st.f%d\n", n, name(s.X), n, n, n, n, n, n, s.C)
		case "fcall":
			st := types[s.X-1]
			fn := "addsub_" + st.f1
			helpers[fn] = fmt.Sprintf("func %s(x, y %s) (%s, %s) {\n\treturn x + y, x - y\n}\n", fn, st.f1, st.f1, st.f1)
			n := def(rType{s: st.f1})
			fmt.Fprintf(&body, "\t%st := %s\n\t%st.f1, %st.f2 = %s(%s, %s)\n\t%s := %st.f%d\n", n, name(s.X), n, n, fn, name(s.Y), name(s.Z), n, n, s.C)
		case "aswap":
			at := types[s.X-1]
			i, j, r := s.C/9, (s.C/3)%3, s.C%3
			n := def(rType{s: at.elem})
			fmt.Fprintf(&body, "\t%st := %s\n\t%st[%d], %st[%d] = %st[%d], %st[%d]\n\t%s := %st[%d]\n", n, name(s.X), n, i, n, j, n, j, n, i, n, n, r)
		case "acall":
			at := types[s.X-1]
			i, j, r := s.C/9, (s.C/3)%3, s.C%3
			fn := "addsub_" + at.elem
			helpers[fn] = fmt.Sprintf("func %s(x, y %s) (%s, %s) {\n\treturn x + y, x - y\n}\n", fn, at.elem, at.elem, at.elem)
			n := def(rType{s: at.elem})
			fmt.Fprintf(&body, "\t%st := %s\n\t%st[%d], %st[%d] = %s(%s, %s)\n\t%s := %st[%d]\n", n, name(s.X), n, i, n, j, fn, name(s.Y), name(s.Z), n, n, r)
		case "mk":
			t1, t2 := types[s.X-1].s, types[s.Y-1].s
			x, y := name(s.X), name(s.Y)
			st := "S_" + t1 + "_" + t2
			helpers[st] = fmt.Sprintf("type %s struct {\n\tf1 %s\n\tf2 %s\n}\n", st, t1, t2)
			n := def(rType{s: st, f1: t1, f2: t2})
			fmt.Fprintf(&body, "\tvar %s %s\n\t%s.f1 = %s\n\t%s.f2 = %s\n", n, st, n, x, n, y)
		case "mklf":
			st := types[s.X-1]
			ft := st.f1
			if s.Y == 2 {
				ft = st.f2
			}
			n := def(rType{s: ft})
			fmt.Fprintf(&body, "\t%st := %s{f1: %d, f2: %d}\n\t%s := %st.f%d\n", n, st.s, s.Z, s.C, n, n, s.Y)
		case "mkl":
			st := types[s.X-1]
			n := def(st)
			fmt.Fprintf(&body, "\t%s := %s{f1: %d, f2: %d}\n", n, st.s, s.Z, s.C)
		case "fld":
			st := types[s.X-1]
			x := name(s.X)
			ft := st.f1
			if s.C == 2 {
				ft = st.f2
			}
			n := def(rType{s: ft})
			fmt.Fprintf(&body, "\t%s := %s.f%d\n", n, x, s.C)
		case "fset":
			st := types[s.X-1]
			x, y := name(s.X), name(s.Y)
			n := def(st)
			fmt.Fprintf(&body, "\t%s := %s\n\t%s.f%d = %s\n", n, x, n, s.C, y)
		}
	}
	var hs []string
	for k := range helpers {
		hs = append(hs, k)
	}
	sort.Strings(hs)
	var pre strings.Builder
	for _, k := range hs {
		pre.WriteString(helpers[k])
		pre.WriteString("\n")
	}
	return fmt.Sprintf("package main\n\n%sfunc main(a %s, b %s) %s {\n%s\treturn %s\n}\n",
		pre.String(), mc.Ta.String(), mc.Tb.String(), mc.Rt.String(), body.String(), name(mc.Ret))
}

var c03KnownRefusal = regexp.MustCompile(`invalid types: int[0-9]+ \S+ int[0-9]+$`)

func kindsOf(mc *mpCase) string {
	m := map[string]bool{}
	for _, s := range mc.Stmts {
		m[s.K] = true
	}
	var ks []string
	for k := range m {
		ks = append(ks, k)
	}
	sort.Strings(ks)
	return strings.Join(ks, ",")
}

// c03Check compiles one generated program under params and compares every test vector.
func c03Check(res *Result, mc *mpCase, params *utils.Params, cfg string) {
	src := renderMpcl(mc)
	var circ *circuit.Circuit
	var err error
	func() {
		defer func() {
			if x := recover(); x != nil {
				err = fmt.Errorf("compiler panic: %v", x)
				res.viol("compiler-panic", "the compiler panics on a generated program (%s): %v", cfg, x)
			}
		}()
		circ, err = compileMPCL(src, params)
	}()
	if err != nil {
		if res.Class == "" {
			res.Class = "rejected"
			res.Sample = map[string]string{"src": src, "error": err.Error()}
			// The one thing the compiler is known to refuse in generated programs is a signed operand narrower than
			// 32 bits next to a negative literal ("invalid types: int3 - int32").  Any other refusal of a program of
			// the modelled core means there is no circuit that computes what the program means.
			if !c03KnownRefusal.MatchString(err.Error()) {
				res.viol("refused:"+kindsOf(mc), "the compiler refuses a program of the modelled core (%s): %v\n%s", cfg, err, src)
			}
		}
		return
	}
	if params != nil && params.Target == utils.TargetGMW {
		circ.AssignLevels(utils.TargetGMW)
	}
	wr := mc.Rt.width()
	for _, t := range mc.Tests {
		out, err := circ.Compute([]*big.Int{big.NewInt(int64(t[0])), big.NewInt(int64(t[1]))})
		if err != nil {
			res.viol("compute-error", "Compute: %v", err)
			return
		}
		got := new(big.Int).And(out[0], new(big.Int).Sub(new(big.Int).Lsh(big.NewInt(1), uint(wr)), big.NewInt(1)))
		if got.Cmp(big.NewInt(int64(t[2]))) != 0 {
			res.viol("wrong-result:"+kindsOf(mc), "%s: main(%d, %d) computes %v (raw bits), the semantics give %d; statements %s\n%s", cfg, t[0], t[1], got, t[2], kindsOf(mc), src)
			return
		}
	}
	res.Class = "compared"
}

// c03Vectors evaluates every shipped @Test vector on the real circuit, the way the repository's own
// testsuite_test.go reads them (annotations of main, @Hex/@LSB, input sizes from the values).
func c03Vectors(out *ndWriter) error {
	root := "/repo/testsuite"
	var files []string
	filepath.Walk(root, func(p string, info os.FileInfo, err error) error {
		if err == nil && compiler.IsFilename(p) {
			files = append(files, p)
		}
		return nil
	})
	sort.Strings(files)
	ws := regexp.MustCompilePOSIX(`[[:space:]]+`)
	idx := 0
	for _, f := range files {
		rel := strings.TrimPrefix(f, root+"/")
		res := &Result{Case: idx, Class: "vectors", Nontrivial: true}
		idx++
		if strings.Contains(f, "sha512") {
			// the native sha512 circuit files are 0-byte in this sandbox (environment, not a violation)
			res.Class = "vectors:skipped-sha512"
			out.put(res)
			continue
		}
		params := utils.NewParams()
		params.MPCLCErrorLoc = false
		cc := compiler.New(params)
		pkg, err := cc.ParseFile(f)
		if err != nil {
			res.viol("vectors:parse", "%s does not parse: %v", rel, err)
			out.put(res)
			continue
		}
		main, ok := pkg.Functions["main"]
		if !ok {
			res.Class = "vectors:none"
			out.put(res)
			continue
		}
		base := 10
		lsb := false
		ntests := 0
		for _, annotation := range main.Annotations {
			ann := strings.TrimSpace(annotation)
			if strings.HasPrefix(ann, "@Hex") {
				base = 16
				continue
			}
			if strings.HasPrefix(ann, "@LSB") {
				lsb = true
				continue
			}
			if !strings.HasPrefix(ann, "@Test ") {
				continue
			}
			parts := ws.Split(ann, -1)
			var inputValues [][]string
			var inputs, outputs []*big.Int
			sep := false
			bad := false
			for i := 1; i < len(parts); i++ {
				part := parts[i]
				if part == "=" {
					sep = true
					continue
				}
				var iv []string
				for _, input := range strings.Split(part, ",") {
					var v *big.Int
					if input != "_" {
						v = new(big.Int)
						if base == 16 && lsb {
							input = reverseHex(input)
						}
						if _, ok := v.SetString(input, 0); !ok {
							bad = true
						}
					}
					if sep {
						outputs = append(outputs, v)
					} else {
						iv = append(iv, input)
						inputs = append(inputs, v)
					}
				}
				inputValues = append(inputValues, iv)
			}
			if bad {
				res.drift("%s: cannot read an @Test line", rel)
				continue
			}
			var inputSizes [][]int
			for _, iv := range inputValues {
				sizes, err := circuit.InputSizes(iv)
				if err != nil {
					bad = true
					break
				}
				inputSizes = append(inputSizes, sizes)
			}
			if bad {
				res.drift("%s: cannot infer input sizes", rel)
				continue
			}
			var circ *circuit.Circuit
			func() {
				defer func() {
					if x := recover(); x != nil {
						err = fmt.Errorf("panic: %v", x)
					}
				}()
				circ, _, err = compiler.New(params).CompileFile(f, inputSizes)
			}()
			if err != nil {
				res.viol("vectors:compile", "%s does not compile: %v", rel, err)
				break
			}
			results, err := circ.Compute(inputs)
			if err != nil {
				res.viol("vectors:compute", "%s test %d: %v", rel, ntests, err)
				break
			}
			if len(results) != len(outputs) {
				res.viol("vectors:mismatch", "%s test %d: %d results, the vector lists %d", rel, ntests, len(results), len(outputs))
				break
			}
			for oi := range results {
				o := circ.Outputs[oi]
				if outputs[oi] == nil {
					continue
				}
				rr := mpc.Result(new(big.Int).Set(results[oi]), o)
				re := mpc.Result(new(big.Int).Set(outputs[oi]), o)
				if fmt.Sprint(rr) != fmt.Sprint(re) {
					res.viol("vectors:mismatch", "%s: @Test %v: result %d is %v, the vector says %v", rel, inputValues, oi, rr, re)
				}
			}
			ntests++
		}
		if ntests == 0 && len(res.Viol) == 0 {
			res.Class = "vectors:none"
		}
		res.Sample = map[string]interface{}{"file": rel, "vectors": ntests}
		out.put(res)
	}
	return nil
}

func reverseHex(val string) string {
	var prefix string
	if strings.HasPrefix(val, "0x") {
		val = val[2:]
		prefix = "0x"
	}
	var result string
	for i := len(val) - 2; i >= 0; i -= 2 {
		result += val[i : i+2]
	}
	if len(val)%2 == 1 {
		result += val[0:1]
	}
	return prefix + result
}

func c03Main(args []string) error {
	if len(args) < 2 {
		return fmt.Errorf("usage: vh c03 replay|vectors ...")
	}
	switch args[0] {
	case "wide":
		return c03Wide(args[1:])
	case "replay":
		out, err := newND(args[2])
		if err != nil {
			return err
		}
		defer out.close()
		idx := 0
		nviol := 0
		return readND(args[1], func(raw json.RawMessage) error {
			var mc mpCase
			if err := json.Unmarshal(raw, &mc); err != nil {
				return err
			}
			if nviol >= 8 {
				return nil
			}
			res := &Result{Case: idx, Nontrivial: len(mc.Stmts) >= 3}
			c03Check(res, &mc, nil, "default")
			if idx < 2 && res.Sample == nil {
				res.Sample = renderMpcl(&mc)
			}
			if len(res.Viol) > 0 {
				nviol++
			}
			idx++
			out.put(res)
			return nil
		})
	case "vectors":
		out, err := newND(args[1])
		if err != nil {
			return err
		}
		defer out.close()
		return c03Vectors(out)
	}
	return fmt.Errorf("unknown c03 mode")
}

// ---------------------------------------------------------------- C09 (program level)

type optConfig struct {
	name   string
	target utils.Target
	prune  bool
	thresh int
}

func optConfigs() []optConfig {
	var cs []optConfig
	for _, tg := range []utils.Target{utils.TargetYao, utils.TargetGMW} {
		for _, pr := range []bool{false, true} {
			for _, th := range []int{0, 8, 16, 21, 64} {
				if tg == utils.TargetGMW && th != 0 && th != 21 {
					continue // the threshold only steers the Yao multiplier
				}
				n := fmt.Sprintf("%v/prune=%v/mult=%d", tg, pr, th)
				cs = append(cs, optConfig{n, tg, pr, th})
			}
		}
	}
	// the options that only ask for additional output (diagnostics, SSA / circuit listings in every format) must not
	// touch the circuit either
	cs = append(cs, optConfig{"Yao/prune=false/mult=0/diagnostics+listings", utils.TargetYao, false, 0},
		optConfig{"GMW/prune=true/mult=0/diagnostics+listings", utils.TargetGMW, true, 0},
		// the warning switches only say what is reported
		optConfig{"Yao/prune=true/mult=0/warnings-off", utils.TargetYao, true, 0})
	return cs
}

type discardWC struct{}

func (discardWC) Write(p []byte) (int, error) { return len(p), nil }
func (discardWC) Close() error                { return nil }

func (c optConfig) params() *utils.Params {
	p := utils.NewParams()
	p.Target = c.target
	p.OptPruneGates = c.prune
	p.CircMultArrayTreshold = c.thresh
	if strings.HasSuffix(c.name, "warnings-off") {
		p.Warn.DisableAll()
	}
	if strings.HasSuffix(c.name, "listings") {
		p.Diagnostics = true
		p.SSAOut, p.SSADotOut = discardWC{}, discardWC{}
		p.CircOut, p.CircDotOut, p.CircSvgOut = discardWC{}, discardWC{}, discardWC{}
		p.CircFormat = "mpclc"
	}
	return p
}

// c09Program compiles src under every configuration and compares the input->output functions:
// exhaustively when the inputs have at most 16 bits in total, else on 64 vectors.
func c09Program(res *Result, src string, tests [][]int, wr int) {
	var circs []*circuit.Circuit
	cfgs := optConfigs()
	for _, cfg := range cfgs {
		var c *circuit.Circuit
		var err error
		func() {
			defer func() {
				if x := recover(); x != nil {
					err = fmt.Errorf("compiler panic: %v", x)
					res.viol("compiler-panic:"+cfg.name, "the compiler panics under %s: %v", cfg.name, x)
				}
			}()
			c, err = compileMPCL(src, cfg.params())
		}()
		if err != nil {
			if len(circs) == 0 {
				res.Class = "rejected"
				return
			}
			res.viol("config-rejects:"+cfg.name, "the program compiles under %s but not under %s: %v", cfgs[0].name, cfg.name, err)
			return
		}
		if cfg.target == utils.TargetGMW {
			c.AssignLevels(utils.TargetGMW)
		}
		circs = append(circs, c)
	}
	base := circs[0]
	na, nb := int(base.Inputs[0].Type.Bits), int(base.Inputs[1].Type.Bits)
	var ins [][2]*big.Int
	exh := 12
	if thorough() {
		exh = 16
	}
	if na+nb <= exh {
		for a := 0; a < 1<<uint(na); a++ {
			for b := 0; b < 1<<uint(nb); b++ {
				ins = append(ins, [2]*big.Int{big.NewInt(int64(a)), big.NewInt(int64(b))})
			}
		}
		res.Class = "exhaustive"
	} else {
		rng := newDetRand(uint64(len(src)) + 99)
		rb := func(n int) *big.Int {
			buf := make([]byte, (n+7)/8)
			rng.Read(buf)
			v := new(big.Int).SetBytes(buf)
			return v.And(v, new(big.Int).Sub(new(big.Int).Lsh(big.NewInt(1), uint(n)), big.NewInt(1)))
		}
		ones := func(n int) *big.Int { return new(big.Int).Sub(new(big.Int).Lsh(big.NewInt(1), uint(n)), big.NewInt(1)) }
		ins = append(ins, [2]*big.Int{big.NewInt(0), big.NewInt(0)}, [2]*big.Int{ones(na), ones(nb)}, [2]*big.Int{ones(na), big.NewInt(1)},
			[2]*big.Int{new(big.Int).Rsh(ones(na), 1), big.NewInt(1)}, [2]*big.Int{big.NewInt(1), ones(nb)})
		for len(ins) < 64 {
			ins = append(ins, [2]*big.Int{rb(na), rb(nb)})
		}
		res.Class = "sampled-64"
	}
	for _, in := range ins {
		want, err := base.Compute([]*big.Int{in[0], in[1]})
		if err != nil {
			res.viol("compute-error", "%v", err)
			return
		}
		for ci := 1; ci < len(circs); ci++ {
			got, err := circs[ci].Compute([]*big.Int{in[0], in[1]})
			if err != nil {
				res.viol("compute-error", "%v", err)
				return
			}
			if !sameBigs(got, want) {
				key := "config-changes-result:" + cfgs[ci].name
				if cfgs[ci].target == utils.TargetGMW && strings.Contains(src, "uint7") && (strings.Contains(src, " / ") || strings.Contains(src, " % ")) {
					// the input class of the listed finding of the GMW divider (7-bit dividend 127): C07 has the details
					key = "config-changes-result:GMW-divider:uint7"
				}
				res.viol(key, "main(%v, %v) = %v under %s but %v under %s\n%s", in[0], in[1], want, cfgs[0].name, got, cfgs[ci].name, src)
				return
			}
		}
	}
	// the default configuration is anchored to the specification by the interpreter's predictions
	for _, t := range tests {
		out, err := base.Compute([]*big.Int{big.NewInt(int64(t[0])), big.NewInt(int64(t[1]))})
		if err != nil {
			return
		}
		got := new(big.Int).And(out[0], new(big.Int).Sub(new(big.Int).Lsh(big.NewInt(1), uint(wr)), big.NewInt(1)))
		if got.Cmp(big.NewInt(int64(t[2]))) != 0 {
			res.viol("wrong-result", "default configuration: main(%d, %d) computes %v, the semantics give %d\n%s", t[0], t[1], got, t[2], src)
			return
		}
	}
}

var c09ConstantTemplates = []string{
	"package main\n\nfunc main(a, b uint8) (uint8, bool) {\n\treturn (a << 1) - b, true\n}\n",
	"package main\n\nfunc main(a, b uint16) (uint16, uint8) {\n\treturn (a << 2) - b, 16\n}\n",
	"package main\n\nfunc main(a, b uint8) (bool, uint8) {\n\treturn false, (a | 1) + b\n}\n",
	"package main\n\nfunc main(a, b uint8) (uint8, uint8, bool) {\n\treturn a - (b << 3), 1, a < b\n}\n",
	"package main\n\nfunc main(a, b int8) (int8, int8) {\n\treturn -a - b, -1\n}\n",
	"package main\n\nfunc main(a, b uint8) uint8 {\n\tfor i := 0; i < 4; i++ {\n\t\tif i == 2 {\n\t\t\treturn a + uint8(i)\n\t\t}\n\t\ta = a ^ b\n\t}\n\treturn b\n}\n",
	"package main\n\nfunc pick(x, y uint8, n int) uint8 {\n\tif n > 2 {\n\t\treturn x\n\t}\n\treturn y\n}\n\nfunc main(a, b uint8) (uint8, uint8) {\n\treturn pick(a, b, 3), pick(a, b, 1)\n}\n",
}

func init() { commands["c09"] = c09Main }

func c09Main(args []string) error {
	if len(args) < 3 {
		return fmt.Errorf("usage: vh c09 programs cases.ndjson results.ndjson | vh c09 graphs cases results")
	}
	switch args[0] {
	case "programs":
		out, err := newND(args[2])
		if err != nil {
			return err
		}
		defer out.close()
		idx := 0
		nviol := 0
		// the generated programs are independent of each other: eight at a time (every compilation has its own Params)
		var mcs []*mpCase
		err = readND(args[1], func(raw json.RawMessage) error {
			mc := new(mpCase)
			if err := json.Unmarshal(raw, mc); err != nil {
				return err
			}
			mcs = append(mcs, mc)
			return nil
		})
		if err != nil {
			return err
		}
		par := 8
		if thorough() {
			par = 14
		}
		for lo := 0; lo < len(mcs) && nviol < 6; lo += par {
			hi := lo + par
			if hi > len(mcs) {
				hi = len(mcs)
			}
			results := make([]*Result, hi-lo)
			var wg sync.WaitGroup
			for k := lo; k < hi; k++ {
				wg.Add(1)
				go func(k int) {
					defer wg.Done()
					mc := mcs[k]
					res := &Result{Case: k, Nontrivial: len(mc.Stmts) >= 3}
					c09Program(res, renderMpcl(mc), mc.Tests, mc.Rt.width())
					if k < 2 {
						res.Sample = renderMpcl(mc)
					}
					results[k-lo] = res
				}(k)
			}
			wg.Wait()
			for _, res := range results {
				if len(res.Viol) > 0 {
					nviol++
				}
				out.put(res)
			}
			idx = hi
		}
		// hand-written and generated alias-heavy programs (no prediction: agreement between configurations)
		for i, t := range pgTemplates {
			res := &Result{Case: idx + i, Nontrivial: true}
			c09Program(res, t, nil, 0)
			out.put(res)
		}
		// every binary operator on two run-time operands, all inputs (division and modulo guarded against a zero
		// divisor, where the targets' dividers are allowed to differ)
		n := idx + len(pgTemplates)
		widths := []int{4, 6}
		if thorough() {
			widths = []int{3, 5, 6, 7, 8}
		}
		for _, w := range widths {
			for _, signed := range []bool{false, true} {
				T := typeName(signed, w)
				for _, op := range []string{"+", "-", "*", "/", "%", "&", "|", "^", "&^", "<", "<=", ">", ">=", "==", "!=", "<<", ">>"} {
					rt, body := T, "return a "+op+" b"
					switch op {
					case "/", "%":
						body = "if b == 0 {\n\t\treturn 0\n\t}\n\treturn a " + op + " b"
					case "<", "<=", ">", ">=", "==", "!=":
						rt = "bool"
					case "<<", ">>":
						body = fmt.Sprintf("return (a %s 1) ^ (b %s %d)", op, op, w/2)
					}
					res := &Result{Case: n, Nontrivial: true}
					n++
					c09Program(res, fmt.Sprintf("package main\n\nfunc main(a, b %s) %s {\n\t%s\n}\n", T, rt, body), nil, 0)
					out.put(res)
				}
			}
		}
		// results that are (partly) literals next to arithmetic whose constants meet them in the optimisation passes,
		// and code after a return that a compile-time condition made unconditional
		for _, src := range c09ConstantTemplates {
			res := &Result{Case: n, Nontrivial: true, Class: "constant-result"}
			n++
			c09Program(res, src, nil, 0)
			out.put(res)
		}
		// the arithmetic builders at widths where the multiplier thresholds and the GMW variants switch algorithms:
		// single-operator programs, compared across the configurations on boundary and random operands
		wide := []int{33, 48, 64}
		if thorough() {
			wide = []int{24, 33, 47, 48, 64, 65, 96, 100}
		}
		for _, w := range wide {
			T := typeName(false, w)
			for _, op := range []string{"*", "+", "-", "<"} {
				rt := T
				if op == "<" {
					rt = "bool"
				}
				res := &Result{Case: n, Nontrivial: true, Class: "wide-operator"}
				n++
				c09Program(res, fmt.Sprintf("package main\n\nfunc main(a, b %s) %s {\n\treturn a %s b\n}\n", T, rt, op), nil, 0)
				if res.Class == "sampled-64" {
					res.Class = "wide-operator"
				}
				out.put(res)
			}
		}
		return nil
	case "graphs":
		return c09Graphs(args[1:])
	}
	return fmt.Errorf("unknown c09 mode")
}

// c03Wide: single-operator programs on types the interpreter of Mpcl.tla cannot enumerate (33..130 bits): the compiled
// circuit's results on boundary operands are written as ArithTrace events (base-4096 limbs) and checked relationally.
//
//	vh c03 wide trace.ndjson results.ndjson n
func c03Wide(args []string) error {
	if len(args) < 2 {
		return fmt.Errorf("usage: vh c03 wide trace.ndjson results.ndjson n")
	}
	tr, err := newND(args[0])
	if err != nil {
		return err
	}
	defer tr.close()
	out, err := newND(args[1])
	if err != nil {
		return err
	}
	defer out.close()
	n := 120
	if len(args) > 2 {
		fmt.Sscan(args[2], &n)
	}
	rng := rand.New(rand.NewSource(seed()*40503 + 3))
	widths := []int{33, 46, 47, 50, 63, 64, 65, 66, 83, 100, 127, 128, 129, 130}
	type wop struct {
		name, expr, rt string
		signed, both   bool
	}
	ops := []wop{{"add", "a + b", "", false, false}, {"sub", "a - b", "", false, false}, {"mul", "a * b", "", false, false},
		{"mul", "a * b", "", false, false}, {"udiv", "a / b, a % b", "", false, true}, {"idiv", "a / b, a % b", "", true, true},
		{"ult", "a < b", "bool", false, false}, {"ugt", "a > b", "bool", false, false}, {"ilt", "a < b", "bool", true, false},
		{"ige", "a >= b", "bool", true, false}, {"eq", "a == b", "bool", false, false}, {"neq", "a != b", "bool", false, false},
		{"band", "a & b", "", false, false}, {"bxor", "a ^ b", "", false, false}, {"bclr", "a &^ b", "", false, false}}
	cache := map[string]*circuit.Circuit{}
	for i := 0; i < n; i++ {
		op := ops[i%len(ops)]
		w := widths[rng.Intn(len(widths))]
		T := typeName(op.signed, w)
		rt := op.rt
		if rt == "" {
			rt = T
		}
		if op.both {
			rt = "(" + T + ", " + T + ")"
		}
		src := fmt.Sprintf("package main\n\nfunc main(a, b %s) %s {\n\treturn %s\n}\n", T, rt, op.expr)
		res := &Result{Case: i, Nontrivial: true, Class: "wide:" + op.name}
		c, ok := cache[src]
		if !ok {
			c, err = compileMPCL(src, nil)
			if err != nil {
				res.Class = "rejected"
				res.drift("wide program does not compile: %v\n%s", err, src)
				out.put(res)
				continue
			}
			cache[src] = c
		}
		wz := w
		if op.rt == "bool" {
			wz = 1
		}
		for k := 0; k < 6; k++ {
			x, y := boundaryOperand(rng, w), boundaryOperand(rng, w)
			if op.both && y.Sign() == 0 {
				y = big.NewInt(3)
			}
			got, err := c.Compute([]*big.Int{x, y})
			if err != nil {
				res.viol("compute-error", "%v", err)
				break
			}
			ev := map[string]interface{}{"ev": "op", "op": op.name, "target": "mpcl", "wx": w, "wy": w, "wz": wz,
				"x": limbs(x, w), "y": limbs(y, w), "z": limbs(got[0], wz), "r": []int{0}}
			if op.both {
				ev["r"] = limbs(got[1], w)
			}
			tr.put(ev)
		}
		out.put(res)
	}
	// one operand is a literal: negative constants, constants with the top bit of the type set, powers of two
	// (strength reduction, constant typing), on 32..130-bit types; the relation is the same as for two variables
	lwidths := []int{32, 33, 63, 64, 65, 128, 130}
	type litCase struct {
		w      int
		signed bool
		opn    string
		sym    string
		k      *big.Int
		div    bool
	}
	var lcases []litCase
	for _, w := range lwidths {
		top := new(big.Int).Lsh(big.NewInt(1), uint(w-1))
		for _, signed := range []bool{true, false} {
			var ks []*big.Int
			if signed {
				ks = []*big.Int{big.NewInt(-3), big.NewInt(-1), big.NewInt(-8), big.NewInt(5), big.NewInt(16), big.NewInt(-1000003)}
			} else {
				ks = []*big.Int{top, new(big.Int).Add(top, big.NewInt(5)), new(big.Int).Sub(new(big.Int).Lsh(top, 1), big.NewInt(1)), big.NewInt(3), big.NewInt(8), new(big.Int).Rsh(top, 1)}
			}
			// constants beyond a machine word whose low 64 bits look like 0, 1 or a small power of two
			for _, e := range []int{64, 65, 100} {
				if e < w-1 {
					p := new(big.Int).Lsh(big.NewInt(1), uint(e))
					ks = append(ks, p, new(big.Int).Add(p, big.NewInt(1)), new(big.Int).Add(p, big.NewInt(4)))
				}
			}
			for _, op := range [][2]string{{"mul", "*"}, {"add", "+"}, {"sub", "-"}, {"band", "&"}} {
				for _, k := range ks {
					lcases = append(lcases, litCase{w, signed, op[0], op[1], k, false})
				}
			}
			for _, k := range []int64{2, 4, 8, 1 << 20, 3, 7} {
				lcases = append(lcases, litCase{w, signed, "div", "/", big.NewInt(k), true})
			}
		}
	}
	// the quick tier takes a seeded third of the cases, the thorough tier all of them
	for i, lc := range lcases {
		if !thorough() && (i+int(seed()))%3 != 0 {
			continue
		}
		w, signed, opn, sym, k := lc.w, lc.signed, lc.opn, lc.sym, lc.k
		T := typeName(signed, w)
		lit := k.String()
		if !signed {
			lit = "0x" + k.Text(16)
		}
		src := fmt.Sprintf("package main\n\nfunc main(a, b %s) %s {\n\treturn a %s %s\n}\n", T, T, sym, lit)
		if lc.div {
			// a divisor known at compile time (powers of two invite strength reduction): quotient and remainder
			lit = k.String()
			opn = "udiv"
			if signed {
				opn = "idiv"
			}
			src = fmt.Sprintf("package main\n\nfunc main(a, b %s) (%s, %s) {\n\treturn a / %s, a %% %s\n}\n", T, T, T, lit, lit)
		}
		res := &Result{Case: n + i, Nontrivial: true, Class: "wide-literal:" + opn}
		c, err := compileMPCL(src, nil)
		if err != nil {
			res.Class = "rejected"
			res.Sample = map[string]string{"src": src, "error": err.Error()}
			out.put(res)
			continue
		}
		y := new(big.Int).And(k, new(big.Int).Sub(new(big.Int).Lsh(big.NewInt(1), uint(w)), big.NewInt(1))) // two's complement at the type's width
		for j := 0; j < 4; j++ {
			x := boundaryOperand(rng, w)
			got, err := c.Compute([]*big.Int{x, big.NewInt(0)})
			if err != nil {
				res.viol("compute-error", "%v", err)
				break
			}
			// class of the literal: negative in a signed type wider than / exactly 32 bits, top bit of an unsigned type, small
			lc := "small"
			if k.Sign() < 0 && w > 32 {
				lc = "neg>32"
			} else if k.Sign() < 0 {
				lc = "neg=32"
			} else if k.BitLen() == w {
				lc = "top"
			} else if k.BitLen() > 64 {
				lc = "beyond64"
			}
			rem := []int{0}
			if opn == "udiv" || opn == "idiv" {
				rem = limbs(got[1], w)
			}
			tr.put(map[string]interface{}{"ev": "op", "op": opn, "target": "mpcl-literal", "lit": lc, "wx": w, "wy": w, "wz": w,
				"x": limbs(x, w), "y": limbs(y, w), "z": limbs(got[0], w), "r": rem})
		}
		out.put(res)
	}
	return nil
}
