package main

// A seeded generator of small straight-line MPCL programs that are heavy in
// value aliasing (casts, constant shifts, slices, array element updates,
// concatenations, copies) mixed with arithmetic, comparisons and if/else.
// Used by C05 (streaming vs whole-circuit), C09 (options) and C08 (determinism).

import (
	"fmt"
	"math/rand"
	"strings"
)

type pgVar struct {
	name string
	typ  string // uintN | intN | bool | [K]uint8
	bits int
	arr  int // array length (0 = scalar)
	sign bool
}

type pgProg struct {
	src    string
	argA   pgVar
	argB   pgVar
	inBits [2]int
}

func pgType(v pgVar) string { return v.typ }

func pgScalar(name string, bits int, sign bool) pgVar {
	t := fmt.Sprintf("uint%d", bits)
	if sign {
		t = fmt.Sprintf("int%d", bits)
	}
	return pgVar{name: name, typ: t, bits: bits, sign: sign}
}

func pgArray(name string, n int) pgVar {
	return pgVar{name: name, typ: fmt.Sprintf("[%d]uint8", n), bits: 8 * n, arr: n}
}

// genProgram builds one program. wide selects occasional wide scalars.
func genProgram(rng *rand.Rand, nstmt int, wide bool) *pgProg {
	widths := []int{4, 8, 8, 13, 16, 16}
	if wide {
		widths = append(widths, 32, 33, 64)
	}
	var vars []pgVar
	var b strings.Builder
	mkArg := func(name string) pgVar {
		if rng.Intn(3) == 0 {
			return pgArray(name, 2+rng.Intn(3))
		}
		return pgScalar(name, widths[rng.Intn(len(widths))], rng.Intn(4) == 0)
	}
	a := mkArg("a")
	bb := mkArg("b")
	if rng.Intn(2) == 0 {
		bb = a
		bb.name = "b"
	}
	vars = append(vars, a, bb)
	n := 0
	fresh := func() string {
		n++
		return fmt.Sprintf("v%d", n)
	}
	pick := func(pred func(pgVar) bool) (pgVar, bool) {
		var c []pgVar
		for _, v := range vars {
			if pred(v) {
				c = append(c, v)
			}
		}
		if len(c) == 0 {
			return pgVar{}, false
		}
		// prefer recent variables: chains of aliases
		if rng.Intn(2) == 0 {
			return c[len(c)-1-rng.Intn(min(2, len(c)))], true
		}
		return c[rng.Intn(len(c))], true
	}
	isScalar := func(v pgVar) bool { return v.arr == 0 && v.typ != "bool" }
	isArr := func(v pgVar) bool { return v.arr > 0 }
	for s := 0; s < nstmt; s++ {
		switch rng.Intn(12) {
		case 0, 1: // arithmetic on two scalars of one type
			x, ok := pick(isScalar)
			if !ok {
				continue
			}
			y, ok := pick(func(v pgVar) bool { return v.typ == x.typ })
			if !ok {
				continue
			}
			op := []string{"+", "-", "*", "&", "|", "^"}[rng.Intn(6)]
			v := pgScalar(fresh(), x.bits, x.sign)
			fmt.Fprintf(&b, "\t%s := %s %s %s\n", v.name, x.name, op, y.name)
			vars = append(vars, v)
		case 2, 3: // constant shift (an alias in streaming mode)
			x, ok := pick(isScalar)
			if !ok {
				continue
			}
			k := 1 + rng.Intn(x.bits)
			if k >= x.bits {
				k = x.bits - 1
			}
			if k < 1 {
				k = 1
			}
			op := []string{">>", "<<"}[rng.Intn(2)]
			v := pgScalar(fresh(), x.bits, x.sign)
			if rng.Intn(3) == 0 {
				fmt.Fprintf(&b, "\t%s := (%s %s %d) %s 1\n", v.name, x.name, op, k, op)
			} else {
				fmt.Fprintf(&b, "\t%s := %s %s %d\n", v.name, x.name, op, k)
			}
			vars = append(vars, v)
		case 4, 5: // cast (mov / smov / slice)
			x, ok := pick(isScalar)
			if !ok {
				continue
			}
			w := widths[rng.Intn(len(widths))]
			v := pgScalar(fresh(), w, rng.Intn(3) == 0)
			fmt.Fprintf(&b, "\t%s := %s(%s)\n", v.name, v.typ, x.name)
			vars = append(vars, v)
		case 6: // array element read
			x, ok := pick(isArr)
			if !ok {
				continue
			}
			v := pgScalar(fresh(), 8, false)
			fmt.Fprintf(&b, "\t%s := %s[%d]\n", v.name, x.name, rng.Intn(x.arr))
			vars = append(vars, v)
		case 7: // array copy + element update (amov)
			x, ok := pick(isArr)
			if !ok {
				continue
			}
			e, ok := pick(func(v pgVar) bool { return v.typ == "uint8" })
			v := pgArray(fresh(), x.arr)
			fmt.Fprintf(&b, "\t%s := %s\n", v.name, x.name)
			if ok {
				fmt.Fprintf(&b, "\t%s[%d] = %s\n", v.name, rng.Intn(x.arr), e.name)
			} else {
				fmt.Fprintf(&b, "\t%s[%d] = %s[%d] + 1\n", v.name, rng.Intn(x.arr), x.name, rng.Intn(x.arr))
			}
			vars = append(vars, v)
		case 8: // array concatenation
			x, ok := pick(isArr)
			if !ok {
				continue
			}
			y, ok := pick(isArr)
			if !ok || x.arr+y.arr > 8 {
				continue
			}
			v := pgArray(fresh(), x.arr+y.arr)
			fmt.Fprintf(&b, "\t%s := %s + %s\n", v.name, x.name, y.name)
			vars = append(vars, v)
		case 9: // array slice copied into a fixed array
			x, ok := pick(func(v pgVar) bool { return v.arr >= 3 })
			if !ok {
				continue
			}
			from := rng.Intn(x.arr - 1)
			to := from + 1 + rng.Intn(x.arr-from-1)
			v := pgArray(fresh(), to-from)
			fmt.Fprintf(&b, "\tvar %s %s\n\tcopy(%s, %s[%d:%d])\n", v.name, v.typ, v.name, x.name, from, to)
			vars = append(vars, v)
		case 10: // if / else (phi)
			x, ok := pick(isScalar)
			if !ok {
				continue
			}
			y, ok := pick(func(v pgVar) bool { return v.typ == x.typ })
			if !ok {
				continue
			}
			v := pgScalar(fresh(), x.bits, x.sign)
			fmt.Fprintf(&b, "\tvar %s %s\n\tif %s > %s {\n\t\t%s = %s - %s\n\t} else {\n\t\t%s = %s >> 1\n\t}\n",
				v.name, v.typ, x.name, y.name, v.name, x.name, y.name, v.name, y.name)
			vars = append(vars, v)
		case 11: // widening multiply chain: several same-size allocations after an alias
			x, ok := pick(isScalar)
			if !ok {
				continue
			}
			v1 := pgScalar(fresh(), x.bits, x.sign)
			v2 := pgScalar(fresh(), x.bits, x.sign)
			fmt.Fprintf(&b, "\t%s := %s * %s + %s\n\t%s := %s * %s\n", v1.name, x.name, x.name, x.name, v2.name, v1.name, x.name)
			vars = append(vars, v1, v2)
		}
	}
	// return two values: one early (long-lived alias candidates) and one late
	r1 := vars[rng.Intn(len(vars))]
	r2 := vars[len(vars)-1-rng.Intn(min(3, len(vars)))]
	src := fmt.Sprintf("package main\n\nfunc main(a %s, b %s) (%s, %s) {\n%s\treturn %s, %s\n}\n",
		a.typ, bb.typ, r1.typ, r2.typ, b.String(), r1.name, r2.name)
	return &pgProg{src: src, argA: a, argB: bb, inBits: [2]int{a.bits, bb.bits}}
}

// hand-written alias-heavy templates (each known to compile)
var pgTemplates = []string{
	`package main
func main(a, b uint16) (uint16, uint16) {
	s := a >> 1
	t := s >> 1
	return t, (a * b) * b
}`,
	`package main
func main(a, b [4]byte) ([8]byte, uint32) {
	k := uint32(b[0])
	c := a + b
	w := (k*k + k) * k
	return c, w
}`,
	`package main
func main(a, b uint16) (uint16, uint16) {
	t := uint16(uint8(a >> 3))
	y := a*b*b + a
	z := y * b
	return t, z
}`,
	`package main
func main(a [4]byte, b [4]byte) ([4]byte, byte) {
	c := a
	c[1] = b[2]
	d := c
	d[3] = a[0] + b[0]
	var s byte
	for i := 0; i < 4; i++ {
		s = s + d[i]*c[i]
	}
	return d, s
}`,
	`package main
type P struct {
	x uint8
	y uint16
}
func main(a, b uint16) (uint16, uint8) {
	p := P{x: uint8(a), y: b}
	q := p
	q.y = p.y + a
	r := q.y * a
	return r + uint16(q.x), p.x + uint8(r>>8)
}`,
	`package main
func main(a, b uint16) (uint16, uint16) {
	s := a >> 1
	t := a >> 2
	u := t + b
	x := a * b
	y := x * b
	z := y * u
	return s, z
}`,
	`package main
func main(a, b uint16) (uint16, uint16) {
	s := a >> 1
	t := a >> 2
	u := t + b
	return s, ((a * b) * b) * u
}`,
	`package main
func main(a, b int16) (int16, int32) {
	x := a >> 3
	y := int32(x) << 4
	z := y * int32(b)
	w := z * z
	return x, w + y
}`,
}

// programs in which one operator occurs with operand types that agree in some positions and differ in others
// (index widths, selected widths, signedness, constants): anything that identifies a streamed circuit by less
// than its complete typed instruction would reuse the wrong one
var pgCacheTemplates = []string{
	`package main
func main(a [8]uint8, sel uint8) (uint8, uint8, uint8, uint8) {
	var i uint2 = uint2(sel)
	var j uint3 = uint3(sel >> 2)
	var k uint1 = uint1(sel >> 5)
	var b [8]uint8
	for n := 0; n < 8; n++ {
		b[n] = a[n] + 1
	}
	return a[i], b[j], a[k], a[i] + b[j]
}`,
	`package main
func main(a [4]uint16, sel uint8) (uint16, uint16, uint8) {
	var i uint1 = uint1(sel)
	var j uint2 = uint2(sel >> 1)
	var c [4]uint8
	for n := 0; n < 4; n++ {
		c[n] = uint8(a[n] >> 4)
	}
	return a[i], a[j], c[j] + c[i]
}`,
	`package main
func main(a uint16, b uint16) (uint8, uint16, int8, bool) {
	var x uint8 = uint8(a)
	var y uint8 = uint8(b)
	var p int8 = int8(a >> 8)
	var q int8 = int8(b >> 8)
	var r uint8
	if a > b {
		r = x
	} else {
		r = y
	}
	var s uint16
	if x > y {
		s = a
	} else {
		s = b
	}
	var t int8
	if p > q {
		t = p
	} else {
		t = q
	}
	return r, s, t, (p == -3) != (x == 3) || q == p
}`,
	// a builtin circuit (its result is narrower than the result type: the builder leaves the upper bits to constants)
	`package main
import (
	"encoding/binary"
)
func main(a, b uint16) (uint, uint8) {
	h := binary.HammingDistance(a, b)
	return h, uint8(h) + uint8(a)
}`,
}

// constants reused at several widths (a literal and a zero value first met at one width and needed at another in one
// instruction: array element stores with their index constants), on 40..128-bit types; %s is the scalar type
var pgConstWidthTemplates = []string{
	`package main
const K %[1]s = 5
func main(a, b %[1]s) ([2]%[1]s, %[1]s, uint8) {
	var arr [2]%[1]s
	var z %[1]s
	var n uint8 = 5
	d := a + 5
	arr[0] = K
	arr[1] = a + b + z + d
	var brr [3]uint8
	brr[2] = 5
	brr[0] = uint8(b)
	return arr, d * 3, brr[2] + n + brr[0]
}`,
	`package main
const M %[1]s = 3
func main(a, b %[1]s) ([3]%[1]s, bool) {
	var z %[1]s
	var w uint16 = 3
	var arr [3]%[1]s
	arr[2] = M
	arr[0] = z
	arr[1] = (a ^ 3) + (b & M) + %[1]s(w)
	c := arr
	c[0] = 1
	return c, arr[1] > z
}`,
}

// pgLivenessPrograms: two inputs are stored into an array, an element is read back (an alias of part of the array),
// and the three values a, b, y die in every possible order, a fresh value of the same width being computed right
// after each death (the allocator hands it the ids just freed).  Garbage collection must keep an id alive as
// long as any alias of it is.
func pgLivenessPrograms() []string {
	var progs []string
	orders := [][3]string{{"a", "b", "y"}, {"a", "y", "b"}, {"b", "a", "y"}, {"b", "y", "a"}, {"y", "a", "b"}, {"y", "b", "a"}}
	for _, T := range []string{"uint8", "uint32"} {
		for n := 2; n <= 3; n++ {
			for el := 0; el < 2; el++ {
				for _, o := range orders {
					src := fmt.Sprintf("package main\nfunc main(a, b %[1]s) %[1]s {\n\tvar arr [%[2]d]%[1]s\n\tarr[0] = a\n\tarr[%[3]d] = b\n\ty := arr[%[4]d]\n"+
						"\tu1 := (%[5]s + 1) * 3\n\tu2 := (%[6]s ^ u1) + 7\n\tu3 := (%[7]s + u2) * 5\n\treturn u3 - u1\n}\n",
						T, n, n-1, el*(n-1), o[0], o[1], o[2])
					progs = append(progs, src)
				}
			}
		}
	}
	return progs
}

// main with unsized arguments (sizes come from the inputs)
var pgUnsizedTemplates = []string{
	`package main
func main(a []byte, b []byte) ([]byte, byte, int32) {
	var s byte
	for i := 0; i < len(a); i++ {
		s = s + a[i]
	}
	var t byte
	for i := 0; i < len(b); i++ {
		t = t ^ b[i]
	}
	return b, s + t, int32(len(a)) - int32(len(b))
}`,
	`package main
func main(a, b uint) (uint, bool, uint8) {
	c := a + b
	d := (a ^ b) * 3
	return c + d, a > b, uint8(c) & 15
}`,
}

type pgStructTemplate struct {
	src    string
	inputs func(rng *rand.Rand) ([]string, []string)
}

func pgHex(rng *rand.Rand, nbytes int) string {
	s := "0x"
	for i := 0; i < nbytes; i++ {
		s += fmt.Sprintf("%02x", rng.Intn(256))
	}
	return s
}

// main takes and returns structs, arrays of arrays and booleans (compound arguments: one input per member)
var pgStructTemplates = []pgStructTemplate{
	{`package main
type In struct {
	x uint8
	y int16
	f [2]uint8
}
func main(a In, b In) (In, bool, [2]uint8) {
	var r In
	r.x = a.x + b.x
	r.y = a.y - b.y
	r.f[0] = a.f[1]
	r.f[1] = b.f[0] + a.x
	return r, a.y > b.y, b.f
}`, func(rng *rand.Rand) ([]string, []string) {
		one := func() []string {
			return []string{fmt.Sprint(rng.Intn(256)), fmt.Sprint(rng.Intn(65536) - 32768), pgHex(rng, 2)}
		}
		return one(), one()
	}},
	{`package main
type P struct {
	flag bool
	v uint13
}
func main(a P, b [2][2]uint8) ([2][2]uint8, P, uint13) {
	var m [2][2]uint8
	m[0][0] = b[1][1]
	m[0][1] = b[0][1] + uint8(a.v)
	m[1][0] = b[1][0]
	m[1][1] = b[0][0]
	var q P
	q.flag = !a.flag
	q.v = a.v + uint13(b[0][0])
	if a.flag {
		q.v = q.v + 1
	}
	return m, q, q.v * a.v
}`, func(rng *rand.Rand) ([]string, []string) {
		return []string{[]string{"true", "false"}[rng.Intn(2)], fmt.Sprint(rng.Intn(8192))}, []string{pgHex(rng, 4)}
	}},
}

// programs with one huge step circuit (more than 65536 circuit wires while all permanent ids are small)
var pgWideTemplates = []string{
	`package main
func main(a, b uint128) (uint128, uint128) {
	return a / (b | 1), a % (b | 1)
}`,
	`package main
func main(a, b uint160) (uint160, bool) {
	q := a / (b | 3)
	return q * b, q > b
}`,
}

func min(a, b int) int {
	if a < b {
		return a
	}
	return b
}
