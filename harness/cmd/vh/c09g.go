package main

// C09, graph level: gate graphs enumerated by specs/OptGen.tla are built through the public
// circuits.Compiler API and pushed through the real ConstPropagate / ShortCircuitXORZero / Prune /
// Compile under {prune on, off} x {Yao, GMW}; the compiled circuit's truth table must equal the
// truth table of the original graph, and every gate input must be assigned before use.

import (
	"encoding/json"
	"fmt"
	"math/big"

	"github.com/markkurossi/mpc/circuit"
	"github.com/markkurossi/mpc/compiler/circuits"
	"github.com/markkurossi/mpc/compiler/utils"
	"github.com/markkurossi/mpc/types"
)

type ogGate struct {
	Op string `json:"op"`
	A  int    `json:"a"`
	B  int    `json:"b"`
	O  int    `json:"o"`
}

type ogCase struct {
	Nin   int      `json:"nin"`
	Gates []ogGate `json:"gates"`
	Outs  []int    `json:"outs"`
	Table [][]int  `json:"table"`
}

func buildGraph(gc *ogCase, target utils.Target, prune bool) (c *circuit.Circuit, err error) {
	defer func() {
		if x := recover(); x != nil {
			err = fmt.Errorf("panic: %v", x)
		}
	}()
	params := utils.NewParams()
	params.Target = target
	params.OptPruneGates = prune
	calloc := circuits.NewAllocator()
	ins := calloc.Wires(types.Size(gc.Nin))
	wires := map[int]*circuits.Wire{}
	for i, w := range ins {
		wires[i+1] = w
	}
	for _, g := range gc.Gates {
		wires[g.O] = calloc.Wire()
	}
	// circuit outputs are dedicated wires fed through identity gates, as ssa/circuitgen.go creates them
	var outs []*circuits.Wire
	for range gc.Outs {
		o := calloc.Wire()
		o.SetOutput(true)
		outs = append(outs, o)
	}
	io := func(n int, name string) circuit.IO {
		return circuit.IO{circuit.IOArg{Name: name, Type: types.Info{Type: types.TUint, IsConcrete: true, Bits: types.Size(n)}}}
	}
	cc, err := circuits.NewCompiler(params, calloc, io(gc.Nin, "in"), io(len(outs), "out"), ins, outs)
	if err != nil {
		return nil, err
	}
	w := func(id int) *circuits.Wire {
		switch id {
		case 0:
			return cc.ZeroWire()
		case -1:
			return cc.OneWire()
		}
		return wires[id]
	}
	for _, g := range gc.Gates {
		if g.Op == "INV" {
			cc.INV(w(g.A), wires[g.O])
		} else {
			cc.AddGate(calloc.BinaryGate(opOf(g.Op), w(g.A), w(g.B), wires[g.O]))
		}
	}
	for i, o := range gc.Outs {
		cc.ID(w(o), outs[i])
	}
	cc.ConstPropagate()
	cc.ShortCircuitXORZero()
	if prune {
		cc.Prune()
	}
	return cc.Compile(), nil
}

func c09Graphs(args []string) error {
	out, err := newND(args[1])
	if err != nil {
		return err
	}
	defer out.close()
	idx := 0
	nviol := 0
	return readND(args[0], func(raw json.RawMessage) error {
		var gc ogCase
		if err := json.Unmarshal(raw, &gc); err != nil {
			return err
		}
		if nviol >= 8 {
			return nil
		}
		res := &Result{Case: idx, Class: "graph", Nontrivial: len(gc.Gates) >= 2}
		for _, tg := range targets {
			for _, prune := range []bool{false, true} {
				cfg := fmt.Sprintf("%s/prune=%v", tg.name, prune)
				c, err := buildGraph(&gc, tg.t, prune)
				if err != nil {
					res.viol("graph-build:"+cfg, "the passes fail on a graph of %d gates under %s: %v (gates %v outs %v)", len(gc.Gates), cfg, err, gc.Gates, gc.Outs)
					continue
				}
				// Topological: every gate input is an input wire or the output of an earlier gate
				def := map[circuit.Wire]bool{}
				for i := 0; i < gc.Nin; i++ {
					def[circuit.Wire(i)] = true
				}
				for gi, g := range c.Gates {
					if !def[g.Input0] || (g.Op != circuit.INV && !def[g.Input1]) {
						res.viol("not-topological:"+cfg, "compiled gate %d reads a wire that is not assigned yet under %s (gates %v outs %v)", gi, cfg, gc.Gates, gc.Outs)
						break
					}
					def[g.Output] = true
				}
				for i, row := range gc.Table {
					got, err := c.Compute([]*big.Int{big.NewInt(int64(i))})
					if err != nil {
						res.viol("compute-error", "%v", err)
						break
					}
					want := 0
					for j, b := range row {
						want |= b << uint(j)
					}
					if got[0].Cmp(big.NewInt(int64(want))) != 0 {
						res.viol("graph-function-changed:"+cfg, "under %s the compiled circuit maps input %d to %v, the original graph to %d (gates %v outs %v)", cfg, i, got[0], want, gc.Gates, gc.Outs)
						break
					}
				}
			}
		}
		if len(res.Viol) > 0 {
			nviol++
		}
		if idx < 2 {
			res.Sample = gc
		}
		idx++
		out.put(res)
		return nil
	})
}
