package main

func c09Graphs(args []string) error { return nil }
