package main

// C15: malicious-mode OT extension detects a deviating receiver.
//
//   vh c15 run results.ndjson trace.ndjson frac
//       On real IKNPSender/IKNPReceiver pairs (Delta known to the harness) one
//       bit (column, row) of the extension matrix of the payload batch or of
//       the 256-row check batch is flipped in transit, or one bit of the
//       challenge response (seed, x, t0, t1).  Predicted by specs/Kos.tla:
//       the sender aborts iff Delta selects the column (and the row is used);
//       otherwise it finishes and the outputs satisfy the correlation for the
//       receiver's original choices.  Honest runs must be accepted.

import (
	"fmt"
	"math/rand"
	"sync"
	"time"

	"github.com/markkurossi/mpc/ot"
)

func init() { commands["c15"] = c15Main }

type kosEv struct {
	Ev       string `json:"ev"`
	N        int    `json:"n"`
	Where    string `json:"where"` // payload | check | response | none
	Col      int    `json:"col"`
	Row      int    `json:"row"`
	DeltaCol int    `json:"deltacol"`
	Used     int    `json:"used"`
	Accepted int    `json:"accepted"`
	CorrOK   int    `json:"corrok"`
}

// one malicious-mode batch on a fresh pair with an optional flip; returns (accepted, correlation ok)
var c15Pair *iknpPair
var c15PairUses int

// outputs of earlier accepted batches on the current pair (they are the caller's and must stay valid), and what was
// found when a later batch changed them
var c15Earlier []func() string
var c15Changed string

// c15Stalled is set when sender and receiver of a batch did not both return
var c15Stalled bool

// c15Tight: where the 256 check rows sit in the batch's row numbering.  The pinned code sends them as an extension
// batch of their own, after the payload rows padded to a multiple of 8 (FALSE); an implementation may as well run one
// pass over n+256 rows, the check rows directly after the payload rows (TRUE).  Measured once (c15Calibrate): the row
// right after a 1-row payload is either padding (a flip in a selected column is accepted) or the first check row (abort).
var c15Tight bool

func c15CheckBase(n int) int {
	if c15Tight {
		return n
	}
	return (n + 7) / 8 * 8
}

func c15Calibrate(rng *rand.Rand) error {
	for try := 0; try < 4; try++ {
		np, err := newIKNPPair(rng, 1)
		if err != nil {
			return err
		}
		c15Pair, c15PairUses = np, 0
		col := -1
		for c := 0; c < 128; c++ {
			if np.delta.Bit(c) == 1 {
				col = c
				break
			}
		}
		if col < 0 {
			continue
		}
		// global row 1 of a batch with one payload row
		_, acc, _, err := c15Batch(rng, 1, []bool{true}, "payload", col, 1, 0, 0)
		if err != nil {
			return err
		}
		c15Tight = !acc
		return nil
	}
	return nil
}

// c15Second, when set, adds a second flip in the same column to the next tampered batch
var c15Second *struct {
	where string
	row   int
}

// c15Interlude runs an honest batch of another kind on the current pair (packed bits, or labels without the
// consistency check): the malicious-mode batches around it must be unaffected.
func c15Interlude(rng *rand.Rand, kind string) string {
	p := c15Pair
	if p == nil {
		return ""
	}
	p.rIO.tamper, p.rIO.tamperLabel = nil, nil
	n := 70 + rng.Intn(600)
	var wg sync.WaitGroup
	var es, er error
	wg.Add(2)
	if kind == "bits" {
		words := (n + 63) / 64
		go func() { defer wg.Done(); es = p.s.SendBits(n, make([]uint64, words)) }()
		go func() {
			defer wg.Done()
			ch := make([]uint64, words)
			for i := range ch {
				ch[i] = rng.Uint64()
			}
			er = p.r.ReceiveBits(ch, make([]uint64, words), n)
		}()
	} else {
		flags := choicePattern(rand.New(rand.NewSource(rng.Int63())), n, "rand")
		go func() { defer wg.Done(); _, es = p.s.Send(n, false) }()
		go func() { defer wg.Done(); er = p.r.Receive(flags, make([]ot.Label, n), false) }()
	}
	if !waitOrStall(&wg, 60*time.Second) {
		c15Pair = nil
		return "stalls"
	}
	if es != nil || er != nil {
		return fmt.Sprintf("fails: %v / %v", es, er)
	}
	return ""
}

// c15Batch runs one malicious-mode batch with an optional flip.  The pair is reused for many batches: the
// sender reads every chunk before it checks, so the PRG streams stay in lock step also after an abort.
func c15Batch(rng *rand.Rand, n int, flags []bool, where string, col, row int, respIdx, respBit int) (*iknpPair, bool, bool, error) {
	if c15Pair == nil || c15PairUses >= 40 {
		if c15Pair != nil {
			c15Pair.sc.Close()
			c15Pair.rc.Close()
		}
		np, err := newIKNPPair(rng, rng.Intn(2))
		if err != nil {
			return nil, false, false, err
		}
		c15Pair, c15PairUses = np, 0
		c15Earlier = nil
	}
	c15PairUses++
	p := c15Pair
	p.rIO.tamper, p.rIO.tamperLabel = nil, nil
	switch where {
	case "payload", "check":
		// the matrix travels column-major in one or more messages; a message of L bytes carries L/128 byte-rows, i.e.
		// 8*L/128 rows of all 128 columns.  Rows are counted over the whole batch (payload rows first, the 256 check rows
		// from c15CheckBase(n) on), so a flip is located while the messages pass, whatever their sizes are.
		type flip struct{ g, col int }
		global := func(where string, row int) int {
			if where == "check" {
				return c15CheckBase(n) + row
			}
			return row
		}
		flips := []flip{{global(where, row), col}}
		if c15Second != nil {
			// a second flip in the same column (of the payload or of the check batch)
			flips = append(flips, flip{global(c15Second.where, c15Second.row), col})
			c15Second = nil
		}
		p.rIO.mu.Lock()
		base := len(p.rIO.sentData)
		p.rIO.mu.Unlock()
		seen := 0 // rows of this batch that have passed (messages arrive in order)
		next := base
		p.rIO.tamper = func(idx int, b []byte) []byte {
			if idx != next || len(b)%128 != 0 {
				return b
			}
			next++
			br := len(b) / 128
			for _, f := range flips {
				if f.g >= seen && f.g < seen+8*br {
					b[f.col*br+(f.g-seen)/8] ^= 1 << uint((f.g-seen)%8)
				}
			}
			seen += 8 * br
			return b
		}
	case "response":
		p.rIO.mu.Lock()
		lbase := p.rIO.nlabels
		p.rIO.mu.Unlock()
		p.rIO.tamperLabel = func(idx int, l ot.Label) ot.Label {
			if idx == lbase+respIdx {
				if respBit < 64 {
					l.D0 ^= 1 << uint(respBit)
				} else {
					l.D1 ^= 1 << uint(respBit-64)
				}
			}
			return l
		}
	}
	var wg sync.WaitGroup
	var sent []ot.Label
	var es, er error
	recv := make([]ot.Label, n)
	wg.Add(2)
	go func() {
		defer wg.Done()
		sent, es = p.s.Send(n, true)
	}()
	go func() { defer wg.Done(); er = p.r.Receive(flags, recv, true) }()
	if !waitOrStall(&wg, 60*time.Second) {
		// the two parties wait for each other: the pair is unusable, its goroutines are abandoned
		c15Stalled = true
		p.sc.Close()
		p.rc.Close()
		c15Pair = nil
		return p, false, false, nil
	}
	if es != nil {
		return p, false, false, nil
	}
	_ = er
	ok := true
	for j := 0; j < n; j++ {
		want := sent[j]
		if flags[j] {
			want.Xor(p.delta)
		}
		if !recv[j].Equal(want) {
			ok = false
		}
	}
	for _, f := range c15Earlier {
		if msg := f(); msg != "" && c15Changed == "" {
			c15Changed = msg
		}
	}
	if ok {
		delta := p.delta
		c15Earlier = append(c15Earlier, func() string {
			for j := 0; j < n; j++ {
				want := sent[j]
				if flags[j] {
					want.Xor(delta)
				}
				if !recv[j].Equal(want) {
					return fmt.Sprintf("a batch of %d accepted earlier on the same sender: index %d no longer satisfies the correlation", n, j)
				}
			}
			return ""
		})
		if len(c15Earlier) > 6 {
			c15Earlier = c15Earlier[1:]
		}
	}
	return p, true, ok, nil
}

func c15Main(args []string) error {
	if len(args) < 3 || args[0] != "run" {
		return fmt.Errorf("usage: vh c15 run results trace [percent]")
	}
	out, err := newND(args[1])
	if err != nil {
		return err
	}
	defer out.close()
	tr, err := newND(args[2])
	if err != nil {
		return err
	}
	defer tr.close()
	percent := 2.0
	if len(args) > 3 {
		fmt.Sscan(args[3], &percent)
	}
	rng := rand.New(rand.NewSource(seed()*29996224275833 + 15))
	if err := c15Calibrate(rng); err != nil {
		return err
	}
	idx := 0
	nviol := 0
	emit := func(res *Result, ev kosEv) {
		if c15Changed != "" {
			res.viol("outputs-changed-by-later-batch", "%s (after a later Send on that sender)", c15Changed)
			c15Changed = ""
		}
		if c15Stalled {
			c15Stalled = false
			res.viol("stall", "n=%d %s: sender and receiver never both return (neither abort nor finish)", ev.N, ev.Where)
		}
		tr.put(ev)
		if len(res.Viol) > 0 {
			nviol++
		}
		idx++
		out.put(res)
	}
	// honest executions never abort
	for _, n := range []int{1, 8, 9, 129, 512, 513, 1024, 1025, 1100, 2049} {
		for _, pat := range []string{"rand", "ones", "firstchunk"} {
			res := &Result{Case: idx, Class: "honest", Nontrivial: n > 1024}
			inter := map[string]string{"ones": "bits", "firstchunk": "labels"}[pat]
			if inter != "" {
				// a batch of packed bits / of labels without the check on the same pair in between
				if d := c15Interlude(rng, inter); d != "" {
					res.viol("honest-abort:interlude", "an honest %s batch between malicious-mode batches %s", inter, d)
				}
				res.Class = "honest-after-" + inter
			}
			_, acc, ok, err := c15Batch(rng, n, choicePattern(rng, n, pat), "none", 0, 0, 0, 0)
			if err != nil {
				return err
			}
			if !acc {
				res.viol("honest-abort", "an honest malicious-mode execution aborts (n=%d, choices %s, after a %s batch on the pair)", n, pat, inter)
			} else if !ok {
				res.viol("correlation:labels", "honest malicious-mode execution n=%d: outputs violate the correlation", n)
			}
			emit(res, kosEv{Ev: "run", N: n, Where: "none", Accepted: b2i(acc), CorrOK: b2i(ok), Used: 1})
		}
	}
	afterAbort := 0
	// single flips
	for _, n := range []int{1, 8, 9, 129} {
		flags := choicePattern(rng, n, "rand")
		for _, where := range []string{"payload", "check"} {
			rows := ((n + 7) / 8) * 8
			if where == "check" {
				rows = 256
			}
			for col := 0; col < 128; col++ {
				for row := 0; row < rows; row++ {
					if rng.Float64()*100 >= percent && !(col < 2 && row == 0) && !(col == 127 && row == rows-1) {
						continue
					}
					if nviol >= 6 {
						return nil
					}
					res := &Result{Case: idx, Class: "flip:" + where, Nontrivial: true}
					p, acc, ok, err := c15Batch(rng, n, flags, where, col, row, 0, 0)
					if err != nil {
						return err
					}
					dcol := int(p.delta.Bit(col))
					// a payload-side row beyond n is padding - unless the check rows follow the payload directly
					used := 1
					if where == "payload" && row >= n && !(c15Tight && row < n+256) {
						used = 0
					}
					expectAbort := dcol == 1 && used == 1
					switch {
					case acc && !ok:
						res.viol("accepted-inconsistent", "n=%d: flip of bit (column %d, row %d) of the %s matrix is accepted although the outputs no longer satisfy the correlation (Delta selects the column: %v)", n, col, row, where, dcol == 1)
					case acc && expectAbort:
						res.viol("accepted-inconsistent", "n=%d: flip of bit (column %d, row %d) of the %s matrix, in a column Delta selects, is silently accepted", n, col, row, where)
					case !acc && !expectAbort:
						res.drift("n=%d: flip (column %d, row %d, %s) aborts although Delta does not select the column / the row is unused", n, col, row, where)
					}
					emit(res, kosEv{Ev: "run", N: n, Where: where, Col: col, Row: row, DeltaCol: dcol, Used: used, Accepted: b2i(acc), CorrOK: b2i(ok)})
					if !acc && afterAbort < 12 {
						// an honest execution right after an aborted one, on the same sender and receiver
						afterAbort++
						r2 := &Result{Case: idx, Class: "honest-after-abort", Nontrivial: true}
						hn := 8 + rng.Intn(9)
						_, acc2, ok2, err := c15Batch(rng, hn, choicePattern(rng, hn, "rand"), "none", 0, 0, 0, 0)
						if err != nil {
							return err
						}
						if c15Stalled {
							c15Stalled = false
							r2.viol("honest-abort:after-abort", "an honest malicious-mode execution never finishes (sender and receiver wait for each other) when it follows an aborted one on the same sender/receiver (n=%d before)", n)
						} else if !acc2 {
							r2.viol("honest-abort:after-abort", "an honest malicious-mode execution aborts when it follows an aborted one on the same sender/receiver (n=%d before)", n)
						} else if !ok2 {
							r2.viol("correlation:labels", "honest execution after an aborted one: outputs violate the correlation")
						}
						emit(r2, kosEv{Ev: "run", N: hn, Where: "none", Accepted: b2i(acc2), CorrOK: b2i(ok2), Used: 1})
					}
				}
			}
		}
		// alterations of the challenge response: seed, x, t0, t1
		for ri := 0; ri < 4; ri++ {
			for k := 0; k < 3; k++ {
				bit := rng.Intn(128)
				res := &Result{Case: idx, Class: "flip:response", Nontrivial: true}
				_, acc, ok, err := c15Batch(rng, n, flags, "response", 0, 0, ri, bit)
				if err != nil {
					return err
				}
				if acc {
					res.viol("accepted-altered-response", "n=%d: the sender accepts although bit %d of response label %d (seed,x,t0,t1) was altered (correlation ok: %v)", n, bit, ri, ok)
				}
				emit(res, kosEv{Ev: "run", N: n, Where: "response", Col: ri, Row: bit, DeltaCol: 1, Used: 1, Accepted: b2i(acc), CorrOK: b2i(ok)})
			}
		}
	}
	// batches beyond one block of the challenge stream (1024 rows): flips in late payload rows, in the last row, in
	// the row where a block begins, in columns on both sides of the 64-bit word boundary
	for _, n := range []int{1024, 1100, 2048, 2049} {
		flags := choicePattern(rng, n, "rand")
		rows := []int{0, n / 2, n - 600, n - 1, 1023}
		if n > 1025 {
			rows = append(rows, 1024, 1025, 1024+rng.Intn(n-1024))
		}
		for _, row := range rows {
			if row < 0 || row >= n {
				continue
			}
			for _, col := range []int{0, 1, 63, 64, 127, rng.Intn(128), rng.Intn(128), rng.Intn(128)} {
				if nviol >= 6 {
					return nil
				}
				res := &Result{Case: idx, Class: "flip:payload:late-row", Nontrivial: true}
				p, acc, ok, err := c15Batch(rng, n, flags, "payload", col, row, 0, 0)
				if err != nil {
					return err
				}
				dcol := int(p.delta.Bit(col))
				switch {
				case acc && !ok:
					res.viol("accepted-inconsistent", "n=%d: flip of bit (column %d, row %d) of the payload matrix is accepted although the outputs no longer satisfy the correlation (Delta selects the column: %v)", n, col, row, dcol == 1)
				case acc && dcol == 1:
					res.viol("accepted-inconsistent", "n=%d: flip of bit (column %d, row %d) of the payload matrix, in a column Delta selects, is silently accepted", n, col, row)
				case !acc && dcol == 0:
					res.drift("n=%d: flip (column %d, row %d) aborts although Delta does not select the column", n, col, row)
				}
				emit(res, kosEv{Ev: "run", N: n, Where: "payload", Col: col, Row: row, DeltaCol: dcol, Used: 1, Accepted: b2i(acc), CorrOK: b2i(ok)})
			}
		}
	}
	// two flips in one column whose challenge coefficients would coincide if the challenge stream restarted: payload
	// row i with check row i, and payload rows one challenge block (1024 rows) apart
	type pairCase struct {
		n, row int
		where2 string
		row2   int
	}
	var pcs []pairCase
	for _, n := range []int{8, 129, 1100} {
		for _, i := range []int{0, 5, 127} {
			if i < n {
				pcs = append(pcs, pairCase{n, i, "check", i})
			}
		}
	}
	for _, n := range []int{1100, 2049, 2100} {
		for _, i := range []int{0, 17, n - 1025} {
			pcs = append(pcs, pairCase{n, i, "payload", i + 1024})
		}
	}
	for _, pc := range pcs {
		flags := choicePattern(rng, pc.n, "rand")
		for _, col := range []int{0, 1, 64, 127, rng.Intn(128), rng.Intn(128)} {
			if nviol >= 6 {
				return nil
			}
			res := &Result{Case: idx, Class: "flip:pair:" + pc.where2, Nontrivial: true}
			c15Second = &struct {
				where string
				row   int
			}{pc.where2, pc.row2}
			p, acc, ok, err := c15Batch(rng, pc.n, flags, "payload", col, pc.row, 0, 0)
			if err != nil {
				return err
			}
			dcol := int(p.delta.Bit(col))
			switch {
			case acc && !ok:
				res.viol("accepted-inconsistent", "n=%d: flips of (column %d, payload row %d) and (column %d, %s row %d) together are accepted although the outputs no longer satisfy the correlation (Delta selects the column: %v)", pc.n, col, pc.row, col, pc.where2, pc.row2, dcol == 1)
			case acc && dcol == 1:
				res.viol("accepted-inconsistent", "n=%d: flips of (column %d, payload row %d) and (column %d, %s row %d), in a column Delta selects, are silently accepted", pc.n, col, pc.row, col, pc.where2, pc.row2)
			case !acc && dcol == 0:
				res.drift("n=%d: two flips in column %d abort although Delta does not select the column", pc.n, col)
			}
			emit(res, kosEv{Ev: "run", N: pc.n, Where: "payload", Col: col, Row: pc.row, DeltaCol: dcol, Used: 1, Accepted: b2i(acc), CorrOK: b2i(ok)})
		}
	}
	return nil
}

func b2i(b bool) int {
	if b {
		return 1
	}
	return 0
}
