package main

// C02: both parties of the two-party protocol obtain f(x, y).
//
//   vh c02 replay cases.ndjson results.ndjson trace.ndjson
//       sessions enumerated by specs/TwoPartyGen.tla are run on the real
//       circuit.Garbler / circuit.Evaluator with every OT flavour over a
//       fragmenting transport; observations are also written as a trace for
//       specs/TwoPartyTrace.tla.
//   vh c02 programs results.ndjson n
//       compiled MPCL programs (multi-output, odd widths) run as sessions and
//       compared with Circuit.Compute.

import (
	"encoding/json"
	"fmt"
	"math/big"
	"math/rand"
	"strings"
	"sync"

	"github.com/markkurossi/mpc/circuit"
	"github.com/markkurossi/mpc/compiler"
	"github.com/markkurossi/mpc/compiler/utils"
)

func init() { commands["c02"] = c02Main }

type tpCase struct {
	Nin      int     `json:"nin"`
	N0       int     `json:"n0"`
	Nout     int     `json:"nout"`
	Gates    []gGate `json:"gates"`
	Inp      []int   `json:"inp"`
	Expected []int   `json:"expected"`
	PreOT    int     `json:"preot"`
}

// mkTwoParty builds the two-party circuit of a case: the garbler owns wires
// [0,n0), the evaluator [n0,nin); the last nout wires are outputs, declared as
// one or two output values so that IO.Split is exercised.
func mkTwoParty(tc *tpCase) (*circuit.Circuit, []int) {
	c := &circuit.Circuit{
		NumGates: len(tc.Gates),
		NumWires: tc.Nin + len(tc.Gates),
		Inputs:   circuit.IO{ioBits("g", tc.N0), ioBits("e", tc.Nin-tc.N0)},
	}
	widths := []int{tc.Nout}
	if tc.Nout >= 2 {
		widths = []int{1, tc.Nout - 1}
	}
	for i, w := range widths {
		c.Outputs = append(c.Outputs, ioBits(fmt.Sprintf("o%d", i), w))
	}
	for i, g := range tc.Gates {
		c.Gates = append(c.Gates, circuit.Gate{
			Input0: circuit.Wire(g.A), Input1: circuit.Wire(g.B), Output: circuit.Wire(tc.Nin + i), Op: opOf(g.Op),
		})
	}
	return c, widths
}

func splitBits(bits []int, widths []int) []*big.Int {
	var out []*big.Int
	off := 0
	for _, w := range widths {
		out = append(out, bitsToBig(bits[off:off+w]))
		off += w
	}
	return out
}

func sameBigs(a, b []*big.Int) bool {
	if len(a) != len(b) {
		return false
	}
	for i := range a {
		if a[i].Cmp(b[i]) != 0 {
			return false
		}
	}
	return true
}

// checkSession compares one fault-free session with the expected outputs.
func checkSession(res *Result, sr *sessResult, want []*big.Int, kind, what string) {
	if len(what) > 300 {
		what = what[:300] + "..."
	}
	if sr.stalled {
		res.viol("stall:"+kind, "%s: session over %s OT does not terminate", what, kind)
		return
	}
	if sr.gPanic != "" || sr.ePanic != "" {
		res.viol("panic:"+kind, "%s: panic garbler=%q evaluator=%q", what, sr.gPanic, sr.ePanic)
		return
	}
	if sr.gErr != nil || sr.eErr != nil {
		res.viol("error:"+kind, "%s: %s OT: garbler error %v, evaluator error %v", what, kind, sr.gErr, sr.eErr)
		return
	}
	if !sameBigs(sr.gOut, want) {
		res.viol("wrong:garbler:"+kind, "%s: garbler returns %v, plain evaluation gives %v (%s OT)", what, sr.gOut, want, kind)
	}
	if !sameBigs(sr.eOut, want) {
		res.viol("wrong:evaluator:"+kind, "%s: evaluator returns %v, plain evaluation gives %v (%s OT)", what, sr.eOut, want, kind)
	}
}

var c02Programs = []string{
	`package main
func main(a, b uint7) (uint7, bool, uint3) {
	return a * b, a > b, uint3(a ^ b)
}`,
	`package main
func main(a int5, b int9) (int9, int5) {
	if a > 3 {
		return b - int9(a), a
	}
	return b + 1, -a
}`,
	`package main
func main(a uint1, b uint13) (uint13, uint1) {
	var r uint13 = b
	for i := 0; i < 3; i++ {
		r = r<<1 | uint13(a)
	}
	return r, a & uint1(b)
}`,
	`package main
func main(a [3]uint4, b [3]uint4) (uint4, uint6) {
	var s uint6
	var m uint4
	for i := 0; i < 3; i++ {
		s = s + uint6(a[i]) + uint6(b[i])
		if a[i] > m {
			m = a[i]
		}
	}
	return m, s
}`,
	`package main
func main(a, b int33) (bool, int33, int33) {
	return a == b, a / (b | 1), a % (b | 1)
}`,
	// wide inputs: the evaluator's input crosses the OT extension's block and chunk sizes
	`package main
func main(a [140]byte, b [140]byte) (byte, uint16) {
	var x byte
	var s uint16
	for i := 0; i < 140; i++ {
		x = x ^ a[i] ^ b[i]
		s = s + uint16(b[i])
	}
	return x, s
}`,
	`package main
func main(a uint64, b [65]uint64) (uint64, bool) {
	var x uint64 = a
	for i := 0; i < 65; i++ {
		x = x ^ b[i]
	}
	return x, b[64] > a
}`,
	// more than 4096 input bits on the garbler's side and more than 4096 output bits: label batches beyond one
	// connection buffer (4096 labels are 64 KiB)
	`package main
func main(a [520]byte, b [8]byte) ([516]byte, byte) {
	var r [516]byte
	for i := 0; i < 516; i++ {
		r[i] = a[i] ^ b[i%8]
	}
	return r, a[519] + b[0]
}`,
}

func compileMPCL(src string, params *utils.Params) (*circuit.Circuit, error) {
	if params == nil {
		params = utils.NewParams()
	}
	params.MPCLCErrorLoc = false
	c, _, err := compiler.New(params).Compile(src, nil)
	return c, err
}

func c02Main(args []string) error {
	if len(args) < 2 {
		return fmt.Errorf("usage: vh c02 replay|programs ...")
	}
	rng := rand.New(rand.NewSource(seed()*32452843 + 2))
	kinds := []string{"co", "cot", "cotm", "rsa"}
	switch args[0] {
	case "replay":
		out, err := newND(args[2])
		if err != nil {
			return err
		}
		defer out.close()
		tr, err := newND(args[3])
		if err != nil {
			return err
		}
		defer tr.close()
		idx := 0
		nviol := 0
		ntrace := 0
		return readND(args[1], func(raw json.RawMessage) error {
			var tc tpCase
			if err := json.Unmarshal(raw, &tc); err != nil {
				return err
			}
			if nviol >= 5 {
				return nil
			}
			res := &Result{Case: idx}
			circ, widths := mkTwoParty(&tc)
			want := splitBits(tc.Expected, widths)
			x := bitsToBig(tc.Inp[:tc.N0])
			y := bitsToBig(tc.Inp[tc.N0:])
			ks := []string{kinds[idx%3]}
			if idx%40 == 7 {
				ks = append(ks, "rsa")
			}
			if thorough() {
				ks = []string{"co", "cot", "cotm"}
				if idx%25 == 7 {
					ks = append(ks, "rsa")
				}
			}
			for _, k := range ks {
				sr := runWhole(circ, x, y, sessOpts{ot: k, fragment: rng, randSeed: uint64(seed())<<32 + uint64(idx), corruptAt: -1})
				what := fmt.Sprintf("n0=%d n1=%d nout=%d gates=%v x=%v y=%v", tc.N0, tc.Nin-tc.N0, tc.Nout, tc.Gates, x, y)
				checkSession(res, sr, want, k, what)
				if len(res.Viol) == 0 && ntrace < 400 && k != "rsa" {
					// observations for TwoPartyTrace.tla
					cnt := -1
					if len(sr.otG.sent) == 1 {
						cnt = len(sr.otG.sent[0])
					}
					gbits := make([]int, tc.Nout)
					off := 0
					for i, w := range widths {
						for b := 0; b < w; b++ {
							gbits[off+b] = int(sr.gOut[i].Bit(b))
						}
						off += w
					}
					ebits := make([]int, tc.Nout)
					off = 0
					for i, w := range widths {
						for b := 0; b < w; b++ {
							ebits[off+b] = int(sr.eOut[i].Bit(b))
						}
						off += w
					}
					tr.put(map[string]interface{}{"ev": "sess", "nin": tc.Nin, "n0": tc.N0, "nout": tc.Nout, "gates": tc.Gates, "inp": tc.Inp})
					tr.put(map[string]interface{}{"ev": "end", "otcount": cnt, "otcalls": len(sr.otG.sent), "gout": gbits, "eout": ebits})
					ntrace++
				}
			}
			res.Nontrivial = len(tc.Gates) >= 2 && tc.N0 > 0 && tc.N0 < tc.Nin
			res.Class = strings.Join(ks, "+")
			if idx < 2 {
				res.Sample = tc
			}
			if len(res.Viol) > 0 {
				nviol++
			}
			idx++
			out.put(res)
			return nil
		})
	case "programs":
		out, err := newND(args[1])
		if err != nil {
			return err
		}
		defer out.close()
		n := 20
		if len(args) > 2 {
			fmt.Sscan(args[2], &n)
		}
		nbad := 0
		for i := 0; i < n && nbad < 4; i++ {
			src := c02Programs[i%len(c02Programs)]
			circ, err := compileMPCL(src, nil)
			if err != nil {
				return fmt.Errorf("compile program %d: %v", i%len(c02Programs), err)
			}
			res := &Result{Case: i, Nontrivial: true}
			n0 := int(circ.Inputs[0].Type.Bits)
			n1 := int(circ.Inputs[1].Type.Bits)
			x := new(big.Int).Rand(rng, new(big.Int).Lsh(big.NewInt(1), uint(n0)))
			y := new(big.Int).Rand(rng, new(big.Int).Lsh(big.NewInt(1), uint(n1)))
			switch rng.Intn(4) {
			case 0:
				x = new(big.Int).Sub(new(big.Int).Lsh(big.NewInt(1), uint(n0)), big.NewInt(1))
			case 2:
				// top bits set on both sides
				x.SetBit(x, n0-1, 1)
				if n1 > 0 {
					y.SetBit(y, n1-1, 1)
				}
			case 1:
				y = big.NewInt(0)
			}
			// an input may arrive as a negative number (IOArg.Parse("-5") yields one): its two's complement bits are
			// the wire values, exactly as for the non-negative number with the same low bits
			xin, yin := x, y
			if n0 > 0 && x.Bit(n0-1) == 1 && rng.Intn(2) == 0 {
				xin = new(big.Int).Sub(x, new(big.Int).Lsh(big.NewInt(1), uint(n0)))
			}
			if n1 > 0 && y.Bit(n1-1) == 1 && rng.Intn(2) == 0 {
				yin = new(big.Int).Sub(y, new(big.Int).Lsh(big.NewInt(1), uint(n1)))
			}
			// Compute takes one value per flattened argument: split x and y per argument
			var ins []*big.Int
			for ai, val := range []*big.Int{x, y} {
				io := circ.Inputs[ai]
				if len(io.Compound) == 0 {
					ins = append(ins, val)
					continue
				}
				off := 0
				for _, m := range io.Compound {
					v := new(big.Int).Rsh(val, uint(off))
					v.And(v, new(big.Int).Sub(new(big.Int).Lsh(big.NewInt(1), uint(m.Type.Bits)), big.NewInt(1)))
					ins = append(ins, v)
					off += int(m.Type.Bits)
				}
			}
			want, err := circ.Compute(ins)
			if err != nil {
				return fmt.Errorf("Compute: %v", err)
			}
			// the plain evaluator, too, reads a negative number as its two's complement bits (C01: "the library's own
			// plain evaluator returns those same bits")
			if len(circ.Inputs[0].Compound) == 0 && len(circ.Inputs[1].Compound) == 0 && (xin != x || yin != y) {
				w2, err := circ.Compute([]*big.Int{xin, yin})
				if err != nil || !sameBigs(w2, want) {
					res.viol("compute:negative-representation", "program %d: Compute(%v, %v) = %v (%v), Compute(%v, %v) = %v: the same input bits", i%len(c02Programs), xin, yin, w2, err, x, y, want)
				}
			}
			k := kinds[i%4]
			if k == "rsa" && n1 > 200 {
				k = "cotm"
			}
			if i%3 == 2 {
				// several sessions run concurrently on ONE shared *circuit.Circuit value
				var wg sync.WaitGroup
				srs := make([]*sessResult, 6)
				for j := range srs {
					j := j
					o := sessOpts{ot: kinds[j%3], randSeed: uint64(seed())<<32 + uint64(i*100+j) + 77777, corruptAt: -1, fragment: rand.New(rand.NewSource(rng.Int63()))}
					wg.Add(1)
					go func() {
						defer wg.Done()
						srs[j] = runWhole(circ, xin, yin, o)
					}()
				}
				wg.Wait()
				for j, sr := range srs {
					checkSession(res, sr, want, "shared-circuit:"+kinds[j%3], fmt.Sprintf("program %d, 6 concurrent sessions on one circuit value, x=%v y=%v", i%len(c02Programs), x, y))
				}
				res.Class = "program:shared-circuit"
				if len(res.Viol) > 0 {
					nbad++
				}
				out.put(res)
				continue
			}
			sr := runWhole(circ, xin, yin, sessOpts{ot: k, fragment: rng, randSeed: uint64(seed())<<32 + uint64(i) + 99999, corruptAt: -1})
			checkSession(res, sr, want, k, fmt.Sprintf("program %d x=%v y=%v", i%len(c02Programs), x, y))
			res.Class = "program:" + k
			if len(res.Viol) > 0 {
				nbad++
			}
			out.put(res)
		}
		return nil
	}
	return fmt.Errorf("unknown c02 mode")
}
