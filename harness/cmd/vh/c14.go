package main

// C14: circuit files round-trip; parsers reject malformed files gracefully.
//
//   vh c14 replay cases.ndjson results.ndjson
//       files of specs/CircFile.tla (declared counts, I/O sizes, gate records with arbitrary fields) with the
//       modelled parser's verdict: each is serialised in the native and the Bristol format and given to
//       the real parser; the outcome must be the model's, an accepted file must parse to the same
//       circuit and marshal back to the same bytes.
//   vh c14 roundtrip results.ndjson
//       circuits with rich signatures (names, types, compound members; headers longer than the parser's
//       buffer; INV-only; compiled MPCL programs): Marshal / Parse / Marshal.
//   vh c14 mutate results.ndjson n
//       truncation, extension, bit flips and field splices of valid files: error or a well-formed circuit,
//       never a crash or a hang.

import (
	"bytes"
	"encoding/binary"
	"encoding/json"
	"fmt"
	"math/rand"
	"strings"
	"time"

	"github.com/markkurossi/mpc/circuit"
	"github.com/markkurossi/mpc/types"
)

func init() { commands["c14"] = c14Main }

type absRec struct {
	Op string `json:"op"`
	A  int    `json:"a"`
	B  int    `json:"b"`
	O  int    `json:"o"`
}

type absFile struct {
	Ng   int      `json:"ng"`
	Nw   int      `json:"nw"`
	Ins  []int    `json:"ins"`
	Outs []int    `json:"outs"`
	Recs []absRec `json:"recs"`
}

type c14Case struct {
	File   absFile `json:"file"`
	Status string  `json:"status"`
	Wf     bool    `json:"wf"`
}

func opCode(op string) circuit.Operation {
	switch op {
	case "XOR":
		return circuit.XOR
	case "XNOR":
		return circuit.XNOR
	case "AND":
		return circuit.AND
	case "OR":
		return circuit.OR
	}
	return circuit.INV
}

func putU32(b *bytes.Buffer, v uint32) { binary.Write(b, binary.BigEndian, v) }
func putStr(b *bytes.Buffer, s string) {
	putU32(b, uint32(len(s)))
	b.WriteString(s)
}

func nativeBytes(f absFile) []byte {
	var b bytes.Buffer
	putU32(&b, circuit.MAGIC)
	putU32(&b, uint32(f.Ng))
	putU32(&b, uint32(f.Nw))
	putU32(&b, uint32(len(f.Ins)))
	putU32(&b, uint32(len(f.Outs)))
	for i, s := range f.Ins {
		putStr(&b, fmt.Sprintf("NI%d", i+1))
		putStr(&b, fmt.Sprintf("uint%d", s))
		putU32(&b, uint32(s))
		putU32(&b, 0)
	}
	for i, s := range f.Outs {
		putStr(&b, fmt.Sprintf("NO%d", i+1))
		putStr(&b, fmt.Sprintf("uint%d", s))
		putU32(&b, uint32(s))
		putU32(&b, 0)
	}
	for _, r := range f.Recs {
		b.WriteByte(byte(opCode(r.Op)))
		putU32(&b, uint32(r.A))
		if r.Op != "INV" {
			putU32(&b, uint32(r.B))
		}
		putU32(&b, uint32(r.O))
	}
	return b.Bytes()
}

func bristolBytes(f absFile) []byte {
	var b bytes.Buffer
	fmt.Fprintf(&b, "%d %d\n", f.Ng, f.Nw)
	fmt.Fprintf(&b, "%d", len(f.Ins))
	for _, s := range f.Ins {
		fmt.Fprintf(&b, " %d", s)
	}
	fmt.Fprintf(&b, "\n%d", len(f.Outs))
	for _, s := range f.Outs {
		fmt.Fprintf(&b, " %d", s)
	}
	fmt.Fprintf(&b, "\n\n")
	for _, r := range f.Recs {
		if r.Op == "INV" {
			fmt.Fprintf(&b, "1 1 %d %d INV\n", r.A, r.O)
		} else {
			fmt.Fprintf(&b, "2 1 %d %d %d %s\n", r.A, r.B, r.O, r.Op)
		}
	}
	return b.Bytes()
}

type parseOutcome struct {
	status string // accepted, rejected, crashed, hang
	circ   *circuit.Circuit
	detail string
}

func parseGuarded(format string, data []byte) parseOutcome {
	ch := make(chan parseOutcome, 1)
	go func() {
		var out parseOutcome
		defer func() {
			if x := recover(); x != nil {
				out = parseOutcome{status: "crashed", detail: fmt.Sprint(x)}
			}
			ch <- out
		}()
		var c *circuit.Circuit
		var err error
		if format == "bristol" {
			c, err = circuit.ParseBristol(bytes.NewReader(data))
		} else {
			c, err = circuit.ParseMPCLC(bytes.NewReader(data))
		}
		if err != nil {
			out = parseOutcome{status: "rejected", detail: err.Error()}
		} else {
			out = parseOutcome{status: "accepted", circ: c}
		}
	}()
	select {
	case o := <-ch:
		return o
	case <-time.After(10 * time.Second):
		return parseOutcome{status: "hang", detail: "no result after 10 s"}
	}
}

// wellFormed: every gate input is defined before use, every wire assigned, counts consistent.
func wellFormed(c *circuit.Circuit) string {
	if len(c.Gates) != c.NumGates {
		return fmt.Sprintf("%d gates, NumGates %d", len(c.Gates), c.NumGates)
	}
	if c.NumWires < 0 || c.Inputs.Size() > c.NumWires {
		return fmt.Sprintf("%d input wires, NumWires %d", c.Inputs.Size(), c.NumWires)
	}
	seen := make([]bool, c.NumWires)
	for i := 0; i < c.Inputs.Size(); i++ {
		seen[i] = true
	}
	for i, g := range c.Gates {
		ins := []circuit.Wire{g.Input0}
		if g.Op != circuit.INV {
			ins = append(ins, g.Input1)
		}
		for _, w := range ins {
			if int(w) >= c.NumWires || !seen[w] {
				return fmt.Sprintf("gate %d reads wire %d before it is defined", i, w)
			}
		}
		if int(g.Output) >= c.NumWires {
			return fmt.Sprintf("gate %d writes wire %d of %d", i, g.Output, c.NumWires)
		}
		seen[g.Output] = true
	}
	for w, s := range seen {
		if !s {
			return fmt.Sprintf("wire %d never assigned", w)
		}
	}
	return ""
}

func sameSig(a, b circuit.IO, withNames bool) string {
	if len(a) != len(b) {
		return fmt.Sprintf("%d arguments, %d after the round trip", len(a), len(b))
	}
	for i := range a {
		if a[i].Type.Bits != b[i].Type.Bits {
			return fmt.Sprintf("argument %d has %d bits, %d after the round trip", i, a[i].Type.Bits, b[i].Type.Bits)
		}
		if !withNames {
			continue
		}
		if a[i].Name != b[i].Name {
			return fmt.Sprintf("argument %d is named %.40q, %.40q after the round trip", i, a[i].Name, b[i].Name)
		}
		if a[i].Type.String() != b[i].Type.String() {
			return fmt.Sprintf("argument %d has type %s, %s after the round trip", i, a[i].Type, b[i].Type)
		}
		if d := sameSig(a[i].Compound, b[i].Compound, true); d != "" {
			return fmt.Sprintf("argument %d member: %s", i, d)
		}
	}
	return ""
}

func sameCircuit(a, b *circuit.Circuit, withNames bool) string {
	if a.NumGates != b.NumGates || a.NumWires != b.NumWires {
		return fmt.Sprintf("counts (%d gates, %d wires) became (%d, %d)", a.NumGates, a.NumWires, b.NumGates, b.NumWires)
	}
	if len(a.Gates) != len(b.Gates) {
		return fmt.Sprintf("%d gates became %d", len(a.Gates), len(b.Gates))
	}
	for i := range a.Gates {
		ga, gb := a.Gates[i], b.Gates[i]
		if ga.Op != gb.Op || ga.Input0 != gb.Input0 || ga.Output != gb.Output || (ga.Op != circuit.INV && ga.Input1 != gb.Input1) {
			return fmt.Sprintf("gate %d %v became %v", i, ga, gb)
		}
	}
	if d := sameSig(a.Inputs, b.Inputs, withNames); d != "" {
		return "inputs: " + d
	}
	if d := sameSig(a.Outputs, b.Outputs, withNames); d != "" {
		return "outputs: " + d
	}
	return ""
}

func marshalGuarded(c *circuit.Circuit, format string) (data []byte, err error) {
	defer func() {
		if x := recover(); x != nil {
			err = fmt.Errorf("panic: %v", x)
		}
	}()
	var b bytes.Buffer
	err = c.MarshalFormat(&b, format)
	return b.Bytes(), err
}

// roundTrip: Marshal, Parse, compare, Marshal again.
func roundTrip(res *Result, c *circuit.Circuit, what string) {
	for _, format := range []string{"mpclc", "bristol"} {
		if format == "bristol" && c.Inputs.Size() == 0 {
			continue
		}
		data, err := marshalGuarded(c, format)
		if err != nil {
			res.viol("marshal-error:"+format, "%s: Marshal fails: %v", what, err)
			continue
		}
		o := parseGuarded(format, data)
		if o.status != "accepted" {
			res.viol("roundtrip-"+o.status+":"+format, "%s: the parser does not read back what Marshal wrote (%d bytes): %s", what, len(data), o.detail)
			continue
		}
		if d := sameCircuit(c, o.circ, format == "mpclc"); d != "" {
			res.viol("roundtrip-differs:"+format, "%s: %s", what, d)
			continue
		}
		again, err := marshalGuarded(o.circ, format)
		if err != nil || !bytes.Equal(again, data) {
			res.viol("roundtrip-bytes:"+format, "%s: writing the parsed circuit again gives different bytes (%v)", what, err)
		}
	}
}

// a small valid circuit over the given signature: every output wire driven, every wire assigned
func circuitFor(inputs, outputs circuit.IO, rng *rand.Rand, extra int, invOnly bool) *circuit.Circuit {
	ni, no := inputs.Size(), outputs.Size()
	c := &circuit.Circuit{Inputs: inputs, Outputs: outputs}
	next := ni
	ops := []circuit.Operation{circuit.XOR, circuit.XNOR, circuit.AND, circuit.OR, circuit.INV}
	pick := func() circuit.Wire { return circuit.Wire(rng.Intn(next)) }
	add := func() {
		op := ops[rng.Intn(len(ops))]
		if invOnly {
			op = circuit.INV
		}
		g := circuit.Gate{Op: op, Input0: pick(), Output: circuit.Wire(next)}
		if op != circuit.INV {
			g.Input1 = pick()
		}
		c.Gates = append(c.Gates, g)
		c.Stats[op]++
		next++
	}
	if ni == 0 {
		return nil
	}
	for i := 0; i < extra+no; i++ {
		add()
	}
	c.NumGates = len(c.Gates)
	c.NumWires = next
	return c
}

func tinfo(t types.Type, bits int) types.Info {
	return types.Info{Type: t, IsConcrete: true, Bits: types.Size(bits), MinBits: types.Size(bits)}
}

func sliceInfo(n int, el types.Info) types.Info {
	t := arrInfo(n, el)
	t.Type = types.TSlice
	return t
}

func arrInfo(n int, el types.Info) types.Info {
	e := el
	return types.Info{Type: types.TArray, IsConcrete: true, Bits: types.Size(n) * el.Bits, MinBits: types.Size(n) * el.Bits, ElementType: &e, ArraySize: types.Size(n)}
}

// signatures of growing richness; idx selects deterministically
func signature(rng *rand.Rand, idx int) (circuit.IO, circuit.IO, string) {
	names := []string{"a", "", "x_1", "päivää", "g", strings.Repeat("n", 300)}
	scal := []types.Info{tinfo(types.TUint, 8), tinfo(types.TInt, 3), types.Bool, tinfo(types.TUint, 1), tinfo(types.TInt, 64), tinfo(types.TUint, 130),
		tinfo(types.TString, 16)}
	mk := func(n int) circuit.IO {
		var io circuit.IO
		for i := 0; i < n; i++ {
			var t types.Info
			var comp circuit.IO
			switch rng.Intn(5) {
			case 0, 1:
				t = scal[rng.Intn(len(scal))]
			case 2:
				t = arrInfo(rng.Intn(4), scal[rng.Intn(5)])
				if rng.Intn(2) == 0 {
					t = sliceInfo(rng.Intn(4), scal[rng.Intn(5)])
				}
			case 3:
				t = arrInfo(1+rng.Intn(2), arrInfo(1+rng.Intn(3), scal[rng.Intn(5)]))
			default: // struct with flattened members
				nm := 1 + rng.Intn(4)
				bits := 0
				for j := 0; j < nm; j++ {
					mt := scal[rng.Intn(len(scal))]
					if rng.Intn(3) == 0 {
						mt = arrInfo(1+rng.Intn(3), scal[rng.Intn(5)])
					}
					comp = append(comp, circuit.IOArg{Name: names[rng.Intn(len(names))], Type: mt})
					bits += int(mt.Bits)
				}
				t = tinfo(types.TStruct, bits)
			}
			io = append(io, circuit.IOArg{Name: names[rng.Intn(len(names))], Type: t, Compound: comp})
		}
		return io
	}
	switch idx % 16 {
	case 13, 5: // so many arguments that the Bristol inputs / outputs line is longer than a reader's buffer
		many := func(n int, pfx string) circuit.IO {
			var io circuit.IO
			for j := 0; j < n; j++ {
				io = append(io, circuit.IOArg{Name: fmt.Sprintf("%s%d", pfx, j), Type: tinfo(types.TUint, 1+rng.Intn(2))})
			}
			return io
		}
		// every fourth of these has more than 32768 arguments (a header line beyond 64 KiB)
		big := 0
		if idx%64 >= 48 {
			big = 31000
		}
		if idx%16 == 13 {
			return many(2050+big+rng.Intn(700), "i"), mk(1), "many-inputs"
		}
		return many(2, "i"), many(2050+big+rng.Intn(700), "o"), "many-outputs"
	}
	switch idx % 8 {
	case 6: // a header longer than the parser's 4096-byte buffer: a struct argument with many fields
		var comp circuit.IO
		bits := 0
		n := 150 + rng.Intn(200)
		for j := 0; j < n; j++ {
			mt := scal[rng.Intn(5)]
			comp = append(comp, circuit.IOArg{Name: fmt.Sprintf("field%03d", j), Type: mt})
			bits += int(mt.Bits)
		}
		in := circuit.IO{{Name: "s", Type: tinfo(types.TStruct, bits), Compound: comp}, {Name: "b", Type: tinfo(types.TUint, 8)}}
		return in, mk(1), "long-header"
	case 7: // one name longer than the buffer
		in := circuit.IO{{Name: strings.Repeat("k", 4000+rng.Intn(3000)), Type: tinfo(types.TUint, 4)}, {Name: "b", Type: tinfo(types.TUint, 8)}}
		return in, mk(1), "long-name"
	}
	in := mk(1 + rng.Intn(3))
	if in.Size() == 0 {
		in = append(in, circuit.IOArg{Name: "z", Type: tinfo(types.TUint, 2)})
	}
	return in, mk(1 + rng.Intn(2)), "mixed"
}

func validFile(rng *rand.Rand) ([]byte, string) {
	in, out, _ := signature(rng, rng.Intn(5))
	c := circuitFor(in, out, rng, rng.Intn(12), rng.Intn(8) == 0)
	format := "mpclc"
	if rng.Intn(3) == 0 {
		format = "bristol"
	}
	data, err := marshalGuarded(c, format)
	if err != nil {
		return nil, format
	}
	return data, format
}

func mutateBytes(rng *rand.Rand, data []byte, format string) ([]byte, string) {
	d := append([]byte{}, data...)
	switch k := rng.Intn(7); k {
	case 6: // a digit of a type string or a Bristol number replaced by another digit
		var pos []int
		for i, c := range d {
			if c >= '0' && c <= '9' {
				pos = append(pos, i)
			}
		}
		if len(pos) > 0 {
			d[pos[rng.Intn(len(pos))]] = byte('0' + rng.Intn(10))
		}
		return d, "digit"
	case 0: // truncation
		if len(d) == 0 {
			return d, "truncate"
		}
		return d[:rng.Intn(len(d))], "truncate"
	case 1: // extension: a copy of the tail, or junk
		if rng.Intn(2) == 0 && len(d) > 13 {
			n := 1 + rng.Intn(26)
			if n > len(d) {
				n = len(d)
			}
			return append(d, d[len(d)-n:]...), "extend-tail"
		}
		junk := make([]byte, 1+rng.Intn(20))
		rng.Read(junk)
		return append(d, junk...), "extend-junk"
	case 2, 3: // bit flips
		n := 1 + rng.Intn(3)
		for i := 0; i < n && len(d) > 0; i++ {
			p := rng.Intn(len(d))
			d[p] ^= 1 << uint(rng.Intn(8))
		}
		return d, "bitflip"
	case 4: // field splice: copy one 4-byte field over another (native), one token over another (Bristol)
		if format == "mpclc" {
			if len(d) < 12 {
				return d, "splice"
			}
			a, b := rng.Intn(len(d)-4), rng.Intn(len(d)-4)
			copy(d[b:b+4], data[a:a+4])
			return d, "splice"
		}
		toks := strings.Fields(string(d))
		if len(toks) < 4 {
			return d, "splice"
		}
		lines := strings.Split(string(d), "\n")
		li := rng.Intn(len(lines))
		f := strings.Fields(lines[li])
		if len(f) > 0 {
			f[rng.Intn(len(f))] = toks[rng.Intn(len(toks))]
			lines[li] = strings.Join(f, " ")
		}
		return []byte(strings.Join(lines, "\n")), "splice"
	default: // small declared counts replaced by boundary values
		if format == "mpclc" && len(d) >= 20 {
			vals := []uint32{0, 1, 2, 0x7fffffff, 0xffffffff, 1000000, 65536}
			binary.BigEndian.PutUint32(d[4*(1+rng.Intn(4)):], vals[rng.Intn(len(vals))])
			return d, "count"
		}
		s := string(d)
		repl := []string{"0", "-1", "1000000", "99999999999999999999", "x", ""}
		toks := strings.Fields(s)
		if len(toks) > 0 {
			t := toks[rng.Intn(minInt(len(toks), 8))]
			s = strings.Replace(s, t, repl[rng.Intn(len(repl))], 1)
		}
		return []byte(s), "count"
	}
}

func minInt(a, b int) int {
	if a < b {
		return a
	}
	return b
}

// declared sizes above a million are outside the property.  For the native format the header is walked field by
// field, as the format defines it (gate, wire, input and output counts; per argument: name length, type length,
// bit size, compound member count, recursively): a mutation that lands on any of these and declares more than
// 10^6 makes the parser allocate that much before it can notice that the file is short.
func oversize(format string, d []byte) bool {
	const limit = 1000000
	if format == "mpclc" {
		if len(d) < 20 {
			return false
		}
		for i := 1; i <= 4; i++ {
			if binary.BigEndian.Uint32(d[4*i:]) > limit {
				return true
			}
		}
		off := 20
		u32 := func() (uint32, bool) {
			if off+4 > len(d) {
				return 0, false
			}
			v := binary.BigEndian.Uint32(d[off:])
			off += 4
			return v, true
		}
		big := false
		var arg func(depth int) bool // false: end of data (or oversize found)
		arg = func(depth int) bool {
			for k := 0; k < 2; k++ { // name, type
				n, ok := u32()
				if !ok {
					return false
				}
				if n > limit {
					big = true
					return false
				}
				if off+int(n) > len(d) {
					return false
				}
				off += int(n)
			}
			bits, ok := u32()
			if !ok {
				return false
			}
			if bits > limit {
				big = true
				return false
			}
			cnt, ok := u32()
			if !ok {
				return false
			}
			if cnt > limit {
				big = true
				return false
			}
			if depth > 64 {
				return false
			}
			for i := 0; i < int(cnt); i++ {
				if !arg(depth + 1) {
					return false
				}
			}
			return true
		}
		nargs := int(binary.BigEndian.Uint32(d[12:])) + int(binary.BigEndian.Uint32(d[16:]))
		for i := 0; i < nargs; i++ {
			if !arg(0) {
				break
			}
		}
		return big
	}
	f := strings.Fields(string(d))
	for i := 0; i < len(f) && i < 2; i++ {
		if len(f[i]) > 7 {
			return true
		}
	}
	return false
}

func c14Main(args []string) error {
	if len(args) < 2 {
		return fmt.Errorf("usage: vh c14 replay|roundtrip|mutate ...")
	}
	rng := rand.New(rand.NewSource(seed()*2654435761 + 14))
	switch args[0] {
	case "replay":
		out, err := newND(args[2])
		if err != nil {
			return err
		}
		defer out.close()
		format := "mpclc"
		if len(args) > 3 {
			format = args[3]
		}
		idx := 0
		return readND(args[1], func(raw json.RawMessage) error {
			var c c14Case
			if err := json.Unmarshal(raw, &c); err != nil {
				return err
			}
			res := &Result{Case: idx, Nontrivial: len(c.File.Recs) >= 2, Class: format + ":" + c.Status}
			idx++
			var data []byte
			if format == "bristol" {
				data = bristolBytes(c.File)
			} else {
				data = nativeBytes(c.File)
			}
			o := parseGuarded(format, data)
			desc := fmt.Sprintf("%s file ng=%d nw=%d ins=%v recs=%v", format, c.File.Ng, c.File.Nw, c.File.Ins, c.File.Recs)
			switch {
			case o.status == "crashed" || o.status == "hang":
				res.viol("parser-"+o.status+":"+format, "%s: %s", desc, o.detail)
			case o.status == "accepted" && !c.Wf:
				res.viol("accepts-illformed:"+format, "%s is accepted although it is not a well-formed circuit", desc)
			case o.status == "rejected" && c.Wf:
				res.viol("rejects-wellformed:"+format, "%s is a well-formed circuit but the parser rejects it: %s", desc, o.detail)
			case o.status != c.Status:
				res.drift("%s: the real parser says %s, CircFile.tla says %s", desc, o.status, c.Status)
			}
			if o.status == "accepted" {
				if d := wellFormed(o.circ); d != "" {
					res.viol("accepted-circuit-illformed:"+format, "%s: %s", desc, d)
				}
				if o.circ.NumGates != c.File.Ng || o.circ.NumWires != c.File.Nw || len(o.circ.Gates) != len(c.File.Recs) {
					res.viol("parsed-differs:"+format, "%s: parsed as %d gates, %d wires", desc, o.circ.NumGates, o.circ.NumWires)
				} else {
					for i, r := range c.File.Recs {
						g := o.circ.Gates[i]
						if g.Op != opCode(r.Op) || int(g.Input0) != r.A || int(g.Output) != r.O || (r.Op != "INV" && int(g.Input1) != r.B) {
							res.viol("parsed-differs:"+format, "%s: gate %d parsed as %v", desc, i, g)
							break
						}
					}
				}
				again, err := marshalGuarded(o.circ, format)
				if err != nil || !bytes.Equal(again, data) {
					res.viol("roundtrip-bytes:"+format, "%s: writing the parsed circuit again gives different bytes (%v)", desc, err)
				}
			}
			if idx <= 2 {
				res.Sample = map[string]interface{}{"file": c.File, "model": c.Status, "parser": o.status}
			}
			out.put(res)
			return nil
		})
	case "roundtrip":
		out, err := newND(args[1])
		if err != nil {
			return err
		}
		defer out.close()
		n := 200
		if len(args) > 2 {
			fmt.Sscan(args[2], &n)
		}
		for i := 0; i < n; i++ {
			in, outs, kind := signature(rng, i)
			c := circuitFor(in, outs, rng, rng.Intn(20), i%5 == 4)
			res := &Result{Case: i, Nontrivial: true, Class: kind}
			roundTrip(res, c, fmt.Sprintf("%s signature %d (%d inputs, %d outputs, %d gates)", kind, i, len(in), len(outs), c.NumGates))
			out.put(res)
		}
		// compiled programs: natural signatures incl. struct and array arguments
		for i, src := range c14Programs {
			res := &Result{Case: n + i, Nontrivial: true, Class: "compiled"}
			c, err := compileMPCL(src, nil)
			if err != nil {
				res.Class = "rejected"
				res.drift("c14 program %d does not compile: %v", i, err)
			} else {
				roundTrip(res, c, fmt.Sprintf("compiled program %d", i))
			}
			out.put(res)
		}
		return nil
	case "mutate":
		out, err := newND(args[1])
		if err != nil {
			return err
		}
		defer out.close()
		n := 2000
		if len(args) > 2 {
			fmt.Sscan(args[2], &n)
		}
		for i := 0; i < n; i++ {
			data, format := validFile(rng)
			if data == nil {
				continue
			}
			mut, kind := mutateBytes(rng, data, format)
			res := &Result{Case: i, Nontrivial: true}
			if oversize(format, mut) {
				res.Class = "oversize"
				out.put(res)
				continue
			}
			o := parseGuarded(format, mut)
			res.Class = kind + ":" + o.status
			switch o.status {
			case "crashed", "hang":
				res.viol("parser-"+o.status+":"+format+":"+kind, "%s of a valid %s file (%d -> %d bytes): %s\nbytes: %x", kind, format, len(data), len(mut), o.detail, clipBytes(mut, 400))
			case "accepted":
				if d := wellFormed(o.circ); d != "" {
					res.viol("accepted-circuit-illformed:"+format+":"+kind, "%s of a valid %s file is accepted but %s\nbytes: %x", kind, format, d, clipBytes(mut, 400))
				}
			}
			out.put(res)
		}
		return nil
	}
	return fmt.Errorf("unknown c14 mode")
}

func clipBytes(b []byte, n int) []byte {
	if len(b) > n {
		return b[:n]
	}
	return b
}

var c14Programs = []string{
	`package main

type Point struct {
	X int16
	Y int16
	Tag [3]uint8
}

func main(a Point, b [4]uint8) (int16, [2]uint8, bool) {
	return a.X + a.Y, b[0:2], a.Tag[0] == b[3]
}
`,
	`package main

func main(a, b uint64) (uint64, uint1) {
	return a * b, uint1(a ^ b)
}
`,
	`package main

type Pair struct {
	L [2]int8
	R bool
}

func main(g Pair, e Pair) Pair {
	if e.R {
		return g
	}
	return e
}
`,
}
