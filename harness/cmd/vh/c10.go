package main

// C10: GMW: every party outputs f(inputs); dealt triples are valid.
//
//   vh c10 run trace.ndjson results.ndjson nruns
//       real gmw.CreateNetwork/JoinNetwork/Connect/Run over loopback TCP for
//       2..5 parties on circuits compiled for the GMW target (many AND levels,
//       batch sizes that are and are not multiples of 64), with random start
//       delays.  The AND-batch hook records every party's shares; they are
//       checked in full here and, for sampled bit positions, written as
//       events for specs/GmwTrace.tla.
//   vh c10 pool results.ndjson nruns
//       TriplePool.Get called with an identical count sequence at every party.

import (
	"fmt"
	"math/big"
	"math/rand"
	"sort"
	"strings"
	"sync"
	"sync/atomic"
	"time"

	"github.com/markkurossi/mpc/circuit"
	"github.com/markkurossi/mpc/compiler/utils"
	"github.com/markkurossi/mpc/gmw"
)

func init() { commands["c10"] = c10Main }

type gmwBitEv struct {
	Ev    string `json:"ev"` // batch | bit | out | reset
	Batch int    `json:"batch"`
	N     int    `json:"n"`
	Pos   int    `json:"pos"`
	P     int    `json:"p"`
	X     []int  `json:"x"`
	Y     []int  `json:"y"`
	A     []int  `json:"a"`
	B     []int  `json:"b"`
	C     []int  `json:"c"`
	D     []int  `json:"d"`
	E     []int  `json:"e"`
	Z     []int  `json:"z"`
	DO    []int  `json:"dopen"`
	EO    []int  `json:"eopen"`
	OK    int    `json:"ok"`
}

func gmwProgram(rng *rand.Rand, n int) (string, []int) {
	widths := []int{3, 7, 8, 13, 16, 31}
	w := widths[rng.Intn(len(widths))]
	var args []string
	for i := 0; i < n; i++ {
		args = append(args, fmt.Sprintf("p%d", i))
	}
	body := []string{}
	acc := "p0"
	for i := 1; i < n; i++ {
		switch rng.Intn(4) {
		case 0:
			acc = fmt.Sprintf("(%s * p%d)", acc, i)
		case 1:
			acc = fmt.Sprintf("(%s + p%d)", acc, i)
		case 2:
			acc = fmt.Sprintf("((%s & p%d) * p%d)", acc, i, (i+1)%n)
		default:
			acc = fmt.Sprintf("(%s * p%d + p0)", acc, i)
		}
	}
	body = append(body, fmt.Sprintf("\tr := %s", acc))
	second := fmt.Sprintf("p%d > p0", n-1)
	src := fmt.Sprintf("package main\n\nfunc main(%s uint%d) (uint%d, bool) {\n%s\n\treturn r, %s\n}\n",
		strings.Join(args, ", "), w, w, strings.Join(body, "\n"), second)
	bits := make([]int, n)
	for i := range bits {
		bits[i] = w
	}
	return src, bits
}

// a program with an AND level of exactly 64*k gates: k parallel 8-bit ANDs
func gmwAligned(n, k int) (string, []int) {
	var args []string
	for i := 0; i < n; i++ {
		args = append(args, fmt.Sprintf("p%d", i))
	}
	w := 64 * k
	src := fmt.Sprintf("package main\n\nfunc main(%s uint%d) (uint%d, uint%d) {\n\tx := p0 & p1\n\ty := x & p%d\n\treturn x, y | p0\n}\n",
		strings.Join(args, ", "), w, w, w, n-1)
	bits := make([]int, n)
	for i := range bits {
		bits[i] = w
	}
	return src, bits
}

// AND levels larger than the first offline batch (4096 triples): Get spans batches
func gmwBigLevel(n int) (string, []int) {
	var args []string
	for i := 0; i < n; i++ {
		args = append(args, fmt.Sprintf("p%d", i))
	}
	src := fmt.Sprintf(`package main

func main(%s [650]uint8) ([650]uint8, uint8) {
	var x [650]uint8
	for i := 0; i < 650; i++ {
		x[i] = p0[i] & p1[i]
	}
	var y [650]uint8
	for i := 0; i < 650; i++ {
		y[i] = x[i] & p%d[(i+1)%%650]
	}
	var z [650]uint8
	for i := 0; i < 650; i++ {
		z[i] = y[i] & p0[(i+7)%%650]
	}
	var s uint8
	for i := 0; i < 650; i++ {
		s = s ^ z[i]
	}
	return z, s
}
`, strings.Join(args, ", "), n-1)
	bits := make([]int, n)
	for i := range bits {
		bits[i] = 650 * 8
	}
	return src, bits
}

type gmwJob struct {
	circ   *circuit.Circuit
	inputs []*big.Int
}

type gmwRun struct {
	outs   [][]*big.Int
	more   [][][]*big.Int // outputs of the further circuits run on the same network: job -> party -> values
	incomp []string       // parties whose Connect returned without both connections to every other party
	errs   []error
	events map[int]map[int]gmw.VerifAndBatch // batch -> party -> event
}

var gmwHookMu sync.Mutex

func runGMW(circ *circuit.Circuit, inputs []*big.Int, rng *rand.Rand, timeout time.Duration, stagger bool, more ...gmwJob) (*gmwRun, error) {
	n := len(inputs)
	addrs, err := freePorts(n)
	if err != nil {
		return nil, err
	}
	r := &gmwRun{outs: make([][]*big.Int, n), errs: make([]error, n), events: map[int]map[int]gmw.VerifAndBatch{}}
	r.more = make([][][]*big.Int, len(more))
	for j := range r.more {
		r.more[j] = make([][]*big.Int, n)
	}
	var firstDone int32
	var emu sync.Mutex
	gmwHookMu.Lock()
	defer gmwHookMu.Unlock()
	gmw.VerifAndBatchHook = func(ev gmw.VerifAndBatch) {
		if atomic.LoadInt32(&firstDone) != 0 {
			return // batches of the further circuits are not recorded (batch numbers start again)
		}
		emu.Lock()
		if r.events[ev.Batch] == nil {
			r.events[ev.Batch] = map[int]gmw.VerifAndBatch{}
		}
		r.events[ev.Batch][ev.Party] = ev
		emu.Unlock()
	}
	defer func() { gmw.VerifAndBatchHook = nil }()
	nets := make([]*gmw.Network, n)
	nets[0], err = gmw.CreateNetwork(addrs[0], n)
	if err != nil {
		return nil, err
	}
	delays := make([]time.Duration, n)
	for i := range delays {
		delays[i] = time.Duration(rng.Intn(3000)) * time.Microsecond
	}
	runDelays := make([]time.Duration, n)
	if stagger || rng.Intn(3) == 0 {
		for i := range runDelays {
			runDelays[i] = time.Duration(rng.Intn(200)) * time.Millisecond
		}
		// one party enters the online phase at once, another one late
		runDelays[rng.Intn(n)] = 0
		runDelays[rng.Intn(n)] = 250 * time.Millisecond
	}
	lateHello := -1
	if stagger || rng.Intn(3) == 0 {
		lateHello = 1 + rng.Intn(n-1)
	}
	var wg sync.WaitGroup
	var jmu sync.Mutex
	var jerr error
	for p := 0; p < n; p++ {
		p := p
		wg.Add(1)
		go func() {
			defer wg.Done()
			defer func() {
				if x := recover(); x != nil {
					r.errs[p] = fmt.Errorf("panic: %v", x)
				}
			}()
			time.Sleep(delays[p])
			if p > 0 {
				nw, err := gmw.JoinNetwork(addrs[0], addrs[p], p)
				if err != nil {
					jmu.Lock()
					jerr = err
					jmu.Unlock()
					return
				}
				jmu.Lock()
				nets[p] = nw
				jmu.Unlock()
			}
			nw := nets[p]
			// one joiner has opened its connection to the leader (Join) but says hello (Connect) only later: the
			// leader's single accept loop waits on that silent connection while the others are queued behind it
			if p > 0 && p == lateHello {
				time.Sleep(300 * time.Millisecond)
			}
			if err := nw.Connect([]int{int(circ.Inputs[p].Type.Bits)}); err != nil {
				r.errs[p] = fmt.Errorf("Connect: %v", err)
				return
			}
			// GmwNet.tla Complete: when Connect has returned, the party holds the online and the offline connection
			// with every other party
			vps := nw.VerifPeers()
			okc := len(vps) == n-1
			for _, vp := range vps {
				if !vp.Online || !vp.Offline {
					okc = false
				}
			}
			if !okc {
				jmu.Lock()
				r.incomp = append(r.incomp, fmt.Sprintf("party %d of %d: Connect returned with the connection table %+v", p, n, vps))
				jmu.Unlock()
			}
			// parties enter the online phase at different points of the offline phase
			time.Sleep(runDelays[p])
			out, err := nw.Run(inputs[p], circ, false)
			r.outs[p], r.errs[p] = out, err
			// further circuits on the same, already used network
			for j := 0; j < len(more) && err == nil; j++ {
				atomic.StoreInt32(&firstDone, 1)
				out, err = nw.Run(more[j].inputs[p], more[j].circ, false)
				r.more[j][p] = out
				if err != nil {
					r.errs[p] = fmt.Errorf("circuit %d on the same network: %v", j+2, err)
				}
			}
			if err == nil {
				if err := nw.Close(); err != nil {
					r.errs[p] = fmt.Errorf("Close: %v", err)
				}
			}
		}()
	}
	ok := withTimeout(timeout, wg.Wait)
	if !ok {
		for _, nw := range nets {
			if nw != nil {
				nw := nw
				go nw.Close()
			}
		}
		return r, fmt.Errorf("stall")
	}
	if jerr != nil {
		return nil, jerr
	}
	return r, nil
}

func wordBit(w []uint64, i int) int {
	if i/64 >= len(w) {
		return 0
	}
	return int(w[i/64] >> uint(i%64) & 1)
}

// checkBatches verifies every recorded AND batch in full and emits sampled bits.
func checkBatches(res *Result, r *gmwRun, n int, rng *rand.Rand, tr *ndWriter) {
	var batches []int
	for b := range r.events {
		batches = append(batches, b)
	}
	sort.Ints(batches)
	for _, b := range batches {
		evs := r.events[b]
		if len(evs) != n {
			res.viol("batch-missing", "AND batch %d was evaluated by %d of %d parties", b, len(evs), n)
			continue
		}
		N := evs[0].N
		words := (N + 63) / 64
		for p := 1; p < n; p++ {
			if evs[p].N != N {
				res.viol("batch-size", "AND batch %d has %d gates at party 0 and %d at party %d", b, N, evs[p].N, p)
				return
			}
		}
		bad := ""
		for w := 0; w < words && bad == ""; w++ {
			var xa, xb, xc, xd, xe, xz, xx, xy uint64
			for p := 0; p < n; p++ {
				e := evs[p]
				xa ^= e.A[w]
				xb ^= e.B[w]
				xc ^= e.C[w]
				xd ^= e.D[w]
				xe ^= e.E[w]
				xz ^= e.Z[w]
				xx ^= e.X[w]
				xy ^= e.Y[w]
			}
			mask := ^uint64(0)
			if w == words-1 && N%64 != 0 {
				mask = (uint64(1) << uint(N%64)) - 1
			}
			switch {
			case xa&xb != xc:
				bad = fmt.Sprintf("triple word %d of batch %d is invalid: (xor a)&(xor b) != xor c", w, b)
				res.viol("triple-invalid", "%s (%d parties, %d gates)", bad, n, N)
			case (xz^(xx&xy))&mask != 0:
				bad = fmt.Sprintf("AND batch %d word %d: xor of output shares != (xor x)&(xor y)", b, w)
				res.viol("and-wrong", "%s (%d parties, %d gates)", bad, n, N)
			}
			for p := 0; p < n && bad == ""; p++ {
				if evs[p].DOpen[w] != xd || evs[p].EOpen[w] != xe {
					bad = fmt.Sprintf("AND batch %d word %d: party %d opened d/e differ from the xor of all parties' d/e", b, w, p)
					res.viol("open-wrong", "%s", bad)
				}
			}
		}
		if tr == nil {
			continue
		}
		// sampled bit positions for TLC: boundaries plus random ones
		pos := map[int]bool{0: true, N - 1: true}
		for _, q := range []int{63, 64, 65, N - 2, 127, 128} {
			if q >= 0 && q < N {
				pos[q] = true
			}
		}
		for k := 0; k < 4; k++ {
			pos[rng.Intn(N)] = true
		}
		var ps []int
		for q := range pos {
			ps = append(ps, q)
		}
		sort.Ints(ps)
		for _, q := range ps {
			ev := gmwBitEv{Ev: "bit", Batch: b, N: N, Pos: q, P: n, OK: 1}
			for p := 0; p < n; p++ {
				e := evs[p]
				ev.X = append(ev.X, wordBit(e.X, q))
				ev.Y = append(ev.Y, wordBit(e.Y, q))
				ev.A = append(ev.A, wordBit(e.A, q))
				ev.B = append(ev.B, wordBit(e.B, q))
				ev.C = append(ev.C, wordBit(e.C, q))
				ev.D = append(ev.D, wordBit(e.D, q))
				ev.E = append(ev.E, wordBit(e.E, q))
				ev.Z = append(ev.Z, wordBit(e.Z, q))
				ev.DO = append(ev.DO, wordBit(e.DOpen, q))
				ev.EO = append(ev.EO, wordBit(e.EOpen, q))
			}
			tr.put(ev)
		}
	}
}

func c10Main(args []string) error {
	if len(args) < 3 {
		return fmt.Errorf("usage: vh c10 run trace results n")
	}
	rng := rand.New(rand.NewSource(seed()*715225739 + 10))
	switch args[0] {
	case "run":
		tr, err := newND(args[1])
		if err != nil {
			return err
		}
		defer tr.close()
		out, err := newND(args[2])
		if err != nil {
			return err
		}
		defer out.close()
		nruns := 8
		if len(args) > 3 {
			fmt.Sscan(args[3], &nruns)
		}
		nviol := 0
		for i := 0; i < nruns && nviol < 4; i++ {
			n := 2 + i%4
			var src string
			var bits []int
			if i%4 == 3 {
				src, bits = gmwAligned(n, 1+rng.Intn(2))
			} else if i%8 == 1 {
				n = 3 + rng.Intn(2)
				src, bits = gmwBigLevel(n)
			} else if i%8 == 5 {
				// one AND level that needs more triples than the pool ever holds at rest (4160 words)
				n = 2
				w := 266240 + 64*(1+rng.Intn(60))
				src = fmt.Sprintf("package main\n\nfunc main(a, b uint%d) (uint%d, uint64) {\n\tc := a & b\n\treturn c, uint64(c) & uint64(a)\n}\n", w, w)
				bits = []int{w, w}
			} else {
				src, bits = gmwProgram(rng, n)
			}
			params := utils.NewParams()
			params.Target = utils.TargetGMW
			circ, err := compileMPCL(src, params)
			if err != nil {
				return fmt.Errorf("compile for GMW: %v\n%s", err, src)
			}
			circ.AssignLevels(utils.TargetGMW)
			res := &Result{Case: i, Nontrivial: n >= 3, Class: fmt.Sprintf("parties=%d", n)}
			inputs := make([]*big.Int, n)
			for p := range inputs {
				max := new(big.Int).Lsh(big.NewInt(1), uint(bits[p]))
				switch rng.Intn(4) {
				case 0:
					inputs[p] = new(big.Int).Sub(max, big.NewInt(1))
				default:
					inputs[p] = new(big.Int).Rand(rng, max)
				}
			}
			want, err := circ.Compute(inputs)
			if err != nil {
				return err
			}
			// a network is reused: a second circuit with the same argument sizes, then the first circuit again with
			// other inputs, on the network the first run used
			var more []gmwJob
			var moreWant [][]*big.Int
			if i%4 == 2 || i%4 == 0 && i > 0 {
				ts := make([]string, n)
				for p := range ts {
					ts[p] = fmt.Sprintf("a%d uint%d", p, bits[p])
				}
				expr := "a0"
				for p := 1; p < n; p++ {
					expr = fmt.Sprintf("((%s & uint%d(a%d)) | (%s >> 1)) + uint%d(a%d)", expr, bits[0], p, expr, bits[0], p)
				}
				src2 := fmt.Sprintf("package main\n\nfunc main(%s) (uint%d, bool) {\n\tr := %s\n\treturn r, r > a0\n}\n", strings.Join(ts, ", "), bits[0], expr)
				p2 := utils.NewParams()
				p2.Target = utils.TargetGMW
				circ2, err := compileMPCL(src2, p2)
				if err != nil {
					return fmt.Errorf("compile for GMW: %v\n%s", err, src2)
				}
				circ2.AssignLevels(utils.TargetGMW)
				for _, c := range []*circuit.Circuit{circ2, circ} {
					in := make([]*big.Int, n)
					for p := range in {
						in[p] = new(big.Int).Rand(rng, new(big.Int).Lsh(big.NewInt(1), uint(bits[p])))
					}
					w, err := c.Compute(in)
					if err != nil {
						return err
					}
					more = append(more, gmwJob{circ: c, inputs: in})
					moreWant = append(moreWant, w)
				}
			}
			r, err := runGMW(circ, inputs, rng, 60*time.Second, i%8 == 1, more...)
			if err != nil && err.Error() == "stall" {
				res.viol("stall", "GMW run with %d parties does not terminate", n)
			} else if err != nil {
				return err
			}
			if len(res.Viol) == 0 {
				for _, m := range r.incomp {
					res.viol("formation-incomplete", "%s", m)
				}
				for p := 0; p < n; p++ {
					if r.errs[p] != nil {
						res.viol("error", "party %d of %d: %v", p, n, r.errs[p])
					} else if !sameBigs(r.outs[p], want) {
						res.viol("wrong-output", "party %d of %d returns %v, plain evaluation gives %v (inputs %v)", p, n, r.outs[p], want, inputs)
					} else {
						for j := range more {
							if !sameBigs(r.more[j][p], moreWant[j]) {
								res.viol("wrong-output:reused-network", "circuit %d run on the same network: party %d of %d returns %v, plain evaluation gives %v", j+2, p, n, r.more[j][p], moreWant[j])
								break
							}
						}
					}
				}
				if i > 0 {
					tr.put(gmwBitEv{Ev: "reset", X: []int{}, Y: []int{}, A: []int{}, B: []int{}, C: []int{}, D: []int{}, E: []int{}, Z: []int{}, DO: []int{}, EO: []int{}})
				}
				if i%8 != 5 {
					checkBatches(res, r, n, rng, tr)
				}
				res.Sample = map[string]interface{}{"parties": n, "and_batches": len(r.events), "gates": circ.NumGates, "src": src}
			}
			if len(res.Viol) > 0 {
				nviol++
			}
			out.put(res)
		}
		return nil
	}
	if args[0] == "pool" {
		// every party calls TriplePool.Get with the same count sequence at its own pace
		out, err := newND(args[1])
		if err != nil {
			return err
		}
		defer out.close()
		nruns := 2
		fmt.Sscan(args[2], &nruns)
		for it := 0; it < nruns; it++ {
			n := 2 + rng.Intn(3)
			res := &Result{Case: it, Nontrivial: true, Class: fmt.Sprintf("pool:parties=%d", n)}
			counts := []int{1, 63, 64, 65, 4095, 4097, 5000, 1, 9000, 100, 70000, 64, 130000, 7, 8193}
			for k := 0; k < 10; k++ {
				counts = append(counts, 1+rng.Intn(20000))
			}
			addrs, err := freePorts(n)
			if err != nil {
				return err
			}
			nets := make([]*gmw.Network, n)
			if nets[0], err = gmw.CreateNetwork(addrs[0], n); err != nil {
				return err
			}
			got := make([][]*gmw.Triples, n)
			errs := make([]error, n)
			var wg sync.WaitGroup
			var mu sync.Mutex
			for p := 0; p < n; p++ {
				p := p
				prng := rand.New(rand.NewSource(rng.Int63()))
				wg.Add(1)
				go func() {
					defer wg.Done()
					if p > 0 {
						nw, err := gmw.JoinNetwork(addrs[0], addrs[p], p)
						if err != nil {
							errs[p] = err
							return
						}
						mu.Lock()
						nets[p] = nw
						mu.Unlock()
					}
					if err := nets[p].Connect([]int{8}); err != nil {
						errs[p] = err
						return
					}
					// party 0 (leader) is fast, the last party is slow, the others are random
					slow := p == n-1 || (p > 0 && prng.Intn(3) == 0)
					for _, c := range counts {
						if slow && c > 4096 {
							// let the offline phase run ahead: this party finds the pool well filled
							time.Sleep(time.Duration(30+prng.Intn(40)) * time.Millisecond)
						}
						t := new(gmw.Triples)
						nets[p].Pool.Get(c, t)
						w := (c + 63) / 64
						got[p] = append(got[p], &gmw.Triples{Words: t.Words, A: append([]uint64(nil), t.A[:w]...), B: append([]uint64(nil), t.B[:w]...), C: append([]uint64(nil), t.C[:w]...)})
						if slow {
							time.Sleep(time.Duration(prng.Intn(4000)) * time.Microsecond)
						} else if prng.Intn(4) == 0 {
							time.Sleep(time.Duration(prng.Intn(300)) * time.Microsecond)
						}
					}
				}()
			}
			if !withTimeout(90*time.Second, wg.Wait) {
				res.viol("stall", "TriplePool.Get does not return at some party (%d parties)", n)
			}
			for p := 0; p < n && len(res.Viol) == 0; p++ {
				if errs[p] != nil {
					return fmt.Errorf("party %d: %v", p, errs[p])
				}
			}
			for gi := range counts {
				if len(res.Viol) > 0 {
					break
				}
				w := (counts[gi] + 63) / 64
				for k := 0; k < w; k++ {
					var xa, xb, xc uint64
					for p := 0; p < n; p++ {
						xa ^= got[p][gi].A[k]
						xb ^= got[p][gi].B[k]
						xc ^= got[p][gi].C[k]
					}
					if xa&xb != xc {
						res.viol("triple-invalid", "Get #%d (count %d) word %d: the words the %d parties obtained are not shares of one valid triple ((xor a)&(xor b) != xor c)", gi, counts[gi], k, n)
						break
					}
				}
			}
			for _, nw := range nets {
				if nw != nil {
					nw := nw
					withTimeout(5*time.Second, func() { nw.Close() })
				}
			}
			out.put(res)
		}
		return nil
	}
	return fmt.Errorf("unknown c10 mode")
}
