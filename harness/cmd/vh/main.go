// Command vh is the conformance harness that binds the TLA+ specifications
// under /verif/specs to the real markkurossi/mpc packages.
package main

import (
	"encoding/json"
	"fmt"
	"os"
	"strconv"
	"sync"
	"time"
)

type cmdFunc func(args []string) error

var commands = map[string]cmdFunc{}

func seed() int64 {
	s, err := strconv.ParseInt(os.Getenv("VERIF_SEED"), 10, 64)
	if err != nil {
		return 1
	}
	return s
}

func thorough() bool { return os.Getenv("VERIF_TIER") == "thorough" }

// Finding is one property-level disagreement between the real code and
// the specification.
type Finding struct {
	Key  string `json:"key"`
	What string `json:"what"`
}

// Result is one line of harness output.
type Result struct {
	Case       int         `json:"case"`
	Viol       []Finding   `json:"viol,omitempty"`
	Drift      []string    `json:"drift,omitempty"`
	Nontrivial bool        `json:"nontrivial"`
	Class      string      `json:"class,omitempty"`
	Sample     interface{} `json:"sample,omitempty"`
}

func (r *Result) viol(key, format string, a ...interface{}) {
	r.Viol = append(r.Viol, Finding{Key: key, What: fmt.Sprintf(format, a...)})
}
func (r *Result) drift(format string, a ...interface{}) {
	if len(r.Drift) < 8 {
		r.Drift = append(r.Drift, fmt.Sprintf(format, a...))
	}
}

type ndWriter struct {
	f   *os.File
	enc *json.Encoder
}

func newND(path string) (*ndWriter, error) {
	f, err := os.Create(path)
	if err != nil {
		return nil, err
	}
	return &ndWriter{f: f, enc: json.NewEncoder(f)}, nil
}
func (w *ndWriter) put(v interface{}) { _ = w.enc.Encode(v) }
func (w *ndWriter) close()            { _ = w.f.Close() }

func readND(path string, each func(raw json.RawMessage) error) error {
	f, err := os.Open(path)
	if err != nil {
		return err
	}
	defer f.Close()
	dec := json.NewDecoder(f)
	for dec.More() {
		var raw json.RawMessage
		if err := dec.Decode(&raw); err != nil {
			return err
		}
		if err := each(raw); err != nil {
			return err
		}
	}
	return nil
}

// waitOrStall waits for the two parties of a sub-protocol; false means they did not both return within d
// (a deadlock between them: each waits for bytes the other will never send).
func waitOrStall(wg *sync.WaitGroup, d time.Duration) bool {
	done := make(chan struct{})
	go func() { wg.Wait(); close(done) }()
	select {
	case <-done:
		return true
	case <-time.After(d):
		return false
	}
}

func main() {
	if len(os.Args) < 2 {
		fmt.Fprintln(os.Stderr, "usage: vh <command> args...")
		os.Exit(2)
	}
	c, ok := commands[os.Args[1]]
	if !ok {
		fmt.Fprintln(os.Stderr, "unknown command", os.Args[1])
		os.Exit(2)
	}
	if err := c(os.Args[2:]); err != nil {
		fmt.Fprintln(os.Stderr, "vh:", err)
		os.Exit(2)
	}
}
