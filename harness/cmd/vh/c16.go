package main

// C16: the garbler never reports a wrong result under message corruption.
//
//   vh c16 run trace.ndjson results.ndjson ncoords
//       For whole-circuit sessions (CO and COT) and a streaming session, a
//       corrupting transport XORs a mask at a byte position of either direction.
//       The garbler's outcome (value / error / stall / crash) is recorded per
//       coordinate and written as events for specs/CorruptTrace.tla.  The runs
//       happen in child processes (vh c16 worker) under an address-space limit,
//       because corrupted length fields can ask for absurd allocations.

import (
	"bufio"
	"encoding/json"
	"fmt"
	"math/big"
	"math/rand"
	"os"
	"os/exec"
	"strconv"
	"strings"
	"syscall"
	"time"
)

func init() { commands["c16"] = c16Main }

type c16Coord struct {
	Base int    `json:"base"` // index of the base session
	GE   bool   `json:"ge"`   // direction: garbler->evaluator
	Off  int    `json:"off"`
	Mask []byte `json:"mask"`
}

type c16Out struct {
	Base    int    `json:"base"`
	Kind    string `json:"kind"`
	Dir     string `json:"dir"`
	Off     int    `json:"off"`
	Mask    int    `json:"mask"`
	Burst   int    `json:"burst"`
	Cls     string `json:"cls"`
	Outcome string `json:"outcome"` // value | error | stall | crash
	Correct int    `json:"correct"` // 1 if outcome=value and the value is right
	Detail  string `json:"detail,omitempty"`
}

type c16Base struct {
	kind string // whole:co | whole:cot | stream:co
	tc   *tpCase
	prog int
	x, y []string
}

func c16Bases(sd int64) []*c16Base {
	rng := rand.New(rand.NewSource(sd*86028121 + 16))
	var bases []*c16Base
	for _, k := range []string{"co", "cot"} {
		tc := randomCircuit(rng, 6, 14, 3, 3)
		// make sure the outputs depend on non-free gates
		tc.Gates[len(tc.Gates)-1] = gGate{"AND", 1, 4}
		tc.Gates[len(tc.Gates)-2] = gGate{"OR", 0, 5}
		tc.Gates[len(tc.Gates)-3] = gGate{"INV", 2, 2}
		bases = append(bases, &c16Base{kind: "whole:" + k, tc: tc})
	}
	p := c04StreamProgs[0]
	bases = append(bases, &c16Base{kind: "stream:co", prog: 0, x: p.x(rng), y: p.y(rng)})
	return bases
}

func (b *c16Base) run(o sessOpts) (*sessResult, []*big.Int) {
	if b.tc != nil {
		circ, widths := mkTwoParty(b.tc)
		plain := plainEval(b.tc.Nin, b.tc.Gates, b.tc.Inp)
		want := splitBits(plain[len(plain)-b.tc.Nout:], widths)
		o.ot = b.kind[len("whole:"):]
		return runWhole(circ, bitsToBig(b.tc.Inp[:b.tc.N0]), bitsToBig(b.tc.Inp[b.tc.N0:]), o), want
	}
	o.ot = "co"
	return runStream(c04StreamProgs[b.prog].src, b.x, b.y, o), nil
}

// fieldClass names the protocol field a byte offset of the whole-circuit
// garbler->evaluator stream belongs to (layout of TwoParty.tla's GSend).
func (b *c16Base) fieldClass(ge bool, off, lenGE int) string {
	if b.tc == nil {
		return "stream"
	}
	if !ge {
		return "e2g"
	}
	pos := 0
	step := func(n int, name string) string {
		if off >= pos && off < pos+n {
			return name
		}
		pos += n
		return ""
	}
	if c := step(4, "keylen"); c != "" {
		return c
	}
	if c := step(32, "key"); c != "" {
		return c
	}
	if c := step(4, "ntab"); c != "" {
		return c
	}
	for _, g := range b.tc.Gates {
		rows := map[string]int{"AND": 2, "OR": 3, "INV": 1}[g.Op]
		if c := step(4, "nrow"); c != "" {
			return c
		}
		if c := step(16*rows, "row"); c != "" {
			return c
		}
	}
	if c := step(16*b.tc.N0, "glabel"); c != "" {
		return c
	}
	// the final result message: uint32 length + ceil(nout/8) bytes at the very end
	if off >= lenGE-5 {
		return "result"
	}
	return "ot"
}

func c16Worker(args []string) error {
	// an address-space limit turns absurd allocations into a process death the parent can see
	var lim syscall.Rlimit
	lim.Cur, lim.Max = 12<<30, 12<<30
	_ = syscall.Setrlimit(syscall.RLIMIT_AS, &lim)
	start, _ := strconv.Atoi(args[1])
	bases := c16Bases(seed())
	var expected [][]*big.Int
	var lens [][2]int
	for _, b := range bases {
		sr, want := b.run(sessOpts{corruptAt: -1, record: true, randSeed: 4242})
		if sr.gErr != nil || sr.eErr != nil || sr.stalled {
			return fmt.Errorf("base session %s failed: %v %v", b.kind, sr.gErr, sr.eErr)
		}
		if want == nil {
			want = sr.gOut
		}
		expected = append(expected, want)
		lens = append(lens, [2]int{sr.bytesGE, sr.bytesEG})
	}
	f, err := os.Open(args[0])
	if err != nil {
		return err
	}
	defer f.Close()
	w := bufio.NewWriter(os.Stdout)
	sc := bufio.NewScanner(f)
	idx := 0
	for sc.Scan() {
		if idx < start {
			idx++
			continue
		}
		idx++
		var c c16Coord
		if err := json.Unmarshal(sc.Bytes(), &c); err != nil {
			return err
		}
		b := bases[c.Base]
		sr, _ := b.run(sessOpts{corruptAt: c.Off, corruptGE: c.GE, mask: c.Mask, randSeed: uint64(idx) + 1000, timeout: 20 * time.Second})
		o := c16Out{Base: c.Base, Kind: b.kind, Off: c.Off, Mask: int(c.Mask[0]), Burst: len(c.Mask), Dir: "e2g"}
		if c.GE {
			o.Dir = "g2e"
		}
		o.Cls = b.fieldClass(c.GE, c.Off, lens[c.Base][0])
		switch {
		case sr.gPanic != "":
			o.Outcome, o.Detail = "crash", "garbler panic: "+sr.gPanic
		case sr.gErr != nil:
			o.Outcome, o.Detail = "error", sr.gErr.Error()
		case sr.gOut == nil:
			o.Outcome = "stall"
		default:
			o.Outcome = "value"
			if sameBigs(sr.gOut, expected[c.Base]) {
				o.Correct = 1
			} else {
				o.Detail = fmt.Sprintf("garbler returned %v, correct is %v", sr.gOut, expected[c.Base])
			}
		}
		if len(o.Detail) > 160 {
			o.Detail = o.Detail[:160]
		}
		js, _ := json.Marshal(o)
		w.Write(js)
		w.WriteByte('\n')
		w.Flush()
	}
	return nil
}

func c16Main(args []string) error {
	if len(args) >= 1 && args[0] == "worker" {
		return c16Worker(args[1:])
	}
	if len(args) < 4 || args[0] != "run" {
		return fmt.Errorf("usage: vh c16 run trace results ncoords")
	}
	ncoords, _ := strconv.Atoi(args[3])
	bases := c16Bases(seed())
	// lengths of the two directions of every base session
	var coords []c16Coord
	rng := rand.New(rand.NewSource(seed()*433494437 + 16))
	for bi, b := range bases {
		sr, _ := b.run(sessOpts{corruptAt: -1, record: true, randSeed: 4242})
		if sr.gErr != nil || sr.eErr != nil || sr.stalled {
			return fmt.Errorf("base session %s failed: %v %v", b.kind, sr.gErr, sr.eErr)
		}
		masks := [][]byte{{0x01}, {0x80}, {0xff}}
		for dir, n := range []int{sr.bytesGE, sr.bytesEG} {
			if ncoords <= 0 {
				// every byte offset of both directions
				for off := 0; off < n; off++ {
					coords = append(coords, c16Coord{Base: bi, GE: dir == 0, Off: off, Mask: masks[off%3]})
				}
				for k := 0; k < n/16; k++ {
					burst := make([]byte, 1+rng.Intn(16))
					rng.Read(burst)
					for i := range burst {
						burst[i] |= 1
					}
					coords = append(coords, c16Coord{Base: bi, GE: dir == 0, Off: rng.Intn(n), Mask: burst})
				}
			} else {
				per := ncoords / (2 * len(bases))
				for k := 0; k < per; k++ {
					m := masks[rng.Intn(3)]
					if k%5 == 4 {
						m = make([]byte, 1+rng.Intn(16))
						rng.Read(m)
						for i := range m {
							m[i] |= 1
						}
					}
					off := rng.Intn(n)
					if k < 48 && dir == 0 {
						off = k // the framing fields at the start of the stream
					}
					if k < 48 && dir == 1 && n > 48 {
						// the result labels at the end of the evaluator's stream, one bit at a time: the
						// permute bit is the top bit of a label's first byte
						off = n - 1 - k
						m = masks[1-k%2]
						if k%5 == 4 {
							m = masks[1]
						}
					}
					coords = append(coords, c16Coord{Base: bi, GE: dir == 0, Off: off, Mask: m})
				}
				if dir == 1 && n > 80 {
					// the SAME alteration in two, three or four of the returned result labels (a check that
					// aggregates the labels instead of comparing each one could cancel them out)
					for _, bm := range []byte{0x80, 0x01, 0xff} {
						for cnt := 2; cnt <= 4; cnt++ {
							for _, inByte := range []int{0, 15} {
								m := make([]byte, 16*(cnt-1)+1)
								for j := 0; j < cnt; j++ {
									m[16*j] = bm
								}
								first := n - 16*cnt - 16*rng.Intn(2) + inByte
								if first < 0 || first+len(m) > n {
									continue
								}
								coords = append(coords, c16Coord{Base: bi, GE: false, Off: first, Mask: m})
							}
						}
					}
				}
			}
		}
		if ncoords > 0 && b.tc == nil && sr.otG != nil && sr.otE != nil && sr.otG.posInit > 36 && sr.otE.posEnd > 0 {
			// streaming: the program information (argument and output sizes, counts) in front of the garbler's input
			// labels, and the first fields of the evaluator's result message.  Integer fields are made smaller
			// (each byte halved) as well as changed by one: a smaller declared size or count is the dangerous
			// direction - fewer result labels come back.
			for off := 36; off < sr.otG.posInit && off < len(sr.g2e); off++ {
				v := sr.g2e[off]
				if v > 1 {
					coords = append(coords, c16Coord{Base: bi, GE: true, Off: off, Mask: []byte{v ^ (v >> 1)}})
				}
			}
			// the return-wire ids at the end of the garbler's stream (OpReturn): an id turned into the id of a
			// neighbouring result wire makes the evaluator return a valid label of ANOTHER result position
			if evs, err := parseStreamWire(sr, 0); err == nil {
				nret := 0
				reslen := 0
				for _, e := range evs {
					if e.Ev == "ret" {
						nret = len(e.IDs)
					}
					if e.Ev == "res" {
						reslen = e.Len
					}
				}
				idsEnd := len(sr.g2e) - (4 + reslen) // the result data (length prefix + bytes) follows the ids
				for k := 0; k < nret; k++ {
					off := idsEnd - 4*(nret-k) + 3 // low byte of the k-th id
					if off < 0 {
						continue
					}
					for _, m := range []byte{0x01, 0x02, 0x03} {
						coords = append(coords, c16Coord{Base: bi, GE: true, Off: off, Mask: []byte{m}})
					}
				}
			}
			for off := sr.otE.posEnd; off < sr.otE.posEnd+12 && off < len(sr.e2g); off++ {
				v := sr.e2g[off]
				coords = append(coords, c16Coord{Base: bi, GE: false, Off: off, Mask: []byte{0x01}})
				if v > 1 {
					coords = append(coords, c16Coord{Base: bi, GE: false, Off: off, Mask: []byte{v ^ (v >> 1)}})
				}
			}
		}
	}
	cf := args[1] + ".coords"
	cw, err := newND(cf)
	if err != nil {
		return err
	}
	for _, c := range coords {
		cw.put(c)
	}
	cw.close()
	tr, err := newND(args[1])
	if err != nil {
		return err
	}
	defer tr.close()
	out, err := newND(args[2])
	if err != nil {
		return err
	}
	defer out.close()

	done := 0
	crashes := 0
	for done < len(coords) {
		cmd := exec.Command(os.Args[0], "c16", "worker", cf, strconv.Itoa(done))
		cmd.Env = os.Environ()
		stdout, err := cmd.StdoutPipe()
		if err != nil {
			return err
		}
		if err := cmd.Start(); err != nil {
			return err
		}
		sc := bufio.NewScanner(stdout)
		sc.Buffer(make([]byte, 1<<20), 1<<20)
		for sc.Scan() {
			var o c16Out
			if err := json.Unmarshal(sc.Bytes(), &o); err != nil {
				continue
			}
			c16Record(tr, out, done, &o)
			done++
		}
		werr := cmd.Wait()
		if done < len(coords) {
			if werr == nil {
				return fmt.Errorf("worker ended early without failing")
			}
			// the process died while running coordinate `done`: the session was aborted
			c := coords[done]
			o := c16Out{Base: c.Base, Kind: bases[c.Base].kind, Off: c.Off, Mask: int(c.Mask[0]), Burst: len(c.Mask), Dir: "e2g",
				Cls: "?", Outcome: "crash", Detail: "session process died (" + werr.Error() + "): aborted"}
			if c.GE {
				o.Dir = "g2e"
			}
			c16Record(tr, out, done, &o)
			done++
			crashes++
			if crashes > 200+len(coords)/6 {
				return fmt.Errorf("too many worker crashes")
			}
		}
	}
	return nil
}

func c16Record(tr, out *ndWriter, idx int, o *c16Out) {
	tr.put(map[string]interface{}{"ev": "run", "kind": o.Kind, "dir": o.Dir, "off": o.Off, "cls": o.Cls, "outcome": o.Outcome, "correct": o.Correct})
	res := &Result{Case: idx, Class: o.Kind + ":" + o.Dir + ":" + o.Cls + ":" + o.Outcome}
	res.Nontrivial = o.Outcome != "value" || o.Cls == "result"
	if o.Outcome == "crash" && strings.HasPrefix(o.Detail, "garbler panic:") {
		// neither an error, nor an aborted stall, nor the correct value: the garbler's own code panics on what it received
		res.viol("garbler-panics:"+o.Kind+":"+o.Dir+":"+o.Cls, "%s session, %s byte %d (field %s) xor %#x (burst %d): %s", o.Kind, o.Dir, o.Off, o.Cls, o.Mask, o.Burst, o.Detail)
	}
	if o.Outcome == "value" && o.Correct == 0 {
		res.viol("wrong-value:"+o.Kind+":"+o.Dir+":"+o.Cls, "%s session, %s byte %d (field %s) xor %#x (burst %d): %s", o.Kind, o.Dir, o.Off, o.Cls, o.Mask, o.Burst, o.Detail)
	}
	if idx < 4 {
		res.Sample = o
	}
	out.put(res)
}
