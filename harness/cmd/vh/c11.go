package main

// C11: p2p.Conn is a faithful, ordered, typed byte stream.
//
//   vh c11 replay cases.ndjson results.ndjson
//       replays TLC-generated behaviours of specs/ConnGen.tla on two real
//       p2p.Conn over a harness transport whose reads return exactly the
//       fragment sizes of the behaviour, comparing after every call.
//   vh c11 record trace.ndjson results.ndjson nsessions
//       free-running sessions (both directions concurrently, random
//       fragmentation); events are recorded at linearization points for
//       validation by specs/ConnTrace.tla and specs/ConnAbs.tla.

import (
	"bytes"
	"encoding/json"
	"fmt"
	"io"
	"math/rand"
	"sync"
	"time"

	"github.com/markkurossi/mpc/ot"
	"github.com/markkurossi/mpc/p2p"
)

func init() { commands["c11"] = c11Main }

type connEv struct {
	Ev string `json:"ev"`
	K  string `json:"k"`
	A  int    `json:"a"`
	B  int    `json:"b"`
	C  int    `json:"c"`
	OK int    `json:"ok"`
}

// evLog is the per-direction event log; the order of the slice is the
// linearization order (events are appended under mu).
type evLog struct {
	mu  sync.Mutex
	evs []connEv
}

func (l *evLog) add(e connEv) {
	if l == nil {
		return
	}
	l.mu.Lock()
	l.evs = append(l.evs, e)
	l.mu.Unlock()
}

// bytePipe is one direction of the harness transport: an unbounded
// in-memory byte queue. Write never blocks.
type bytePipe struct {
	mu        sync.Mutex
	cond      *sync.Cond
	buf       []byte
	rd        int
	written   int
	taken     int
	writes    []int
	plan      []int // replay mode: fragment sizes of the coming reads
	planned   bool
	rng       *rand.Rand
	log       *evLog
	stalled   bool
	unplanned int
	overlong  int
}

func newBytePipe() *bytePipe {
	p := &bytePipe{}
	p.cond = sync.NewCond(&p.mu)
	return p
}

func (p *bytePipe) Write(b []byte) (int, error) {
	p.mu.Lock()
	// linearization point of the transport write: logged before the
	// bytes become visible to the reader.
	if p.log != nil {
		p.log.add(connEv{Ev: "write", A: len(b), OK: 1})
	}
	p.buf = append(p.buf, b...)
	p.written += len(b)
	p.writes = append(p.writes, len(b))
	p.cond.Broadcast()
	p.mu.Unlock()
	return len(b), nil
}

func (p *bytePipe) Read(b []byte) (int, error) {
	p.mu.Lock()
	defer p.mu.Unlock()
	want := 0
	if p.planned {
		if len(p.plan) > 0 {
			want = p.plan[0]
			p.plan = p.plan[1:]
		} else {
			p.unplanned++
		}
		if want > len(b) {
			p.overlong++
			want = len(b)
		}
	}
	need := want
	if need == 0 {
		need = 1
	}
	for len(p.buf)-p.rd < need {
		if p.stalled {
			return 0, fmt.Errorf("harness: transport stalled")
		}
		p.cond.Wait()
	}
	avail := len(p.buf) - p.rd
	n := want
	if n == 0 {
		// free mode / unplanned: random fragmentation
		max := avail
		if max > len(b) {
			max = len(b)
		}
		n = max
		if p.rng != nil {
			switch p.rng.Intn(4) {
			case 0:
				n = 1
			case 1:
				n = 1 + p.rng.Intn(max)
			case 2:
				if max > 17 {
					n = 1 + p.rng.Intn(17)
				}
			}
		}
	}
	copy(b, p.buf[p.rd:p.rd+n])
	p.rd += n
	p.taken += n
	if p.rd > 1<<22 {
		p.buf = append([]byte(nil), p.buf[p.rd:]...)
		p.rd = 0
	}
	if p.log != nil {
		p.log.add(connEv{Ev: "read", A: n, OK: 1})
	}
	return n, nil
}

func (p *bytePipe) stall() {
	p.mu.Lock()
	p.stalled = true
	p.cond.Broadcast()
	p.mu.Unlock()
}

type duplex struct {
	r *bytePipe
	w *bytePipe
}

func (d *duplex) Read(b []byte) (int, error)  { return d.r.Read(b) }
func (d *duplex) Write(b []byte) (int, error) { return d.w.Write(b) }

// ---------------------------------------------------------------- values

type c11Val struct {
	kind  string
	n     int
	b     byte
	u     int
	label ot.Label
	data  []byte
	sizes []int
	str   bool
	// what the receiver was handed (kept until the end of the session)
	got      []byte
	gotSizes []int
}

func mix(x uint64) uint64 {
	x ^= x >> 33
	x *= 0xff51afd7ed558ccd
	x ^= x >> 33
	x *= 0xc4ceb9fe1a85ec53
	x ^= x >> 33
	return x
}

func mkVal(kind string, n int, h uint64) *c11Val {
	v := &c11Val{kind: kind, n: n}
	h = mix(h + 0x9e3779b97f4a7c15)
	switch kind {
	case "byte":
		v.b = byte(h)
	case "u16":
		v.u = int(h & 0xffff)
		if h&0x30000 == 0 {
			v.u = []int{0, 1, 255, 256, 0xffff, 0x8000}[int(h>>20)%6]
		}
	case "u32":
		v.u = int(uint32(h))
		if h&(3<<40) == 0 {
			v.u = []int{0, 1, 0xffffffff, 0x80000000, 0x7fffffff, 0x00ff00ff}[int(h>>44)%6]
		}
	case "label":
		var d ot.LabelData
		for i := range d {
			d[i] = byte(mix(h + uint64(i)))
		}
		v.label.SetData(&d)
	case "data":
		v.str = h&1 == 1
		v.data = make([]byte, n)
		x := h
		for i := 0; i < n; i += 8 {
			x = x*6364136223846793005 + 1442695040888963407
			y := x
			for j := i; j < i+8 && j < n; j++ {
				v.data[j] = byte(y >> 56)
				y <<= 8
			}
		}
	case "sizes":
		v.sizes = make([]int, n)
		for i := range v.sizes {
			v.sizes[i] = int(uint32(mix(h + uint64(i)*7)))
		}
	}
	return v
}

func (v *c11Val) send(c *p2p.Conn) error {
	switch v.kind {
	case "byte":
		return c.SendByte(v.b)
	case "u16":
		return c.SendUint16(v.u)
	case "u32":
		return c.SendUint32(v.u)
	case "label":
		var d ot.LabelData
		return c.SendLabel(v.label, &d)
	case "data":
		if v.str {
			return c.SendString(string(v.data))
		}
		// the caller's buffer is its own again once SendData has returned: it is overwritten straight away
		buf := append([]byte(nil), v.data...)
		err := c.SendData(buf)
		for i := range buf {
			buf[i] ^= 0xa5
		}
		return err
	case "sizes":
		return c.SendInputSizes(v.sizes)
	case "flush":
		return c.Flush()
	}
	return fmt.Errorf("bad kind %q", v.kind)
}

// recv performs the matching typed receive and reports whether the
// value equals the one sent.
func (v *c11Val) recv(c *p2p.Conn) (bool, string, error) {
	switch v.kind {
	case "byte":
		x, err := c.ReceiveByte()
		return x == v.b, fmt.Sprintf("got %d want %d", x, v.b), err
	case "u16":
		x, err := c.ReceiveUint16()
		return x == v.u, fmt.Sprintf("got %d want %d", x, v.u), err
	case "u32":
		x, err := c.ReceiveUint32()
		return x == v.u, fmt.Sprintf("got %d want %d", x, v.u), err
	case "label":
		var l ot.Label
		var d ot.LabelData
		err := c.ReceiveLabel(&l, &d)
		return l.Equal(v.label), fmt.Sprintf("got %v want %v", l, v.label), err
	case "data":
		if v.str {
			x, err := c.ReceiveString()
			return x == string(v.data), fmt.Sprintf("string len got %d want %d", len(x), len(v.data)), err
		}
		x, err := c.ReceiveData()
		v.got = x // kept by the caller: must still be the sent bytes after later receives
		return bytes.Equal(x, v.data), fmt.Sprintf("data len got %d want %d", len(x), len(v.data)), err
	case "sizes":
		x, err := c.ReceiveInputSizes()
		v.gotSizes = x
		ok := len(x) == len(v.sizes)
		if ok {
			for i := range x {
				if x[i] != v.sizes[i] {
					ok = false
				}
			}
		}
		return ok, fmt.Sprintf("sizes len got %d want %d", len(x), len(v.sizes)), err
	}
	return false, "", fmt.Errorf("bad kind %q", v.kind)
}

func msgSize(kind string, n int) int {
	switch kind {
	case "byte":
		return 1
	case "u16":
		return 2
	case "u32":
		return 4
	case "label":
		return 16
	case "data":
		return 4 + n
	case "sizes":
		return 4 + 4*n
	}
	return 0
}

// withTimeout runs f and reports false if it did not finish in d.
func withTimeout(d time.Duration, f func()) bool {
	done := make(chan struct{})
	go func() {
		defer func() {
			recover()
			close(done)
		}()
		f()
	}()
	select {
	case <-done:
		return true
	case <-time.After(d):
		return false
	}
}

// ---------------------------------------------------------------- replay

func c11Replay(idx int, evs []connEv, sd int64) *Result {
	res := &Result{Case: idx}
	ab, ba := newBytePipe(), newBytePipe()
	ab.planned = true
	A := p2p.NewConn(&duplex{r: ba, w: ab})
	B := p2p.NewConn(&duplex{r: ab, w: ba})
	defer func() {
		ab.stall()
		ba.stall()
	}()

	var queue []*c11Val
	var modelWrites []int
	produced := 0
	nsend := 0
	kinds := map[string]bool{}
	bigFlush := false
	recvAt := -1

	for i := 0; i < len(evs); i++ {
		ev := evs[i]
		switch ev.Ev {
		case "send":
			nsend++
			v := mkVal(ev.K, ev.A, uint64(sd)*1000003+uint64(idx)*8191+uint64(nsend))
			kinds[ev.K] = true
			if ev.K != "flush" {
				queue = append(queue, v)
				produced += msgSize(ev.K, ev.A)
			}
			var err error
			if !withTimeout(30*time.Second, func() { err = v.send(A) }) {
				res.viol("stall:send:"+ev.K, "send #%d (%s,%d) did not return", nsend, ev.K, ev.A)
				return res
			}
			if err != nil {
				res.viol("error:send:"+ev.K, "send #%d (%s,%d): %v", nsend, ev.K, ev.A, err)
				return res
			}
		case "sendret":
			if A.WritePos != ev.A || int(A.Stats.Sent.Load()) != ev.B || int(A.Stats.Flushed.Load()) != ev.C {
				res.drift("after send #%d: WritePos/Sent/Flushed = %d/%d/%d, spec %d/%d/%d", nsend,
					A.WritePos, A.Stats.Sent.Load(), A.Stats.Flushed.Load(), ev.A, ev.B, ev.C)
			}
			if ev.C > 0 {
				bigFlush = true
			}
		case "write":
			modelWrites = append(modelWrites, ev.B-ev.A)
		case "recv":
			recvAt = i
		case "recvret":
			// The receive is issued where the behaviour completes it: every
			// send the behaviour started before this point has been executed,
			// so at least the bytes the behaviour's reads consumed are there.
			if len(queue) == 0 || recvAt < 0 {
				return nil // malformed case
			}
			v := queue[0]
			queue = queue[1:]
			var plan []int
			ret := &evs[i]
			for j := recvAt + 1; j < i; j++ {
				if evs[j].Ev == "read" {
					plan = append(plan, evs[j].A)
				}
			}
			recvAt = -1
			ab.mu.Lock()
			ab.plan = plan
			ab.mu.Unlock()
			var ok bool
			var what string
			var err error
			if !withTimeout(30*time.Second, func() { ok, what, err = v.recv(B) }) {
				res.viol("stall:recv:"+v.kind, "receive of (%s,%d) did not return although the spec delivers it", v.kind, v.n)
				return res
			}
			if err != nil {
				res.viol("error:recv:"+v.kind, "receive of (%s,%d): %v", v.kind, v.n, err)
				return res
			}
			if !ok {
				res.viol("value:"+v.kind, "received value differs from sent value (%s,%d): %s", v.kind, v.n, what)
			}
			ab.mu.Lock()
			left, unpl, over, taken := len(ab.plan), ab.unplanned, ab.overlong, ab.taken
			ab.unplanned, ab.overlong = 0, 0
			ab.mu.Unlock()
			if left != 0 || unpl != 0 || over != 0 {
				res.drift("receive of (%s,%d): %d planned reads unused, %d unplanned, %d larger than the buffer space", v.kind, v.n, left, unpl, over)
			}
			if int(B.Stats.Recvd.Load()) != taken {
				res.viol("counter:recvd", "Stats.Recvd=%d but the transport handed out %d bytes", B.Stats.Recvd.Load(), taken)
			}
			// the unread window and the counter, not where the window sits in the buffer (compaction policy is free)
			if ret != nil && (B.ReadEnd-B.ReadStart != ret.B-ret.A || int(B.Stats.Recvd.Load()) != ret.C) {
				res.drift("after receive of (%s,%d): ReadStart/ReadEnd/Recvd = %d/%d/%d, spec %d/%d/%d", v.kind, v.n,
					B.ReadStart, B.ReadEnd, B.Stats.Recvd.Load(), ret.A, ret.B, ret.C)
			}
		case "close":
			var err error
			if !withTimeout(30*time.Second, func() { err = A.Close() }) {
				res.viol("stall:close", "Close did not return")
				return res
			}
			if err != nil {
				res.viol("error:close", "Close: %v", err)
			}
		case "closed":
			ab.mu.Lock()
			written := ab.written
			writes := append([]int(nil), ab.writes...)
			ab.mu.Unlock()
			if written != produced {
				res.viol("close:undelivered", "after Close the transport holds %d bytes, %d were sent", written, produced)
			}
			if int(A.Stats.Sent.Load()) != written {
				res.viol("counter:sent", "Stats.Sent=%d but %d bytes reached the transport", A.Stats.Sent.Load(), written)
			}
			if fmt.Sprint(writes) != fmt.Sprint(modelWrites) {
				res.drift("transport writes %v, spec %v", clip(writes), clip(modelWrites))
			}
		}
	}
	res.Nontrivial = bigFlush && len(kinds) >= 3
	return res
}

func clip(x []int) []int {
	if len(x) > 12 {
		return x[:12]
	}
	return x
}

// ---------------------------------------------------------------- record

type c11Op struct {
	kind string
	n    int
}

func c11Script(rng *rand.Rand, nops int, big bool) []c11Op {
	lens := []int{0, 0, 1, 2, 15, 16, 17, 100, 1000, 4095, 4096}
	bigLens := []int{65531, 65532, 65533, 65535, 65536, 65537, 131072, 200001, 1048571, 1048572, 1048573, 1048576, 1048577, 2500000}
	var ops []c11Op
	for i := 0; i < nops; i++ {
		switch rng.Intn(10) {
		case 0:
			ops = append(ops, c11Op{"byte", 0})
		case 1:
			ops = append(ops, c11Op{"u16", 0})
		case 2:
			ops = append(ops, c11Op{"u32", 0})
		case 3, 4:
			ops = append(ops, c11Op{"label", 0})
		case 5:
			ops = append(ops, c11Op{"flush", 0})
		case 6:
			n := rng.Intn(5)
			if big && rng.Intn(8) == 0 {
				n = []int{16383, 16384, 16385, 20000}[rng.Intn(4)]
			}
			ops = append(ops, c11Op{"sizes", n})
		default:
			n := lens[rng.Intn(len(lens))]
			if big && rng.Intn(4) == 0 {
				n = bigLens[rng.Intn(len(bigLens))]
			}
			ops = append(ops, c11Op{"data", n})
		}
	}
	return ops
}

// c11Direction runs one direction: sender goroutine on S, receiver goroutine on R.
func c11Direction(S, R *p2p.Conn, pipe *bytePipe, ops []c11Op, h uint64, res *Result, mu *sync.Mutex, wg *sync.WaitGroup, dir string) {
	log := pipe.log
	vals := make([]*c11Val, len(ops))
	for i, op := range ops {
		vals[i] = mkVal(op.kind, op.n, h+uint64(i)*977)
	}
	fail := func(key, f string, a ...interface{}) {
		mu.Lock()
		res.viol(key, dir+": "+f, a...)
		mu.Unlock()
	}
	wg.Add(2)
	go func() {
		defer wg.Done()
		defer func() {
			if r := recover(); r != nil {
				fail("crash:send", "panic in sender: %v", r)
			}
		}()
		for i, v := range vals {
			log.add(connEv{Ev: "send", K: v.kind, A: ops[i].n, OK: 1})
			if err := v.send(S); err != nil {
				fail("error:send:"+v.kind, "send: %v", err)
				return
			}
			log.add(connEv{Ev: "sendret", A: S.WritePos, B: int(S.Stats.Sent.Load()), C: int(S.Stats.Flushed.Load()), OK: 1})
		}
		log.add(connEv{Ev: "close", OK: 1})
		if err := S.Close(); err != nil {
			fail("error:close", "Close: %v", err)
		}
		pipe.mu.Lock()
		w := pipe.written
		pipe.mu.Unlock()
		log.add(connEv{Ev: "closed", A: w, B: int(S.Stats.Sent.Load()), C: int(S.Stats.Flushed.Load()), OK: 1})
	}()
	go func() {
		defer wg.Done()
		defer func() {
			if r := recover(); r != nil {
				fail("crash:recv", "panic in receiver: %v", r)
			}
		}()
		for i, v := range vals {
			if v.kind == "flush" {
				continue
			}
			log.add(connEv{Ev: "recv", K: v.kind, A: ops[i].n, OK: 1})
			ok, what, err := v.recv(R)
			if err != nil {
				fail("error:recv:"+v.kind, "receive #%d (%s,%d): %v", i, v.kind, v.n, err)
				return
			}
			okI := 1
			if !ok {
				okI = 0
				fail("value:"+v.kind, "receive #%d (%s,%d): %s", i, v.kind, v.n, what)
			}
			log.add(connEv{Ev: "recvret", A: R.ReadStart, B: R.ReadEnd, C: int(R.Stats.Recvd.Load()), OK: okI})
		}
		// values handed to the caller earlier are still the values sent
		for i, v := range vals {
			if v.got != nil && !bytes.Equal(v.got, v.data) {
				fail("value:data:changed-by-later-receive", "the data returned by receive #%d (%d bytes) changed when later values were received", i, v.n)
				break
			}
			if v.gotSizes != nil {
				for k := range v.gotSizes {
					if k < len(v.sizes) && v.gotSizes[k] != v.sizes[k] {
						fail("value:sizes:changed-by-later-receive", "the size list returned by receive #%d changed when later values were received", i)
						break
					}
				}
			}
		}
	}()
}

func c11Record(out *ndWriter, results *ndWriter, nsessions int, sd int64) {
	first := true
	for s := 0; s < nsessions; s++ {
		rng := rand.New(rand.NewSource(sd*7919 + int64(s)))
		res := &Result{Case: s}
		var mu sync.Mutex
		ab, ba := newBytePipe(), newBytePipe()
		ab.log, ba.log = &evLog{}, &evLog{}
		ab.rng = rand.New(rand.NewSource(rng.Int63()))
		ba.rng = rand.New(rand.NewSource(rng.Int63()))
		A := p2p.NewConn(&duplex{r: ba, w: ab})
		B := p2p.NewConn(&duplex{r: ab, w: ba})
		big := s%3 == 0
		nops := 5 + rng.Intn(25)
		opsAB := c11Script(rng, nops, big)
		opsBA := c11Script(rng, 5+rng.Intn(25), big)
		var wg sync.WaitGroup
		c11Direction(A, B, ab, opsAB, uint64(sd)<<20+uint64(s)*2, res, &mu, &wg, "A->B")
		c11Direction(B, A, ba, opsBA, uint64(sd)<<20+uint64(s)*2+1, res, &mu, &wg, "B->A")
		if !withTimeout(40*time.Second, wg.Wait) {
			mu.Lock()
			res.viol("stall:session", "free-running session did not finish (transport is unbounded, nothing in the harness blocks)")
			mu.Unlock()
			ab.stall()
			ba.stall()
		}
		mu.Lock()
		res.Nontrivial = big
		res.Sample = map[string]interface{}{"opsAB": len(opsAB), "opsBA": len(opsBA), "eventsAB": len(ab.log.evs), "eventsBA": len(ba.log.evs)}
		results.put(res)
		mu.Unlock()
		for _, l := range []*evLog{ab.log, ba.log} {
			l.mu.Lock()
			if !first {
				out.put(connEv{Ev: "reset", OK: 1})
			}
			first = false
			for _, e := range l.evs {
				out.put(e)
			}
			l.mu.Unlock()
		}
	}
}

// c11BufEnd: the whole stream is in the transport before the receiver starts, and the transport's first reads end a
// few bytes short of (or exactly at, or just inside) the end of the connection's read buffer, so that the value at
// the tail is split there.  Every value must still arrive, in order, however the reads are fragmented.
func c11BufEnd(results *ndWriter, sd int64) {
	idx := 0
	for _, k := range []int{1, 2, 3, 5, 7, 8, 15, 16, 17, 0, 4097} {
		for _, small := range []bool{true, false} {
			rng := rand.New(rand.NewSource(sd*104729 + int64(idx)))
			res := &Result{Case: idx, Nontrivial: true, Class: "buffer-end"}
			idx++
			ab, ba := newBytePipe(), newBytePipe()
			S := p2p.NewConn(&duplex{r: ba, w: ab})
			R := p2p.NewConn(&duplex{r: ab, w: ba})
			rbuf := len(R.ReadBuf)
			// small fixed-size values only, or mixed with data chunks
			var ops []c11Op
			total := 0
			for total < 2*rbuf+rbuf/2 {
				var op c11Op
				if small {
					op = c11Op{[]string{"label", "label", "u32", "u16", "byte"}[rng.Intn(5)], 0}
				} else {
					op = c11Script(rng, 1, false)[0]
					if op.kind == "flush" || op.kind == "sizes" {
						continue
					}
				}
				ops = append(ops, op)
				total += msgSize(op.kind, op.n)
			}
			vals := make([]*c11Val, len(ops))
			for i, op := range ops {
				vals[i] = mkVal(op.kind, op.n, uint64(sd)<<24+uint64(idx)<<16+uint64(i))
			}
			sendErr := make(chan error, 1)
			go func() {
				for _, v := range vals {
					if err := v.send(S); err != nil {
						sendErr <- err
						return
					}
				}
				sendErr <- S.Flush()
			}()
			if err := <-sendErr; err != nil {
				res.viol("error:send", "buffer-end scenario: send: %v", err)
				results.put(res)
				continue
			}
			// the read plan: the first read stops k bytes before the end of the read buffer, then single bytes
			// up to and across the end, then whatever is available
			ab.mu.Lock()
			ab.planned = true
			ab.plan = []int{rbuf - k}
			for i := 0; i < k+3 && k < 64; i++ {
				ab.plan = append(ab.plan, 1)
			}
			ab.mu.Unlock()
			done := make(chan string, 1)
			go func() {
				defer func() {
					if r := recover(); r != nil {
						done <- fmt.Sprintf("panic in receiver: %v", r)
					}
				}()
				for i, v := range vals {
					ok, what, err := v.recv(R)
					if err != nil {
						done <- fmt.Sprintf("receive #%d (%s,%d): %v", i, v.kind, v.n, err)
						return
					}
					if !ok {
						done <- fmt.Sprintf("receive #%d (%s,%d): %s", i, v.kind, v.n, what)
						return
					}
				}
				done <- ""
			}()
			select {
			case msg := <-done:
				if msg != "" {
					res.viol("buffer-end:value", "first read ends %d bytes before the end of the %d-byte read buffer: %s", k, rbuf, msg)
				}
			case <-time.After(30 * time.Second):
				res.viol("buffer-end:stall", "first read ends %d bytes before the end of the %d-byte read buffer: the receiver does not finish although all %d bytes are in the transport", k, rbuf, total)
				ab.stall()
			}
			results.put(res)
		}
	}
}

// c11PipeClose: the in-memory transport the library ships (p2p.Pipe).  One end sends a sequence of typed values and
// closes; the other end starts late and reads slowly.  "Closing delivers everything still buffered": every value
// must arrive, whatever the timing of the Close.
func c11PipeClose(results *ndWriter, sd int64) {
	rng := rand.New(rand.NewSource(sd*7919 + 77))
	kinds := []string{"byte", "u16", "u32", "label", "data", "sizes"}
	for idx := 0; idx < 6; idx++ {
		res := &Result{Case: 1000 + idx, Class: "pipe-close", Nontrivial: true}
		a, b := p2p.Pipe()
		var vals []*c11Val
		nv := 3 + rng.Intn(6)
		for i := 0; i < nv; i++ {
			k := kinds[rng.Intn(len(kinds))]
			n := []int{0, 1, 100, 4096, 70000}[rng.Intn(5)]
			if k == "sizes" {
				n = rng.Intn(5)
			}
			vals = append(vals, mkVal(k, n, uint64(sd)*1000+uint64(idx*50+i)))
		}
		flushFirst := idx%2 == 0
		delay := time.Duration([]int{0, 5, 40}[idx%3]) * time.Millisecond
		var sendErr error
		sendDone := make(chan struct{})
		go func() {
			defer close(sendDone)
			defer func() {
				if x := recover(); x != nil {
					sendErr = fmt.Errorf("panic: %v", x)
				}
			}()
			for _, v := range vals {
				if err := v.send(a); err != nil {
					sendErr = err
					return
				}
			}
			if flushFirst {
				if err := a.Flush(); err != nil {
					sendErr = err
					return
				}
			}
			sendErr = a.Close()
		}()
		what := ""
		ok := withTimeout(15*time.Second, func() {
			time.Sleep(delay)
			for i, v := range vals {
				same, d, err := v.recv(b)
				if err != nil {
					what = fmt.Sprintf("value %d of %d (%s): %v", i, len(vals), v.kind, err)
					return
				}
				if !same {
					what = fmt.Sprintf("value %d of %d (%s) differs: %s", i, len(vals), v.kind, d)
					return
				}
				if delay > 0 && i == 0 {
					time.Sleep(delay)
				}
			}
		})
		if !ok {
			res.viol("pipe-close:stall", "p2p.Pipe: the reader does not obtain the values sent before Close (reader delay %v, flush before close %v)", delay, flushFirst)
		} else if what != "" {
			res.viol("pipe-close:undelivered", "p2p.Pipe: sender sent %d values and closed; reader (delay %v, flush before close %v): %s", len(vals), delay, flushFirst, what)
		}
		select {
		case <-sendDone:
			if sendErr != nil && ok && what == "" {
				res.viol("pipe-close:send-error", "p2p.Pipe: sender fails although the reader received everything: %v", sendErr)
			}
		case <-time.After(5 * time.Second):
			if ok && what == "" {
				res.viol("pipe-close:close-hangs", "p2p.Pipe: Close does not return although the reader received everything")
			}
		}
		results.put(res)
	}
}

// c11Consts measures writeBufSize, readBufSize and numBuffers on a live Conn: the exported buffers give the sizes; the
// number of write buffers is one more than the number of flushes that return while the transport accepts nothing.
func c11Consts() string {
	hold := make(chan struct{})
	c := p2p.NewConn(&blockedRW{hold: hold})
	wbuf, rbuf := len(c.WriteBuf), len(c.ReadBuf)
	n := 0
	for n < 64 {
		done := make(chan struct{})
		go func() {
			c.SendByte(1)
			c.Flush()
			close(done)
		}()
		select {
		case <-done:
			n++
			continue
		case <-time.After(300 * time.Millisecond):
		}
		break
	}
	close(hold)
	return fmt.Sprintf(`{"wbuf": %d, "rbuf": %d, "nbufs": %d}`, wbuf, rbuf, n+1)
}

type blockedRW struct{ hold chan struct{} }

func (b *blockedRW) Write(p []byte) (int, error) { <-b.hold; return len(p), nil }
func (b *blockedRW) Read(p []byte) (int, error)  { <-b.hold; return 0, io.EOF }

func c11Main(args []string) error {
	if len(args) >= 1 && args[0] == "consts" {
		// the buffer dimensions of this implementation, for the specification's constants
		fmt.Println(c11Consts())
		return nil
	}
	if len(args) < 2 || (len(args) < 3 && args[0] != "bufend") {
		return fmt.Errorf("usage: vh c11 replay|record in out [n] | bufend out")
	}
	switch args[0] {
	case "bufend":
		out, err := newND(args[1])
		if err != nil {
			return err
		}
		defer out.close()
		c11BufEnd(out, seed())
		c11PipeClose(out, seed())
		return nil
	case "replay":
		out, err := newND(args[2])
		if err != nil {
			return err
		}
		defer out.close()
		idx := 0
		nviol := 0
		return readND(args[1], func(raw json.RawMessage) error {
			var evs []connEv
			if err := json.Unmarshal(raw, &evs); err != nil {
				return err
			}
			if nviol >= 3 {
				return nil
			}
			r := c11Replay(idx, evs, seed())
			idx++
			if r != nil && len(r.Viol) > 0 {
				nviol++
			}
			if r != nil {
				if idx <= 2 {
					n := len(evs)
					if n > 8 {
						n = 8
					}
					r.Sample = evs[:n]
				}
				out.put(r)
			}
			return nil
		})
	case "record":
		n := 10
		if len(args) > 3 {
			fmt.Sscan(args[3], &n)
		}
		out, err := newND(args[1])
		if err != nil {
			return err
		}
		defer out.close()
		results, err := newND(args[2])
		if err != nil {
			return err
		}
		defer results.close()
		c11Record(out, results, n, seed())
		return nil
	}
	return fmt.Errorf("unknown c11 mode %q", args[0])
}
