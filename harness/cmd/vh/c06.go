package main

// C06: oblivious transfer delivers exactly the chosen label.
// C15: (tampering wrapper shared with c15.go)
//
//   vh c06 run cases.ndjson results.ndjson
//       cases come from specs/OTExtGen.tla: batch sequences (sizes, form,
//       predicted chunk message sizes); each is run on one initialised real
//       IKNPSender/IKNPReceiver pair and the per-index correlation is checked.
//       COT, ROT (both adversary modes), CO (and its pure helpers) and RSA are
//       run through the ot.OT interface on the same sizes.

import (
	"crypto/elliptic"
	crand "crypto/rand"
	"encoding/json"
	"fmt"
	"math/rand"
	"sync"
	"time"

	"github.com/markkurossi/mpc/ot"
	"github.com/markkurossi/mpc/p2p"
)

func init() { commands["c06"] = c06Main }

// otTap wraps one end of a connection as an ot.IO; it records the sizes of data
// messages and can alter them in transit (C15).
type otTap struct {
	c        *p2p.Conn
	mu       sync.Mutex
	sentData []int
	// tamper, when set, is called with the index of the data message and its bytes before they are sent
	tamper func(idx int, b []byte) []byte
	// tamperLabel, when set, is called for every label sent (index counts labels)
	tamperLabel func(idx int, l ot.Label) ot.Label
	nlabels     int
}

func (t *otTap) SendByte(v byte) error                           { return t.c.SendByte(v) }
func (t *otTap) SendUint32(v int) error                          { return t.c.SendUint32(v) }
func (t *otTap) Flush() error                                    { return t.c.Flush() }
func (t *otTap) ReceiveByte() (byte, error)                      { return t.c.ReceiveByte() }
func (t *otTap) ReceiveUint32() (int, error)                     { return t.c.ReceiveUint32() }
func (t *otTap) ReceiveData() ([]byte, error)                    { return t.c.ReceiveData() }
func (t *otTap) ReceiveLabel(v *ot.Label, d *ot.LabelData) error { return t.c.ReceiveLabel(v, d) }
func (t *otTap) SendData(v []byte) error {
	t.mu.Lock()
	idx := len(t.sentData)
	t.sentData = append(t.sentData, len(v))
	f := t.tamper
	t.mu.Unlock()
	if f != nil {
		v = f(idx, append([]byte(nil), v...))
	}
	return t.c.SendData(v)
}
func (t *otTap) SendLabel(v ot.Label, d *ot.LabelData) error {
	t.mu.Lock()
	idx := t.nlabels
	t.nlabels++
	f := t.tamperLabel
	t.mu.Unlock()
	if f != nil {
		v = f(idx, v)
	}
	return t.c.SendLabel(v, d)
}

type iknpPair struct {
	s       *ot.IKNPSender
	r       *ot.IKNPReceiver
	sIO     *otTap
	rIO     *otTap
	delta   ot.Label
	sc, rc  *p2p.Conn
	recheck []func() string // re-validation of the outputs of earlier batches
	dead    bool            // a batch stalled: the connections are held by blocked goroutines
}

// newIKNPPair initialises one sender/receiver pair over an in-memory connection with CO base OT.
func newIKNPPair(rng *rand.Rand, deltaBit0 int) (*iknpPair, error) {
	sc, rc := p2p.Pipe()
	p := &iknpPair{sIO: &otTap{c: sc}, rIO: &otTap{c: rc}, sc: sc, rc: rc}
	var d ot.LabelData
	rng.Read(d[:])
	p.delta.SetData(&d)
	if deltaBit0 == 0 {
		p.delta.D1 &^= 1
	} else if deltaBit0 == 1 {
		p.delta.D1 |= 1
	}
	if int(p.delta.Bit(0)) != deltaBit0 && deltaBit0 >= 0 {
		// bit 0 lives in the other half on this layout
		p.delta.D1 ^= 1
		if int(p.delta.Bit(0)) != deltaBit0 {
			p.delta.D1 ^= 1
			p.delta.D0 ^= 1
		}
	}
	var wg sync.WaitGroup
	var es, er error
	wg.Add(2)
	go func() {
		defer wg.Done()
		co := ot.NewCO(crand.Reader)
		if es = co.InitReceiver(p.sIO); es != nil {
			return
		}
		p.s, es = ot.NewIKNPSender(co, p.sIO, crand.Reader, &p.delta)
	}()
	go func() {
		defer wg.Done()
		co := ot.NewCO(crand.Reader)
		if er = co.InitSender(p.rIO); er != nil {
			return
		}
		p.r, er = ot.NewIKNPReceiver(co, p.rIO, crand.Reader)
	}()
	wg.Wait()
	if es != nil || er != nil {
		return nil, fmt.Errorf("IKNP setup: %v / %v", es, er)
	}
	return p, nil
}

func choicePattern(rng *rand.Rand, n int, pat string) []bool {
	b := make([]bool, n)
	for i := range b {
		switch pat {
		case "ones":
			b[i] = true
		case "alt":
			b[i] = i%2 == 1
		case "rand":
			b[i] = rng.Intn(2) == 1
		case "lastone":
			b[i] = i == n-1
		case "firstchunk":
			b[i] = i < iknpChunkRowsMemoOr512()
		}
	}
	return b
}

type otBatch struct {
	N     int    `json:"n"`
	Mode  string `json:"mode"` // labels | bits | labelsm (malicious)
	Sizes []int  `json:"sizes"`
}

type otCase struct {
	Batches []otBatch `json:"batches"`
}

// runIKNPBatch runs one batch on the pair and checks the correlation at every index.
func runIKNPBatch(res *Result, p *iknpPair, b otBatch, rng *rand.Rand, pat string, what string) bool {
	n := b.N
	flags := choicePattern(rng, n, pat)
	var wg sync.WaitGroup
	var es, er error
	p.rIO.mu.Lock()
	base := len(p.rIO.sentData)
	p.rIO.mu.Unlock()
	switch b.Mode {
	case "labels", "labelsm":
		mal := b.Mode == "labelsm"
		var sent []ot.Label
		recv := make([]ot.Label, n)
		wg.Add(2)
		go func() { defer wg.Done(); sent, es = p.s.Send(n, mal) }()
		go func() { defer wg.Done(); er = p.r.Receive(flags, recv, mal) }()
		if !waitOrStall(&wg, 40*time.Second) {
			p.dead = true
			res.viol("stall:iknp:"+b.Mode, "%s n=%d %s: sender and receiver do not both return (each waits for the other)", what, n, pat)
			return false
		}
		if es != nil || er != nil {
			res.viol("error:iknp:"+b.Mode, "%s n=%d %s: sender %v, receiver %v", what, n, pat, es, er)
			return false
		}
		bad := 0
		first := -1
		for j := 0; j < n; j++ {
			want := sent[j]
			if flags[j] {
				want.Xor(p.delta)
			}
			if !recv[j].Equal(want) {
				bad++
				if first < 0 {
					first = j
				}
			}
		}
		if bad > 0 {
			res.viol("correlation:labels", "%s: label form n=%d choices=%s: %d indices violate received = sent xor choice*Delta (first %d)", what, n, pat, bad, first)
		} else {
			// the outputs of a batch are the caller's: they must still hold after later batches on the same instance
			p.recheck = append(p.recheck, func() string {
				for j := 0; j < n; j++ {
					want := sent[j]
					if flags[j] {
						want.Xor(p.delta)
					}
					if !recv[j].Equal(want) {
						return fmt.Sprintf("%s: label form n=%d: index %d no longer satisfies received = sent xor choice*Delta", what, n, j)
					}
				}
				return ""
			})
		}
	case "bits":
		words := (n + 63) / 64
		choices := make([]uint64, words)
		for j, f := range flags {
			if f {
				choices[j/64] |= 1 << uint(j%64)
			}
		}
		sbits := make([]uint64, words)
		rbits := make([]uint64, words)
		wg.Add(2)
		go func() { defer wg.Done(); es = p.s.SendBits(n, sbits) }()
		go func() { defer wg.Done(); er = p.r.ReceiveBits(choices, rbits, n) }()
		if !waitOrStall(&wg, 40*time.Second) {
			p.dead = true
			res.viol("stall:iknp:bits", "%s n=%d: sender and receiver do not both return (each waits for the other)", what, n)
			return false
		}
		if es != nil || er != nil {
			res.viol("error:iknp:bits", "%s n=%d: sender %v, receiver %v", what, n, es, er)
			return false
		}
		d0 := uint64(p.delta.Bit(0))
		bad, first := 0, -1
		for j := 0; j < n; j++ {
			s := sbits[j/64] >> uint(j%64) & 1
			r := rbits[j/64] >> uint(j%64) & 1
			x := uint64(0)
			if flags[j] {
				x = 1
			}
			if r != s^(x&d0) {
				bad++
				if first < 0 {
					first = j
				}
			}
		}
		if bad > 0 {
			tail := "whole-words"
			if n%64 != 0 && first >= (n/64)*64 {
				tail = "tail-word"
			}
			res.viol("correlation:bits:"+tail, "%s: packed-bit form n=%d choices=%s Delta bit0=%d: %d indices violate r = s xor b*Delta (first %d)", what, n, pat, d0, bad, first)
		}
	}
	// the chunk messages the receiver sent are the ones the specification predicts
	p.rIO.mu.Lock()
	got := append([]int(nil), p.rIO.sentData[base:]...)
	p.rIO.mu.Unlock()
	if len(b.Sizes) > 0 {
		want := append([]int(nil), b.Sizes...)
		if b.Mode == "labelsm" {
			want = append(want, 128*32) // the 256-row check batch
		}
		sum := func(xs []int) (t int) {
			for _, x := range xs {
				t += x
			}
			return
		}
		// with the consistency check the 256 extra rows may travel as a batch of their own or in one pass with the
		// payload rows: only the volume is predicted there
		if b.Mode == "labelsm" && sum(got) == sum(want) {
			got = want
		}
		if fmt.Sprint(got) != fmt.Sprint(want) {
			res.drift("n=%d %s: extension chunk messages %v, specification predicts %v", n, b.Mode, clip(got), clip(want))
		}
	}
	return true
}

func runOTInterface(res *Result, kind string, n int, flags []bool, rng *rand.Rand) {
	sc, rc := p2p.Pipe()
	var sOT, rOT ot.OT
	mk := func() ot.OT {
		switch kind {
		case "co":
			return ot.NewCO(crand.Reader)
		case "rsa":
			return ot.NewRSA(crand.Reader, 1024)
		case "cot", "cotm":
			return ot.NewCOT(ot.NewCO(crand.Reader), crand.Reader, kind == "cotm", false)
		case "rot", "rotm":
			return ot.NewROT(ot.NewCO(crand.Reader), crand.Reader, kind == "rotm", false)
		}
		panic(kind)
	}
	sOT, rOT = mk(), mk()
	wires := make([]ot.Wire, n)
	for i := range wires {
		var d ot.LabelData
		rng.Read(d[:])
		wires[i].L0.SetData(&d)
		rng.Read(d[:])
		wires[i].L1.SetData(&d)
	}
	batches := 1
	if kind != "rsa" {
		batches = 2 // a second batch on the initialised instance
	}
	// an empty batch between the two (COT / ROT): whatever the sender transmits for it must be consumed by the
	// receiver, or the following batch is read out of step
	emptyBetween := (kind == "cot" || kind == "cotm" || kind == "rot" || kind == "rotm") && n%2 == 1
	var wg sync.WaitGroup
	var es, er error
	result := make([][]ot.Label, batches)
	sentWires := make([][]ot.Wire, batches)
	wg.Add(2)
	go func() {
		defer wg.Done()
		if es = sOT.InitSender(sc); es != nil {
			return
		}
		for b := 0; b < batches; b++ {
			w := append([]ot.Wire(nil), wires...)
			if es = sOT.Send(w); es != nil {
				return
			}
			sentWires[b] = w
			sc.Flush()
			if emptyBetween && b == 0 {
				if es = sOT.Send(nil); es != nil {
					return
				}
				sc.Flush()
			}
		}
	}()
	go func() {
		defer wg.Done()
		if er = rOT.InitReceiver(rc); er != nil {
			return
		}
		for b := 0; b < batches; b++ {
			result[b] = make([]ot.Label, n)
			if er = rOT.Receive(flags, result[b]); er != nil {
				return
			}
			if emptyBetween && b == 0 {
				if er = rOT.Receive(nil, nil); er != nil {
					return
				}
			}
		}
	}()
	if !waitOrStall(&wg, 40*time.Second) {
		res.viol("stall:"+kind, "%s OT n=%d: sender and receiver do not both return (each waits for the other)", kind, n)
		return
	}
	if es != nil || er != nil {
		res.viol("error:"+kind, "%s OT n=%d: sender %v, receiver %v", kind, n, es, er)
		return
	}
	for b := 0; b < batches; b++ {
		bad, first := 0, -1
		for j := 0; j < n; j++ {
			want := sentWires[b][j].L0
			if flags[j] {
				want = sentWires[b][j].L1
			}
			if !result[b][j].Equal(want) {
				bad++
				if first < 0 {
					first = j
				}
			}
		}
		if bad > 0 {
			res.viol("wrong-label:"+kind, "%s OT n=%d batch %d: %d positions do not hold the label selected by the choice bit (first %d)", kind, n, b, bad, first)
		}
	}
}

func runCOHelpers(res *Result, n int, flags []bool, rng *rand.Rand) {
	curve := elliptic.P256()
	setup, err := ot.GenerateCOSenderSetup(crand.Reader, curve)
	if err != nil {
		res.viol("error:co-helpers", "GenerateCOSenderSetup: %v", err)
		return
	}
	bundle, points, err := ot.BuildCOChoices(crand.Reader, curve, setup.Ax, setup.Ay, flags)
	if err != nil {
		res.viol("error:co-helpers", "BuildCOChoices: %v", err)
		return
	}
	wires := make([]ot.Wire, n)
	for i := range wires {
		var d ot.LabelData
		rng.Read(d[:])
		wires[i].L0.SetData(&d)
		rng.Read(d[:])
		wires[i].L1.SetData(&d)
	}
	ct, err := ot.EncryptCOCiphertexts(curve, setup, points, wires)
	if err != nil {
		res.viol("error:co-helpers", "EncryptCOCiphertexts: %v", err)
		return
	}
	labels, err := ot.DecryptCOCiphertexts(curve, bundle, ct)
	if err != nil {
		res.viol("error:co-helpers", "DecryptCOCiphertexts: %v", err)
		return
	}
	for j := 0; j < n; j++ {
		want := wires[j].L0
		if flags[j] {
			want = wires[j].L1
		}
		if !labels[j].Equal(want) {
			res.viol("wrong-label:co-helpers", "CO helper functions n=%d: position %d does not hold the chosen label", n, j)
			return
		}
	}
}

// iknpChunkRows measures the number of matrix rows the implementation sends per message: the largest message of an
// honest semi-honest batch of 16384 rows carries K/8 = 16 bytes per row.
var iknpChunkRowsMemo int

func iknpChunkRows() (int, error) {
	if iknpChunkRowsMemo > 0 {
		return iknpChunkRowsMemo, nil
	}
	rng := rand.New(rand.NewSource(1))
	p, err := newIKNPPair(rng, 0)
	if err != nil {
		return 0, err
	}
	defer p.sc.Close()
	defer p.rc.Close()
	n := 16384
	p.rIO.mu.Lock()
	base := len(p.rIO.sentData)
	p.rIO.mu.Unlock()
	var wg sync.WaitGroup
	var es, er error
	wg.Add(2)
	go func() { defer wg.Done(); _, es = p.s.Send(n, false) }()
	go func() { defer wg.Done(); er = p.r.Receive(make([]bool, n), make([]ot.Label, n), false) }()
	if !waitOrStall(&wg, 60*time.Second) || es != nil || er != nil {
		return 0, fmt.Errorf("measuring the extension chunk size: %v / %v", es, er)
	}
	p.rIO.mu.Lock()
	defer p.rIO.mu.Unlock()
	max := 0
	for _, sz := range p.rIO.sentData[base:] {
		if sz > max {
			max = sz
		}
	}
	if max == 0 || max%16 != 0 {
		return 0, fmt.Errorf("measuring the extension chunk size: messages %v", p.rIO.sentData[base:])
	}
	iknpChunkRowsMemo = max / 16
	return iknpChunkRowsMemo, nil
}

func iknpChunkRowsMemoOr512() int {
	if iknpChunkRowsMemo > 0 {
		return iknpChunkRowsMemo
	}
	return 512
}

func c06Main(args []string) error {
	if len(args) >= 1 && args[0] == "consts" {
		r, err := iknpChunkRows()
		if err != nil {
			return err
		}
		fmt.Printf("{\"chunk_rows\": %d}\n", r)
		return nil
	}
	if len(args) < 3 || args[0] != "run" {
		return fmt.Errorf("usage: vh c06 run cases results")
	}
	out, err := newND(args[2])
	if err != nil {
		return err
	}
	defer out.close()
	if _, err := iknpChunkRows(); err != nil {
		return err
	}
	rng := rand.New(rand.NewSource(seed()*141650939 + 6))
	pats := []string{"zeros", "ones", "alt", "rand", "lastone", "firstchunk"}
	idx := 0
	nviol := 0
	err = readND(args[1], func(raw json.RawMessage) error {
		var oc otCase
		if err := json.Unmarshal(raw, &oc); err != nil {
			return err
		}
		if nviol >= 6 {
			return nil
		}
		res := &Result{Case: idx, Nontrivial: len(oc.Batches) > 1 || oc.Batches[0].N > 512}
		p, err := newIKNPPair(rng, idx%2)
		if err != nil {
			return err
		}
		for bi, b := range oc.Batches {
			pat := pats[(idx+bi)%len(pats)]
			if !runIKNPBatch(res, p, b, rng, pat, fmt.Sprintf("batch %d of %v", bi, batchDesc(oc.Batches))) {
				break
			}
		}
		for _, f := range p.recheck {
			if msg := f(); msg != "" {
				res.viol("correlation:labels:after-later-batch", "the outputs of an earlier batch changed when a later batch ran on the same sender/receiver: %s", msg)
				break
			}
		}
		if !p.dead {
			p.sc.Close()
			p.rc.Close()
		}
		res.Class = "iknp"
		if idx < 2 {
			res.Sample = oc
		}
		if len(res.Viol) > 0 {
			nviol++
		}
		idx++
		out.put(res)
		return nil
	})
	if err != nil {
		return err
	}
	// the ot.OT implementations on boundary sizes
	sizes := []int{1, 7, 8, 9, 63, 65, 128, 129, 513}
	kinds := []string{"co", "cot", "cotm", "rot", "rotm", "rsa"}
	if thorough() {
		sizes = []int{1, 2, 7, 8, 9, 15, 16, 17, 63, 64, 65, 127, 128, 129, 130, 511, 512, 513, 1023, 1024, 1025, 1537, 2049}
	}
	for _, k := range kinds {
		for si, n := range sizes {
			if k == "rsa" && n > 17 {
				continue
			}
			if !thorough() && (si+len(k))%3 != 0 && n != 1 && n != 513 {
				continue
			}
			res := &Result{Case: idx, Class: "ot:" + k, Nontrivial: n > 8}
			runOTInterface(res, k, n, choicePattern(rng, n, pats[(idx)%4]), rng)
			if len(res.Viol) > 0 {
				nviol++
			}
			idx++
			out.put(res)
		}
	}
	for _, n := range []int{1, 9, 256} {
		res := &Result{Case: idx, Class: "co-helpers", Nontrivial: true}
		runCOHelpers(res, n, choicePattern(rng, n, "rand"), rng)
		idx++
		out.put(res)
	}
	return nil
}

func batchDesc(bs []otBatch) string {
	s := ""
	for _, b := range bs {
		s += fmt.Sprintf("%s:%d ", b.Mode, b.N)
	}
	return s
}
