package main

// C01: garbled evaluation equals plain evaluation.
//
//   vh c01 replay cases.ndjson results.ndjson
//       every (circuit, inputs) enumerated by specs/GarbleGen.tla is garbled and
//       evaluated by the real code with several keys/randomness; every wire must
//       carry one of its two labels and decode to the predicted bit.
//   vh c01 record garble_trace.ndjson results.ndjson n
//       random circuits over 3 inputs; permute bits, row counts and decoded bits
//       are logged for validation by specs/GarbleTrace.tla.

import (
	"bytes"
	"encoding/json"
	"fmt"
	"io"
	"math/big"
	"math/rand"

	"github.com/markkurossi/mpc/circuit"
	"github.com/markkurossi/mpc/ot"
	"github.com/markkurossi/mpc/types"
)

func init() { commands["c01"] = c01Main }

type gGate struct {
	Op string `json:"op"`
	A  int    `json:"a"`
	B  int    `json:"b"`
}

type gCase struct {
	Nin   int     `json:"nin"`
	Gates []gGate `json:"gates"`
	Inp   []int   `json:"inp"`
	Plain []int   `json:"plain"`
	Rows  []int   `json:"rows"`
}

func opOf(s string) circuit.Operation {
	switch s {
	case "XOR":
		return circuit.XOR
	case "XNOR":
		return circuit.XNOR
	case "AND":
		return circuit.AND
	case "OR":
		return circuit.OR
	case "INV":
		return circuit.INV
	}
	panic("bad op " + s)
}

func ioBits(name string, bits int) circuit.IOArg {
	return circuit.IOArg{Name: name, Type: types.Info{Type: types.TUint, IsConcrete: true, Bits: types.Size(bits)}}
}

// mkCircuit builds the circuit.Circuit for a generated case; every gate
// output wire is declared an output so that Compute reports all of them.
func mkCircuit(nin int, gs []gGate) *circuit.Circuit {
	c := &circuit.Circuit{
		NumGates: len(gs),
		NumWires: nin + len(gs),
		Inputs:   circuit.IO{ioBits("in", nin)},
		Outputs:  circuit.IO{ioBits("out", len(gs))},
	}
	for i, g := range gs {
		c.Gates = append(c.Gates, circuit.Gate{
			Input0: circuit.Wire(g.A), Input1: circuit.Wire(g.B), Output: circuit.Wire(nin + i), Op: opOf(g.Op),
		})
	}
	return c
}

// c01WideInputs: the plain evaluator on input ARGUMENTS wider than a machine word, several arguments and compound
// arguments, each value given once as a non-negative number and once as the negative number with the same two's
// complement bits: Compute must return the truth-table bits in every case (and so must Garble + Eval).
func c01WideInputs(out *ndWriter, rng *rand.Rand, base int) {
	shapes := [][]int{{128}, {96, 32}, {65, 1, 70}, {64, 64}}
	for si, widths := range shapes {
		res := &Result{Case: base + si, Class: "wide-input-arguments", Nontrivial: true}
		nin := 0
		for _, w := range widths {
			nin += w
		}
		var gs []gGate
		ops := []string{"XOR", "XNOR", "AND", "OR", "INV"}
		for k := 0; k < 40; k++ {
			op := ops[rng.Intn(5)]
			a, b := rng.Intn(nin+k), rng.Intn(nin+k)
			if k < 12 {
				a = nin - 1 - rng.Intn(70) // the high wires of the arguments
			}
			if op == "INV" {
				b = a
			}
			gs = append(gs, gGate{op, a, b})
		}
		c := mkCircuit(nin, gs)
		// argument structure: the first shape is one plain argument, the others one compound argument
		if len(widths) > 1 {
			arg := circuit.IOArg{Name: "in", Type: types.Info{Type: types.TStruct, IsConcrete: true, Bits: types.Size(nin)}}
			for i, w := range widths {
				arg.Compound = append(arg.Compound, circuit.IOArg{Name: fmt.Sprintf("m%d", i), Type: types.Info{Type: types.TInt, IsConcrete: true, Bits: types.Size(w)}})
			}
			c.Inputs = circuit.IO{arg}
		}
		for rep := 0; rep < 9; rep++ {
			inp := make([]int, nin)
			for i := range inp {
				inp[i] = rng.Intn(2)
			}
			ofs := 0
			var pos, neg []*big.Int
			for _, w := range widths {
				// values whose negative spelling is a small number (-1, -k): every bit above the low ones is set
				for i := 0; i < w && rep < 3; i++ {
					if rep == 0 || i >= 8+20*rep {
						inp[ofs+i] = 1
					}
				}
				inp[ofs+w-1] = 1 // top bit set: the negative spelling exists
				v := new(big.Int)
				for i := 0; i < w; i++ {
					if inp[ofs+i] == 1 {
						v.SetBit(v, i, 1)
					}
				}
				pos = append(pos, v)
				neg = append(neg, new(big.Int).Sub(v, new(big.Int).Lsh(big.NewInt(1), uint(w))))
				ofs += w
			}
			plain := plainEval(nin, gs, inp)
			for vi, in := range [][]*big.Int{pos, neg} {
				o, err := c.Compute(in)
				if err != nil {
					res.viol("compute-error", "Compute on arguments of %v bits: %v", widths, err)
					break
				}
				for i := range gs {
					if int(o[0].Bit(i)) != plain[nin+i] {
						res.viol("compute:wide-arguments", "Compute on arguments of %v bits (%s spelling %v): output of gate %d (%s %d %d) is %d, truth table gives %d",
							widths, []string{"non-negative", "negative"}[vi], in, i, gs[i].Op, gs[i].A, gs[i].B, o[0].Bit(i), plain[nin+i])
						break
					}
				}
			}
			if len(res.Viol) > 0 {
				break
			}
		}
		out.put(res)
	}
}

func sbit(l ot.Label) int {
	if l.S() {
		return 1
	}
	return 0
}

type gObs struct {
	sin   []int
	sc0   []int
	rows  []int
	sact  []int
	bit   []int
	tuple []string
}

// garbleOnce runs Garble, Eval and Compute once and reports findings.
var c01KeyBuf = make([]byte, 32)

// degenerate randomness sources: the property quantifies over every randomness, also an all-zero, all-one,
// counting or one-bit-per-byte stream (labels and R of low or full Hamming weight, labels that coincide)
type patRand struct {
	kind string
	n    int
}

func (p *patRand) Read(b []byte) (int, error) {
	for i := range b {
		switch p.kind {
		case "zero":
			b[i] = 0
		case "ones":
			b[i] = 0xff
		case "count":
			b[i] = byte(p.n / 16) // one value per 16-byte label
		case "sparse":
			b[i] = 0
			if p.n%16 == 15-(p.n/16)%16 {
				b[i] = 1 << uint((p.n/256)%8)
			}
		}
		p.n++
	}
	return len(b), nil
}

// lblBytes compares labels without the library's own comparison
func lblSame(a, b ot.Label) bool {
	var da, db ot.LabelData
	return bytes.Equal(a.Bytes(&da), b.Bytes(&db))
}

func garbleOnce(res *Result, c *circuit.Circuit, gc *gCase, rng *rand.Rand, keyLen int, pat ...string) *gObs {
	// one key buffer serves all garblings (Garble must not retain the caller's slice)
	key := c01KeyBuf[:keyLen]
	if len(pat) > 1 && pat[1] == "keep-key-bytes" {
		// the key of this garbling is a prefix / an extension of the previous call's key bytes
	} else {
		rng.Read(key)
	}
	var src io.Reader = rng
	if len(pat) > 0 && pat[0] != "" {
		src = &patRand{kind: pat[0]}
	}
	garbled, err := c.Garble(src, key)
	if err != nil {
		res.viol("garble-error", "Garble: %v", err)
		return nil
	}
	defer garbled.Release()
	if rng.Intn(2) == 0 {
		// a second garbling of the same circuit value while the first is still in use: every garbling owns its
		// labels and tables until it is released
		key2 := make([]byte, keyLen)
		rng.Read(key2)
		if g2, err := c.Garble(rng, key2); err == nil {
			defer g2.Release()
		}
	}
	obs := &gObs{}
	if !garbled.R.S() {
		res.viol("R-permute-bit", "permute bit of R is 0")
	}
	for w := 0; w < c.NumWires; w++ {
		x := garbled.Wires[w].L0
		x.Xor(garbled.Wires[w].L1)
		if !lblSame(x, garbled.R) {
			res.viol("free-xor", "wire %d: L0 xor L1 != R", w)
		}
	}
	wires := make([]ot.Label, c.NumWires)
	for i := 0; i < gc.Nin; i++ {
		wires[i] = circuit.LabelForBit(garbled.Wires[i], gc.Inp[i] == 1)
		obs.sin = append(obs.sin, sbit(garbled.Wires[i].L0))
	}
	// Eval gets its own copy of the tables, as the evaluator does after transport.
	tables := make([][]ot.Label, len(garbled.Gates))
	for i, row := range garbled.Gates {
		tables[i] = append([]ot.Label(nil), row...)
		obs.rows = append(obs.rows, len(row))
		if len(row) != gc.Rows[i] {
			res.viol("rows:"+gc.Gates[i].Op, "gate %d (%s): %d rows transmitted, specification %d", i, gc.Gates[i].Op, len(row), gc.Rows[i])
		}
	}
	if err := c.Eval(key, wires, tables); err != nil {
		res.viol("eval-error", "Eval: %v", err)
		return nil
	}
	for w := 0; w < c.NumWires; w++ {
		bit, err := circuit.BitFromLabel(garbled.Wires[w], wires[w])
		b := -1
		if err != nil {
			op := "input"
			if w >= gc.Nin {
				op = gc.Gates[w-gc.Nin].Op
			}
			res.viol("not-a-label:"+op, "wire %d (%s): evaluated label is neither L0 nor L1 (key %d bytes)", w, op, keyLen)
		} else {
			b = 0
			if bit {
				b = 1
			}
			if b != gc.Plain[w] {
				res.viol("wrong-bit:"+map[bool]string{true: "input", false: "gate"}[w < gc.Nin], "wire %d decodes to %d, truth table gives %d", w, b, gc.Plain[w])
			}
		}
		// byte for byte: the evaluated label is the wire's label for the truth-table bit
		want := garbled.Wires[w].L0
		if gc.Plain[w] == 1 {
			want = garbled.Wires[w].L1
		}
		if err == nil && !lblSame(wires[w], want) {
			res.viol("wrong-label", "wire %d: the evaluated label is not the label of bit %d", w, gc.Plain[w])
		}
		if w >= gc.Nin {
			g := gc.Gates[w-gc.Nin]
			obs.sc0 = append(obs.sc0, sbit(garbled.Wires[w].L0))
			obs.sact = append(obs.sact, sbit(wires[w]))
			obs.bit = append(obs.bit, b)
			obs.tuple = append(obs.tuple, fmt.Sprintf("%s:%d%d%d%d", g.Op, sbit(garbled.Wires[g.A].L0), sbit(garbled.Wires[g.B].L0), gc.Plain[g.A], gc.Plain[g.B]))
		}
	}
	// the library's own plain evaluator
	in := new(big.Int)
	for i := 0; i < gc.Nin; i++ {
		if gc.Inp[i] == 1 {
			in.SetBit(in, i, 1)
		}
	}
	out, err := c.Compute([]*big.Int{in})
	if err != nil {
		res.viol("compute-error", "Compute: %v", err)
	} else {
		for i := range gc.Gates {
			if int(out[0].Bit(i)) != gc.Plain[gc.Nin+i] {
				res.viol("compute:"+gc.Gates[i].Op, "Compute: output of gate %d (%s) is %d, truth table gives %d", i, gc.Gates[i].Op, out[0].Bit(i), gc.Plain[gc.Nin+i])
			}
		}
	}
	return obs
}

func plainEval(nin int, gs []gGate, inp []int) []int {
	v := append([]int(nil), inp...)
	for _, g := range gs {
		a, b := v[g.A], v[g.B]
		var r int
		switch g.Op {
		case "XOR":
			r = a ^ b
		case "XNOR":
			r = 1 - (a ^ b)
		case "AND":
			r = a & b
		case "OR":
			r = a | b
		case "INV":
			r = 1 - a
		}
		v = append(v, r)
	}
	return v
}

func c01Main(args []string) error {
	if len(args) < 3 {
		return fmt.Errorf("usage: vh c01 replay|record in out [n]")
	}
	rng := rand.New(rand.NewSource(seed()*15485863 + 1))
	keyLens := []int{16, 24, 32}
	tuples := map[string]bool{}
	switch args[0] {
	case "replay":
		out, err := newND(args[2])
		if err != nil {
			return err
		}
		defer out.close()
		idx := 0
		reps := 4
		if thorough() {
			reps = 7
		}
		err = readND(args[1], func(raw json.RawMessage) error {
			var gc gCase
			if err := json.Unmarshal(raw, &gc); err != nil {
				return err
			}
			res := &Result{Case: idx}
			c := mkCircuit(gc.Nin, gc.Gates)
			for r := 0; r < reps && len(res.Viol) == 0; r++ {
				pat := ""
				if r == reps-1 {
					pat = []string{"zero", "ones", "count", "sparse"}[idx%4]
				}
				keep := ""
				if r == 2 && idx%2 == 1 {
					keep = "keep-key-bytes" // the key length changes here: 16 -> 24, 24 -> 32 or 32 -> 16 of the same bytes
				}
				obs := garbleOnce(res, c, &gc, rng, keyLens[(idx+r/2)%3], pat, keep) // two garblings in a row with one key length
				if obs != nil {
					for _, t := range obs.tuple {
						tuples[t] = true
					}
				}
			}
			res.Nontrivial = len(gc.Gates) >= 2
			if idx < 3 {
				res.Sample = gc
			}
			idx++
			out.put(res)
			return nil
		})
		c01WideInputs(out, rng, 5000000)
		out.put(map[string]interface{}{"case": -1, "nontrivial": false, "class": "summary", "sample": map[string]interface{}{"permute_tuples_observed": len(tuples)}})
		return err
	case "record":
		n := 50
		if len(args) > 3 {
			fmt.Sscan(args[3], &n)
		}
		tr, err := newND(args[1])
		if err != nil {
			return err
		}
		defer tr.close()
		out, err := newND(args[2])
		if err != nil {
			return err
		}
		defer out.close()
		ops := []string{"XOR", "XNOR", "AND", "OR", "INV"}
		for i := 0; i < n; i++ {
			nin := 3
			ng := 1 + rng.Intn(6)
			var gs []gGate
			for k := 0; k < ng; k++ {
				op := ops[rng.Intn(5)]
				a := rng.Intn(nin + k)
				b := rng.Intn(nin + k)
				if op == "INV" {
					b = a
				}
				gs = append(gs, gGate{op, a, b})
			}
			inp := []int{rng.Intn(2), rng.Intn(2), rng.Intn(2)}
			gc := &gCase{Nin: nin, Gates: gs, Inp: inp, Plain: plainEval(nin, gs, inp)}
			for _, g := range gs {
				gc.Rows = append(gc.Rows, map[string]int{"AND": 2, "OR": 3, "INV": 1}[g.Op])
			}
			res := &Result{Case: i, Nontrivial: ng >= 2}
			obs := garbleOnce(res, mkCircuit(nin, gs), gc, rng, keyLens[i%3])
			out.put(res)
			if obs == nil {
				continue
			}
			tr.put(map[string]interface{}{"ev": "circ", "nin": nin, "gates": gs, "inp": inp, "sin": obs.sin})
			for k := range gs {
				tr.put(map[string]interface{}{"ev": "ggate", "i": k + 1, "sc0": obs.sc0[k], "rows": obs.rows[k]})
			}
			tr.put(map[string]interface{}{"ev": "eval"})
			for k := range gs {
				tr.put(map[string]interface{}{"ev": "egate", "i": k + 1, "sact": obs.sact[k], "bit": obs.bit[k]})
			}
			tr.put(map[string]interface{}{"ev": "done"})
		}
		return nil
	}
	return fmt.Errorf("unknown c01 mode")
}
