package main

// Shared two-party session machinery for C02, C04, C16 (whole-circuit mode)
// and C05 (streaming mode): a harness transport that records, fragments and
// corrupts, recording randomness, and an ot.OT wrapper that logs what is
// handed to oblivious transfer.

import (
	"crypto/aes"
	"crypto/cipher"
	crand "crypto/rand"
	"encoding/binary"
	"fmt"
	"math/big"
	"math/rand"
	"strings"
	"sync"
	"time"

	"github.com/markkurossi/mpc/circuit"
	"github.com/markkurossi/mpc/compiler"
	"github.com/markkurossi/mpc/compiler/utils"
	"github.com/markkurossi/mpc/env"
	"github.com/markkurossi/mpc/ot"
	"github.com/markkurossi/mpc/p2p"
)

// detRand is a deterministic random reader (AES-CTR keyed by a seed) that
// records every byte it hands out, so that the garbler's R and labels can be
// recomputed exactly.
type detRand struct {
	mu     sync.Mutex
	stream cipher.Stream
	log    []byte
	max    int // > 0: a Read returns at most max bytes (io.Reader allows short reads)
}

func newDetRand(seed uint64) *detRand {
	var key [16]byte
	binary.LittleEndian.PutUint64(key[:], seed)
	binary.LittleEndian.PutUint64(key[8:], mix(seed))
	blk, _ := aes.NewCipher(key[:])
	var iv [16]byte
	return &detRand{stream: cipher.NewCTR(blk, iv[:])}
}

func (d *detRand) Read(p []byte) (int, error) {
	d.mu.Lock()
	defer d.mu.Unlock()
	if d.max > 0 && len(p) > d.max {
		p = p[:d.max]
	}
	for i := range p {
		p[i] = 0
	}
	d.stream.XORKeyStream(p, p)
	d.log = append(d.log, p...)
	return len(p), nil
}

// sessPipe is one direction of a session transport.
type sessPipe struct {
	mu        sync.Mutex
	cond      *sync.Cond
	buf       []byte
	rd        int
	total     int // bytes written so far (stream offset of next byte)
	record    bool
	all       []byte // complete transcript when record is set
	rng       *rand.Rand
	corruptAt int // stream offset of first corrupted byte, -1 = none
	mask      []byte
	closed    bool
	capacity  int  // >0: Write blocks while more than capacity bytes are unread (a slow peer)
	waiting   bool // the reader is blocked on an empty pipe
	lastMove  time.Time
}

func newSessPipe() *sessPipe {
	p := &sessPipe{corruptAt: -1, lastMove: time.Now()}
	p.cond = sync.NewCond(&p.mu)
	return p
}

func (p *sessPipe) Write(b []byte) (int, error) {
	p.mu.Lock()
	defer p.mu.Unlock()
	for p.capacity > 0 && len(p.buf)-p.rd > p.capacity && !p.closed {
		p.cond.Wait()
	}
	if p.closed {
		return 0, fmt.Errorf("harness: transport closed")
	}
	start := len(p.buf)
	p.buf = append(p.buf, b...)
	if p.record {
		p.all = append(p.all, b...)
	}
	if p.corruptAt >= 0 {
		for i, m := range p.mask {
			off := p.corruptAt + i - p.total
			if off >= 0 && off < len(b) {
				p.buf[start+off] ^= m
			}
		}
	}
	p.total += len(b)
	p.lastMove = time.Now()
	p.cond.Broadcast()
	return len(b), nil
}

func (p *sessPipe) Read(b []byte) (int, error) {
	p.mu.Lock()
	defer p.mu.Unlock()
	for len(p.buf)-p.rd == 0 {
		if p.closed {
			return 0, fmt.Errorf("harness: transport closed")
		}
		p.waiting = true
		p.cond.Wait()
	}
	p.waiting = false
	n := len(p.buf) - p.rd
	if n > len(b) {
		n = len(b)
	}
	if p.rng != nil && n > 1 {
		switch p.rng.Intn(4) {
		case 0:
			n = 1
		case 1:
			n = 1 + p.rng.Intn(n)
		case 2:
			if n > 19 {
				n = 1 + p.rng.Intn(19)
			}
		}
	}
	copy(b, p.buf[p.rd:p.rd+n])
	p.rd += n
	p.lastMove = time.Now()
	if p.capacity > 0 {
		p.cond.Broadcast()
	}
	return n, nil
}

func (p *sessPipe) close() {
	p.mu.Lock()
	p.closed = true
	p.cond.Broadcast()
	p.mu.Unlock()
}

// idle reports whether the reader is blocked on an empty pipe and nothing moved for d.
func (p *sessPipe) idle(d time.Duration) bool {
	p.mu.Lock()
	defer p.mu.Unlock()
	return p.waiting && len(p.buf)-p.rd == 0 && time.Since(p.lastMove) > d
}

type sessRW struct {
	r, w *sessPipe
}

func (s *sessRW) Read(b []byte) (int, error)  { return s.r.Read(b) }
func (s *sessRW) Write(b []byte) (int, error) { return s.w.Write(b) }

// otLog wraps an ot.OT and records what the protocol hands to it.
type otLog struct {
	inner     ot.OT
	mu        sync.Mutex
	sent      [][]ot.Wire
	recvFlags [][]bool
	initS     int
	initR     int
	conn      *p2p.Conn // the connection the OT runs on (set by Init*)
	posInit   int       // stream position (bytes written by this party) when OT initialisation began
	posEnd    int       // stream position when the last Send/Receive returned
	afterOT   func()    // called when a Send/Receive has returned (a scheduling gate for overlapping sessions)
}

// wpos is the number of bytes this party has written to its connection so far (flushed or buffered).
func (o *otLog) wpos() int {
	if o.conn == nil {
		return -1
	}
	return int(o.conn.Stats.Sent.Load()) + o.conn.WritePos
}

func (o *otLog) InitSender(io ot.IO) error {
	o.mu.Lock()
	o.initS++
	if c, ok := io.(*p2p.Conn); ok {
		o.conn = c
		o.posInit = o.wpos()
	}
	o.mu.Unlock()
	return o.inner.InitSender(io)
}
func (o *otLog) InitReceiver(io ot.IO) error {
	o.mu.Lock()
	o.initR++
	if c, ok := io.(*p2p.Conn); ok {
		o.conn = c
		o.posInit = o.wpos()
	}
	o.mu.Unlock()
	return o.inner.InitReceiver(io)
}
func (o *otLog) Send(wires []ot.Wire) error {
	o.mu.Lock()
	o.sent = append(o.sent, append([]ot.Wire(nil), wires...))
	o.mu.Unlock()
	err := o.inner.Send(wires)
	o.posEnd = o.wpos()
	if o.afterOT != nil {
		o.afterOT()
	}
	return err
}
func (o *otLog) Receive(flags []bool, result []ot.Label) error {
	o.mu.Lock()
	o.recvFlags = append(o.recvFlags, append([]bool(nil), flags...))
	o.mu.Unlock()
	err := o.inner.Receive(flags, result)
	o.posEnd = o.wpos()
	if o.afterOT != nil {
		o.afterOT()
	}
	return err
}

func mkOT(kind string) ot.OT {
	switch kind {
	case "co":
		return ot.NewCO(crand.Reader)
	case "rsa":
		return ot.NewRSA(crand.Reader, 1024)
	case "rsa2048":
		return ot.NewRSA(crand.Reader, 2048)
	case "cot":
		return ot.NewCOT(ot.NewCO(crand.Reader), crand.Reader, false, false)
	case "cotm":
		return ot.NewCOT(ot.NewCO(crand.Reader), crand.Reader, true, false)
	}
	panic("unknown OT kind " + kind)
}

type sessOpts struct {
	ot        string
	fragment  *rand.Rand // nil: no artificial fragmentation
	record    bool
	randSeed  uint64
	corruptGE bool // direction of corruption: garbler->evaluator if true
	corruptAt int  // -1 none
	mask      []byte
	timeout   time.Duration
	capacity  int
	shortRand int    // > 0: the randomness source returns at most this many bytes per Read
	gAfterOT  func() // gates: run when the garbler's / the evaluator's OT step has returned
	eAfterOT  func()
}

type sessResult struct {
	gOut, eOut   []*big.Int
	gErr, eErr   error
	gPanic       string
	ePanic       string
	stalled      bool
	g2e, e2g     []byte
	gRand        []byte
	otG, otE     *otLog
	bytesGE      int
	bytesEG      int
	preOTBytesGE int
	gIO, eIO     circuit.IO
}

// runWhole runs one whole-circuit session of circuit.Garbler and circuit.Evaluator.
func runWhole(circ *circuit.Circuit, x, y *big.Int, o sessOpts) *sessResult {
	return runSession(o,
		func(cfg *env.Config, conn *p2p.Conn, oti ot.OT) ([]*big.Int, error) {
			return circuit.Garbler(cfg, conn, oti, circ, x, false)
		},
		func(conn *p2p.Conn, oti ot.OT) ([]*big.Int, error) {
			return circuit.Evaluator(conn, oti, circ, y, false)
		})
}

// streamSourceName is the source name streaming sessions compile under (a path when the program needs files next to it)
var streamSourceName = "{verif}"

// runStream runs one streaming session: compiler.Stream against circuit.StreamEvaluator.
// The output types of both sides are returned in gIO / eIO.
func runStream(src string, x, y []string, o sessOpts, sizes ...[][]int) *sessResult {
	var gIO, eIO circuit.IO
	var inputSizes [][]int
	if len(sizes) > 0 {
		inputSizes = sizes[0]
	}
	res := runSession(o,
		func(cfg *env.Config, conn *p2p.Conn, oti ot.OT) ([]*big.Int, error) {
			params := utils.NewParams()
			params.Config = cfg
			params.MPCLCErrorLoc = false
			io, out, err := compiler.New(params).Stream(conn, oti, streamSourceName, strings.NewReader(src), x, inputSizes)
			gIO = io
			return out, err
		},
		func(conn *p2p.Conn, oti ot.OT) ([]*big.Int, error) {
			io, out, err := circuit.StreamEvaluator(conn, oti, y, nil, false)
			eIO = io
			return out, err
		})
	res.gIO, res.eIO = gIO, eIO
	return res
}

func runSession(o sessOpts, gfun func(*env.Config, *p2p.Conn, ot.OT) ([]*big.Int, error),
	efun func(*p2p.Conn, ot.OT) ([]*big.Int, error)) *sessResult {
	ge, eg := newSessPipe(), newSessPipe()
	ge.record, eg.record = o.record, o.record
	ge.capacity, eg.capacity = o.capacity, o.capacity
	if o.fragment != nil {
		ge.rng = rand.New(rand.NewSource(o.fragment.Int63()))
		eg.rng = rand.New(rand.NewSource(o.fragment.Int63()))
	}
	if o.corruptAt >= 0 {
		if o.corruptGE {
			ge.corruptAt, ge.mask = o.corruptAt, o.mask
		} else {
			eg.corruptAt, eg.mask = o.corruptAt, o.mask
		}
	}
	gconn := p2p.NewConn(&sessRW{r: eg, w: ge})
	econn := p2p.NewConn(&sessRW{r: ge, w: eg})
	res := &sessResult{otG: &otLog{inner: mkOT(o.ot), afterOT: o.gAfterOT}, otE: &otLog{inner: mkOT(o.ot), afterOT: o.eAfterOT}}
	dr := newDetRand(o.randSeed)
	dr.max = o.shortRand
	cfg := &env.Config{Rand: dr}

	var wg sync.WaitGroup
	wg.Add(2)
	go func() {
		defer wg.Done()
		defer func() {
			if r := recover(); r != nil {
				res.gPanic = fmt.Sprint(r)
				ge.close()
				eg.close()
			}
		}()
		res.gOut, res.gErr = gfun(cfg, gconn, res.otG)
		if res.gErr != nil {
			// an erring party drops the connection
			ge.close()
			eg.close()
		}
	}()
	go func() {
		defer wg.Done()
		defer func() {
			if r := recover(); r != nil {
				res.ePanic = fmt.Sprint(r)
				ge.close()
				eg.close()
			}
		}()
		res.eOut, res.eErr = efun(econn, res.otE)
		if res.eErr != nil {
			ge.close()
			eg.close()
		}
	}()
	done := make(chan struct{})
	go func() {
		wg.Wait()
		close(done)
	}()
	timeout := o.timeout
	if timeout == 0 {
		timeout = 60 * time.Second
	}
	deadline := time.After(timeout)
	tick := time.NewTicker(5 * time.Millisecond)
	defer tick.Stop()
loop:
	for {
		select {
		case <-done:
			break loop
		case <-deadline:
			res.stalled = true
			ge.close()
			eg.close()
			<-done
			break loop
		case <-tick.C:
			// both parties blocked reading empty pipes: the session is dead
			if o.corruptAt >= 0 && ge.idle(150*time.Millisecond) && eg.idle(150*time.Millisecond) {
				res.stalled = true
				ge.close()
				eg.close()
				<-done
				break loop
			}
		}
	}
	ge.close()
	eg.close()
	res.g2e, res.e2g = ge.all, eg.all
	res.bytesGE, res.bytesEG = ge.total, eg.total
	res.gRand = dr.log
	return res
}

// regarble recomputes the garbling the garbler produced from its recorded randomness
// (key = first 32 bytes, the rest feeds Circuit.Garble).
type replayReader struct {
	b   []byte
	off int
	max int
}

func (r *replayReader) Read(p []byte) (int, error) {
	if r.max > 0 && len(p) > r.max {
		p = p[:r.max]
	}
	if r.off+len(p) > len(r.b) {
		return 0, fmt.Errorf("replay randomness exhausted")
	}
	copy(p, r.b[r.off:r.off+len(p)])
	r.off += len(p)
	return len(p), nil
}

func regarble(circ *circuit.Circuit, gRand []byte, shortRand ...int) (*circuit.Garbled, []byte, error) {
	if len(gRand) < 48 {
		return nil, nil, fmt.Errorf("garbler drew only %d random bytes", len(gRand))
	}
	key := gRand[:32]
	rr := &replayReader{b: gRand[32:]}
	if len(shortRand) > 0 {
		rr.max = shortRand[0]
	}
	g, err := circ.Garble(rr, key)
	return g, key, err
}

func bitsToBig(bits []int) *big.Int {
	v := new(big.Int)
	for i, b := range bits {
		if b == 1 {
			v.SetBit(v, i, 1)
		}
	}
	return v
}
