package main

// C13: input and output value encoding.
//
//   vh c13 replay cases.ndjson results.ndjson
//       cases of specs/IOEnc.tla (members, values as bit sequences, expected wires): every case is
//       driven through IOArg.Parse (several spellings), IOArg.Set (Go values), InputSizes +
//       Info.InstantiateWithSizes + Parse (unsized variants) and mpc.Result / mpc.Results, and the
//       bits on the wires / the decoded values are compared with the specification's.
//   vh c13 wide results.ndjson trace.ndjson n
//       randomly drawn arguments with member widths 1..130: the observed wires and decoded values
//       are recorded as events for specs/IOEncTrace.tla.

import (
	"encoding/json"
	"fmt"
	"github.com/markkurossi/mpc/compiler"
	"github.com/markkurossi/mpc/compiler/utils"
	"math/big"
	"math/rand"
	"reflect"
	"strings"
	"unicode"

	mpc "github.com/markkurossi/mpc"
	"github.com/markkurossi/mpc/circuit"
	"github.com/markkurossi/mpc/types"
)

func init() { commands["c13"] = c13Main }

type ioMember struct {
	K  string `json:"k"`  // u, i, b, a (array), s (slice)
	Ek string `json:"ek"` // element kind of arrays
	W  int    `json:"w"`
	N  int    `json:"n"`
}

type ioCase struct {
	Ts    []ioMember        `json:"ts"`
	Vs    []json.RawMessage `json:"vs"`
	Wires []int             `json:"wires"`
}

func (m ioMember) isArr() bool { return m.K == "a" || m.K == "s" }
func (m ioMember) bits() int {
	if m.isArr() {
		return m.W * m.N
	}
	return m.W
}

func scalarInfo(kind string, w int) types.Info {
	t := types.TUint
	switch kind {
	case "i":
		t = types.TInt
	case "b":
		t = types.TBool
	}
	return types.Info{Type: t, IsConcrete: true, Bits: types.Size(w), MinBits: types.Size(w)}
}

func (m ioMember) info() types.Info {
	if !m.isArr() {
		return scalarInfo(m.K, m.W)
	}
	el := scalarInfo(m.Ek, m.W)
	t := types.TArray
	if m.K == "s" {
		t = types.TSlice
	}
	return types.Info{Type: t, IsConcrete: true, Bits: types.Size(m.W * m.N), MinBits: types.Size(m.W * m.N), ElementType: &el, ArraySize: types.Size(m.N)}
}

func bitsToInt(b []int) *big.Int {
	v := new(big.Int)
	for i, x := range b {
		if x == 1 {
			v.SetBit(v, i, 1)
		}
	}
	return v
}

func intToBits(v *big.Int, n int) []int {
	r := make([]int, n)
	for i := range r {
		r[i] = int(v.Bit(i))
	}
	return r
}

// typed value of a bit pattern
func typedOf(kind string, b []int) *big.Int {
	v := bitsToInt(b)
	if kind == "i" && len(b) > 0 && b[len(b)-1] == 1 {
		v.Sub(v, new(big.Int).Lsh(big.NewInt(1), uint(len(b))))
	}
	return v
}

// memberVal: the scalar's bits, or the given elements of an array
type memberVal struct {
	scalar []int
	elems  [][]int
}

func parseVal(m ioMember, raw json.RawMessage) (memberVal, error) {
	var v memberVal
	if m.isArr() {
		err := json.Unmarshal(raw, &v.elems)
		return v, err
	}
	err := json.Unmarshal(raw, &v.scalar)
	return v, err
}

// spelling of one member for IOArg.Parse; variant selects among the equivalent spellings
func spell(m ioMember, v memberVal, variant int) (text, kind string) {
	if m.K == "b" {
		f := [][]string{{"0", "f", "false"}, {"1", "t", "true"}}[v.scalar[0]]
		return f[variant%3], "bool"
	}
	if m.isArr() {
		if len(v.elems) == 0 {
			return "0", "arr-empty"
		}
		var sb strings.Builder
		sb.WriteString("0x")
		for _, e := range v.elems {
			sb.WriteString(fmt.Sprintf("%0*x", m.W/4, bitsToInt(e)))
		}
		if len(v.elems) < m.N {
			return sb.String(), "arr-short"
		}
		return sb.String(), "arr-hex"
	}
	u := bitsToInt(v.scalar)
	switch variant % 5 {
	case 0:
		return typedOf(m.K, v.scalar).String(), "dec"
	case 1:
		return "0x" + u.Text(16), "hex"
	case 2:
		return "0b" + u.Text(2), "bin"
	case 3:
		return "0o" + u.Text(8), "oct"
	}
	return u.String(), "udec" // the unsigned spelling of the same bits
}

// Go value of one member for IOArg.Set; ok=false when the API has no Go form for it
func goValue(m ioMember, v memberVal, variant int) (val interface{}, kind string, ok bool) {
	if m.K == "b" {
		return v.scalar[0] == 1, "bool", true
	}
	if m.isArr() {
		if len(v.elems) == 0 {
			if variant%2 == 0 || m.W < 8 { // []byte is accepted for elements of at least 8 bits only
				return nil, "arr-nil", true
			}
			return []byte{}, "arr-empty", true
		}
		if m.W < 8 {
			return nil, "", false
		}
		var bs []byte
		for _, e := range v.elems {
			x := bitsToInt(e)
			if x.BitLen() > 8 {
				return nil, "", false
			}
			bs = append(bs, byte(x.Uint64()))
		}
		if len(v.elems) < m.N {
			return bs, "arr-short", true
		}
		return bs, "arr-bytes", true
	}
	t := typedOf(m.K, v.scalar)
	exact := variant%2 == 0
	if m.K == "i" {
		if !t.IsInt64() {
			return nil, "", false
		}
		x := t.Int64()
		if exact {
			switch {
			case m.W <= 8:
				return int8(x), "int-exact", true
			case m.W <= 16:
				return int16(x), "int-exact", true
			case m.W <= 32:
				return int32(x), "int-exact", true
			}
		}
		if m.W > 64 {
			return x, "int64-into-wide", true
		}
		return x, "int64", true
	}
	if !t.IsUint64() {
		return nil, "", false
	}
	x := t.Uint64()
	if exact {
		switch {
		case m.W <= 8:
			return uint8(x), "uint-exact", true
		case m.W <= 16:
			return uint16(x), "uint-exact", true
		case m.W <= 32:
			return uint32(x), "uint-exact", true
		}
	}
	if m.W > 64 {
		return x, "uint64-into-wide", true
	}
	return x, "uint64", true
}

func mkArg(ts []ioMember) circuit.IOArg {
	if len(ts) == 1 {
		return circuit.IOArg{Name: "a", Type: ts[0].info()}
	}
	arg := circuit.IOArg{Name: "a", Type: types.Info{Type: types.TStruct, IsConcrete: true}}
	total := 0
	for i, m := range ts {
		arg.Compound = append(arg.Compound, circuit.IOArg{Name: fmt.Sprintf("f%d", i), Type: m.info()})
		total += m.bits()
	}
	arg.Type.Bits = types.Size(total)
	arg.Type.MinBits = types.Size(total)
	return arg
}

func firstDiff(got *big.Int, want []int) int {
	for i, b := range want {
		if int(got.Bit(i)) != b {
			return i
		}
	}
	return -1
}

func memberAt(ts []ioMember, bit int) int {
	ofs := 0
	for i, m := range ts {
		if bit < ofs+m.bits() {
			return i
		}
		ofs += m.bits()
	}
	return len(ts) - 1
}

func describe(ts []ioMember, texts []string) string {
	var parts []string
	for i, m := range ts {
		parts = append(parts, fmt.Sprintf("%s=%s", m.name(), texts[i]))
	}
	return strings.Join(parts, ", ")
}

func (m ioMember) name() string {
	switch m.K {
	case "b":
		return "bool"
	case "u":
		return fmt.Sprintf("uint%d", m.W)
	case "i":
		return fmt.Sprintf("int%d", m.W)
	case "a":
		return fmt.Sprintf("[%d]%s", m.N, ioMember{K: m.Ek, W: m.W}.name())
	}
	return fmt.Sprintf("[]%s(%d)", ioMember{K: m.Ek, W: m.W}.name(), m.N)
}

func wclass(w int) string {
	switch {
	case w <= 8:
		return "w<=8"
	case w <= 64:
		return "w<=64"
	}
	return "w>64"
}

func shape(ts []ioMember) string {
	if len(ts) == 1 {
		return "plain"
	}
	return "compound"
}

// c13Observe drives the real API with one case.  wires: the expected bits (nil: record only).
// Returns the observations for the trace.
func c13Observe(res *Result, ts []ioMember, vals []memberVal, wires []int, variants int) []map[string]interface{} {
	var events []map[string]interface{}
	arg := mkArg(ts)
	total := 0
	for _, m := range ts {
		total += m.bits()
	}
	guard := func(api string, f func()) {
		defer func() {
			if x := recover(); x != nil {
				res.viol("panic:"+api, "%s panics: %v (%v)", api, x, tsNames(ts))
			}
		}()
		f()
	}
	// --- IOArg.Parse
	for variant := 0; variant < variants; variant++ {
		texts := make([]string, len(ts))
		kinds := make([]string, len(ts))
		for i, m := range ts {
			texts[i], kinds[i] = spell(m, vals[i], variant+i)
		}
		guard("Parse", func() {
			got, err := arg.Parse(texts)
			if err != nil {
				res.viol("parse-error:"+shape(ts)+":"+strings.Join(uniq(kinds), "+"), "Parse(%s) fails: %v", describe(ts, texts), err)
				return
			}
			if wires != nil {
				if d := firstDiff(got, wires); d >= 0 {
					mi := memberAt(ts, d)
					res.viol(fmt.Sprintf("parse:%s:%s:%s", shape(ts), kinds[mi], wclass(ts[mi].W)),
						"Parse(%s): wire %d (member %d, %s) is %d, the layout says %d", describe(ts, texts), d, mi, ts[mi].name(), got.Bit(d), wires[d])
				}
			} else {
				events = append(events, map[string]interface{}{"api": "parse", "desc": describe(ts, texts), "kinds": kinds, "observed": intToBits(got, total)})
			}
		})
	}
	// --- IOArg.Set
	for variant := 0; variant < 2; variant++ {
		gvals := make([]interface{}, len(ts))
		kinds := make([]string, len(ts))
		texts := make([]string, len(ts))
		ok := true
		for i, m := range ts {
			var o bool
			gvals[i], kinds[i], o = goValue(m, vals[i], variant+i)
			texts[i] = fmt.Sprintf("%T(%v)", gvals[i], gvals[i])
			ok = ok && o
		}
		if !ok {
			continue
		}
		guard("Set", func() {
			var prev *big.Int
			if variant == 1 {
				prev = new(big.Int).Lsh(big.NewInt(0x5a5a5a5a), 70) // a reused, dirty result
			}
			got, err := arg.Set(prev, gvals)
			if err != nil {
				res.viol("set-error:"+shape(ts)+":"+strings.Join(uniq(kinds), "+"), "Set(%s) fails: %v", describe(ts, texts), err)
				return
			}
			if wires != nil {
				if d := firstDiff(got, wires); d >= 0 {
					mi := memberAt(ts, d)
					res.viol(fmt.Sprintf("set:%s:%s:%s", shape(ts), kinds[mi], wclass(ts[mi].W)),
						"Set(%s): wire %d (member %d, %s) is %d, the layout (and Parse of the same values) says %d", describe(ts, texts), d, mi, ts[mi].name(), got.Bit(d), wires[d])
				}
			} else {
				events = append(events, map[string]interface{}{"api": "set", "desc": describe(ts, texts), "kinds": kinds, "observed": intToBits(got, total)})
			}
		})
	}
	// --- inferred sizes: unsized variants of the members
	for variant := 0; variant < 2; variant++ {
		for i, m := range ts {
			if m.K == "b" || (m.isArr() && (len(vals[i].elems) != m.N || m.N == 0)) {
				continue // an empty array has no spelling of its own ("0" denotes one zero element)
			}
			text, kind := spell(m, vals[i], variant)
			if kind == "oct" || kind == "bin" {
				continue
			}
			guard("InputSizes", func() {
				sizes, err := circuit.InputSizes([]string{text})
				if err != nil {
					res.viol("sizes-error:"+kind, "InputSizes(%q) fails: %v", text, err)
					return
				}
				info := m.info()
				info.IsConcrete = false
				info.Bits = 0
				info.MinBits = 0
				info.ArraySize = 0
				if err := info.InstantiateWithSizes(sizes); err != nil {
					res.viol("sizes-error:"+kind, "InstantiateWithSizes(%v) of unsized %s fails: %v", sizes, m.name(), err)
					return
				}
				a := circuit.IOArg{Name: "a", Type: info}
				got, err := a.Parse([]string{text})
				if err != nil {
					res.viol("sizes-parse-error:"+kind, "Parse(%q) into %v fails: %v", text, info, err)
					return
				}
				s := int(info.Bits)
				if m.isArr() {
					want := bitsToInt(flat(vals[i].elems))
					if int(info.ArraySize) != m.N || firstDiff(got, flat(vals[i].elems)) >= 0 {
						res.viol("sizes:"+kind, "%q (%d elements of %d bits) is sized %v -> %v and parsed as %x, written %x", text, m.N, m.W, sizes, info, got, want)
					}
					return
				}
				// the wires hold the written number: read back unsigned (non-negative spellings) or signed (negative)
				written := typedOf(m.K, vals[i].scalar)
				if kind != "dec" {
					written = bitsToInt(vals[i].scalar)
				}
				low := intToBits(got, s)
				back := bitsToInt(low)
				if written.Sign() < 0 {
					back = typedOf("i", low)
				}
				if back.Cmp(written) != 0 {
					sign := "nonneg"
					if written.Sign() < 0 {
						sign = "negative"
					}
					res.viol("sizes:"+kind+":"+sign, "%q is sized %v bits and its wires read back as %v", text, sizes, back)
				}
			})
		}
	}
	// --- mpc.Result
	for i, m := range ts {
		layout := layoutOf(m, vals[i])
		out := circuit.IOArg{Name: "r", Type: m.info()}
		if m.K == "s" {
			out.Type.Type = types.TArray // slices are returned as arrays
		}
		guard("Result", func() {
			in := bitsToInt(layout)
			before := new(big.Int).Set(in)
			r1 := mpc.Result(in, out)
			if in.Cmp(before) != 0 {
				res.viol("result-mutates:"+m.K+":"+wclass(m.W), "Result(%v as %s) changes its argument to %v", before, m.name(), in)
				in = new(big.Int).Set(before)
			}
			r2 := mpc.Result(in, out)
			if !reflect.DeepEqual(r1, r2) && fmt.Sprint(r1) != fmt.Sprint(r2) {
				res.viol("result-repeat:"+m.K+":"+wclass(m.W), "Result(%v as %s) gives %v and then %v", before, m.name(), r1, r2)
			}
			back, ok := reencode(m, r1)
			if !ok {
				res.viol("result-type:"+m.K+":"+wclass(m.W), "Result(%v as %s) returns %T", before, m.name(), r1)
				return
			}
			if wires != nil {
				if !sameBits(back, layout) {
					res.viol("result-value:"+m.K+":"+wclass(m.W), "Result(%v as %s) = %v, which encodes %v; the wires were %v", before, m.name(), r1, bitsToInt(back), before)
				}
			} else {
				events = append(events, map[string]interface{}{"api": "result", "member": i + 1, "desc": fmt.Sprintf("Result(%v as %s) = %v", before, m.name(), r1), "observed": back})
			}
		})
	}
	return events
}

// c13GoSizes: circuit.Sizes, the Go-value form of the size inference used to instantiate an unsized main argument.
// IOEnc.tla SizesSuffice: a number written into an argument of the inferred size reads back as itself, and the
// Go-value form and the textual form (InputSizes) of a non-negative number are sized alike.
func c13GoSizes(out *ndWriter, base int) {
	idx := base
	emit := func(class string, f func(res *Result)) {
		res := &Result{Case: idx, Class: class, Nontrivial: true}
		idx++
		func() {
			defer func() {
				if x := recover(); x != nil {
					res.viol("panic:Sizes", "%v", x)
				}
			}()
			f(res)
		}()
		out.put(res)
	}
	uvals := []uint64{0, 1, 2, 3, 4, 5, 7, 8, 15, 16, 127, 128, 255, 256, 1000, 32767, 32768, 65535, 65536, 1 << 31, 1<<32 - 1, 1 << 32, 1<<63 - 1, 1 << 63, 1<<64 - 1}
	needed := func(v uint64) int {
		n := 1
		for v>>uint(n) != 0 && n < 64 {
			n++
		}
		return n
	}
	mk := func(kind string, v uint64) (interface{}, bool) {
		switch kind {
		case "uint8":
			return uint8(v), v <= 0xff
		case "uint16":
			return uint16(v), v <= 0xffff
		case "uint32":
			return uint32(v), v <= 0xffffffff
		case "uint64":
			return v, true
		case "int8":
			return int8(v), v <= 0x7f
		case "int16":
			return int16(v), v <= 0x7fff
		case "int32":
			return int32(v), v <= 0x7fffffff
		case "int64":
			return int64(v), v <= 1<<63-1
		}
		return nil, false
	}
	for _, kind := range []string{"uint8", "uint16", "uint32", "uint64", "int8", "int16", "int32", "int64"} {
		kind := kind
		emit("go-sizes:"+kind, func(res *Result) {
			for _, v := range uvals {
				gv, ok := mk(kind, v)
				if !ok {
					continue
				}
				sizes, err := circuit.Sizes([]interface{}{gv})
				if err != nil || len(sizes) != 1 {
					res.viol("go-sizes-error:"+kind, "Sizes(%T(%v)) = %v, %v", gv, gv, sizes, err)
					continue
				}
				if sizes[0] < needed(v) {
					res.viol("go-sizes:too-small:"+kind, "Sizes(%T(%d)) = %d bits, the value needs %d", gv, v, sizes[0], needed(v))
					continue
				}
				tsz, err := circuit.InputSizes([]string{fmt.Sprint(v)})
				if err == nil && len(tsz) == 1 && tsz[0] != sizes[0] {
					res.viol("go-sizes:differs-from-text:"+kind, "Sizes(%T(%d)) = %d bits, InputSizes(%q) = %d bits", gv, v, sizes[0], fmt.Sprint(v), tsz[0])
				}
				// instantiate an unsized argument with the inferred size and write the value
				tn := "uint"
				if kind[0] == 'i' {
					tn = "int"
				}
				info, err := types.Parse(tn)
				if err != nil {
					res.drift("types.Parse(%q): %v", tn, err)
					return
				}
				if err := info.InstantiateWithSizes(sizes); err != nil {
					res.viol("go-sizes-error:"+kind, "InstantiateWithSizes(%v) of %s fails: %v", sizes, tn, err)
					continue
				}
				got, err := circuit.IOArg{Name: "a", Type: info}.Set(nil, []interface{}{gv})
				if err != nil {
					res.viol("go-sizes-error:"+kind, "Set(%T(%v)) into %v fails: %v", gv, gv, info, err)
					continue
				}
				mask := new(big.Int).Sub(new(big.Int).Lsh(big.NewInt(1), uint(info.Bits)), big.NewInt(1))
				back := new(big.Int).And(got, mask)
				if back.Cmp(new(big.Int).SetUint64(v)) != 0 {
					res.viol("go-sizes:readback:"+kind, "%T(%d) is sized %d bits and its wires read back as %v", gv, v, sizes[0], back)
				}
			}
		})
	}
	// negative values: the inferred size holds the two's complement
	emit("go-sizes:negative", func(res *Result) {
		for _, gv := range []interface{}{int8(-1), int8(-3), int8(-128), int16(-2), int16(-32768), int32(-5), int32(-1 << 31), int64(-1), int64(-1 << 63), int64(-300)} {
			sizes, err := circuit.Sizes([]interface{}{gv})
			if err != nil || len(sizes) != 1 {
				res.viol("go-sizes-error:neg", "Sizes(%T(%v)) = %v, %v", gv, gv, sizes, err)
				continue
			}
			info, _ := types.Parse("int")
			if err := info.InstantiateWithSizes(sizes); err != nil {
				res.viol("go-sizes-error:neg", "InstantiateWithSizes(%v) fails: %v", sizes, err)
				continue
			}
			got, err := circuit.IOArg{Name: "a", Type: info}.Set(nil, []interface{}{gv})
			if err != nil {
				res.viol("go-sizes-error:neg", "Set(%T(%v)) fails: %v", gv, gv, err)
				continue
			}
			back := typedOf("i", intToBits(got, int(info.Bits)))
			want := big.NewInt(reflect.ValueOf(gv).Int())
			if back.Cmp(want) != 0 {
				res.viol("go-sizes:readback:negative", "%T(%v) is sized %d bits and its wires read back as %v", gv, gv, sizes[0], back)
			}
		}
	})
	// mpc.Results: the plural form decodes every output like Result; without output descriptions the raw numbers come back
	emit("results", func(res *Result) {
		u := func(bits int) circuit.IOArg {
			return circuit.IOArg{Name: "o", Type: types.Info{Type: types.TUint, IsConcrete: true, Bits: types.Size(bits)}}
		}
		i := func(bits int) circuit.IOArg {
			return circuit.IOArg{Name: "o", Type: types.Info{Type: types.TInt, IsConcrete: true, Bits: types.Size(bits)}}
		}
		el := types.Info{Type: types.TUint, IsConcrete: true, Bits: 72}
		arr := circuit.IOArg{Name: "a", Type: types.Info{Type: types.TArray, IsConcrete: true, Bits: 216, ArraySize: 3, ElementType: &el}}
		outs := circuit.IO{u(8), i(5), u(70), i(64), circuit.IOArg{Name: "b", Type: types.Info{Type: types.TBool, IsConcrete: true, Bits: 1}}, arr}
		big72 := func(k int64) *big.Int { return new(big.Int).Add(new(big.Int).Lsh(big.NewInt(k), 64), big.NewInt(k+7)) }
		packed := new(big.Int).Or(new(big.Int).Or(big72(1), new(big.Int).Lsh(big72(2), 72)), new(big.Int).Lsh(big72(3), 144))
		vals := []*big.Int{big.NewInt(200), big.NewInt(31), new(big.Int).Lsh(big.NewInt(1), 69), new(big.Int).SetUint64(1 << 63), big.NewInt(1), packed}
		keep := make([]*big.Int, len(vals))
		for k, v := range vals {
			keep[k] = new(big.Int).Set(v)
		}
		rs := mpc.Results(vals, outs)
		for k := range vals {
			if vals[k].Cmp(keep[k]) != 0 {
				res.viol("results-mutates", "Results changes its argument %d from %v to %v", k, keep[k], vals[k])
				vals[k].Set(keep[k])
			}
		}
		if len(rs) != len(vals) {
			res.viol("results-count", "Results returns %d values for %d outputs", len(rs), len(vals))
			return
		}
		want := []string{"200", "-1", new(big.Int).Lsh(big.NewInt(1), 69).String(), fmt.Sprint(int64(-1 << 63)), "true",
			fmt.Sprintf("[%v %v %v]", big72(1), big72(2), big72(3))}
		for k := range rs {
			if fmt.Sprint(rs[k]) != want[k] {
				res.viol("results-value", "Results output %d (%s) = %v (%T), expected %s", k, outs[k].Type, rs[k], rs[k], want[k])
			}
			if one := mpc.Result(vals[k], outs[k]); fmt.Sprint(one) != fmt.Sprint(rs[k]) {
				res.viol("results-differs-from-result", "Results output %d = %v, Result gives %v", k, rs[k], one)
			}
		}
		raw := mpc.Results(vals[:4], nil)
		for k := range raw {
			if fmt.Sprint(raw[k]) != keep[k].String() {
				res.viol("results-raw", "Results without output descriptions: value %d = %v, given %v", k, raw[k], keep[k])
			}
		}
	})
	// bool, nil, byte slices
	emit("go-sizes:other", func(res *Result) {
		sizes, err := circuit.Sizes([]interface{}{true, false, nil, []byte{}, []byte{1}, []byte{1, 2, 3, 4, 5, 6, 7, 8, 9}})
		want := []int{1, 1, 0, 0, 8, 72}
		if err != nil || !reflect.DeepEqual(sizes, want) {
			res.viol("go-sizes:other", "Sizes(true,false,nil,[]byte{},[]byte{1},9 bytes) = %v, %v; expected %v", sizes, err, want)
		}
	})
}

// c13Strings: string results and arrays of strings / booleans (result.go).  A string of k characters is 8k wires,
// character i in bits 8i..8i+7 (IOEnc.tla StrWires); printable characters come back as themselves, every other
// byte as a \uXXXX escape, so the byte sequence is recoverable; decoding is repeatable and leaves its argument alone.
func c13Strings(out *ndWriter, rng *rand.Rand, base int) {
	esc := func(bs []byte) string {
		var sb strings.Builder
		for _, b := range bs {
			if unicode.IsPrint(rune(b)) {
				sb.WriteRune(rune(b))
			} else {
				fmt.Fprintf(&sb, "\\u%04x", b)
			}
		}
		return sb.String()
	}
	toInt := func(bs []byte) *big.Int {
		v := new(big.Int)
		for i := len(bs) - 1; i >= 0; i-- {
			v.Lsh(v, 8)
			v.Or(v, big.NewInt(int64(bs[i])))
		}
		return v
	}
	idx := base
	for _, k := range []int{0, 1, 7, 8, 9, 16, 17, 40} {
		for variant := 0; variant < 3; variant++ {
			bs := make([]byte, k)
			for i := range bs {
				switch variant {
				case 0:
					bs[i] = byte(0x20 + rng.Intn(0x5f)) // printable ASCII
				case 1:
					bs[i] = byte(rng.Intn(256))
				default:
					bs[i] = []byte{0, 'a', 0xff, 0x7f, 'Z', 0x80}[rng.Intn(6)]
				}
			}
			res := &Result{Case: idx, Class: "string-result", Nontrivial: k > 8}
			idx++
			func() {
				defer func() {
					if x := recover(); x != nil {
						res.viol("panic:Result:string", "Result panics on a string of %d characters: %v", k, x)
					}
				}()
				arg := circuit.IOArg{Name: "s", Type: types.Info{Type: types.TString, IsConcrete: true, Bits: types.Size(8 * k)}}
				in := toInt(bs)
				before := new(big.Int).Set(in)
				r1 := mpc.Result(in, arg)
				if in.Cmp(before) != 0 {
					res.viol("result-mutates:t", "Result(string of %d characters) changes its argument", k)
					in.Set(before)
				}
				r2 := mpc.Result(in, arg)
				s1, ok := r1.(string)
				if !ok {
					res.viol("result-type:t", "Result of a string argument returns %T", r1)
					return
				}
				if r2 != r1 {
					res.viol("result-repeat:t", "Result(string) gives %q and then %q", r1, r2)
				}
				if s1 != esc(bs) {
					res.viol("result-value:t", "Result(string %x) = %q, the wires spell %q", bs, s1, esc(bs))
				}
				// an array of strings and an array of booleans
				n := 3
				el := types.Info{Type: types.TString, IsConcrete: true, Bits: types.Size(8 * k)}
				if k > 0 && k <= 9 {
					all := append(append(append([]byte{}, bs...), bs...), bs...)
					all[len(all)-1] ^= 1
					ar := mpc.Result(toInt(all), circuit.IOArg{Name: "a", Type: types.Info{Type: types.TArray, IsConcrete: true, Bits: types.Size(8 * k * n), ArraySize: types.Size(n), ElementType: &el}})
					ss, ok := ar.([]string)
					if !ok || len(ss) != n {
						res.viol("result-type:at", "Result of [3]string returns %T", ar)
					} else {
						for i := 0; i < n; i++ {
							if ss[i] != esc(all[i*k:(i+1)*k]) {
								res.viol("result-value:at", "Result([3]string) element %d = %q, the wires spell %q", i, ss[i], esc(all[i*k:(i+1)*k]))
							}
						}
					}
				}
				bl := types.Info{Type: types.TBool, IsConcrete: true, Bits: 1}
				nb := k + 1
				pat := new(big.Int).Rand(rng, new(big.Int).Lsh(big.NewInt(1), uint(nb)))
				br := mpc.Result(new(big.Int).Set(pat), circuit.IOArg{Name: "b", Type: types.Info{Type: types.TArray, IsConcrete: true, Bits: types.Size(nb), ArraySize: types.Size(nb), ElementType: &bl}})
				bb, ok := br.([]bool)
				if !ok || len(bb) != nb {
					res.viol("result-type:ab", "Result of [%d]bool returns %T", nb, br)
				} else {
					for i := 0; i < nb; i++ {
						if bb[i] != (pat.Bit(i) == 1) {
							res.viol("result-value:ab", "Result([%d]bool of %v) element %d = %v", nb, pat, i, bb[i])
						}
					}
				}
			}()
			out.put(res)
		}
	}
}

func tsNames(ts []ioMember) string {
	var n []string
	for _, m := range ts {
		n = append(n, m.name())
	}
	return strings.Join(n, ",")
}

func uniq(s []string) []string {
	seen := map[string]bool{}
	var r []string
	for _, x := range s {
		if !seen[x] {
			seen[x] = true
			r = append(r, x)
		}
	}
	return r
}

func flat(e [][]int) []int {
	r := []int{}
	for _, x := range e {
		r = append(r, x...)
	}
	return r
}

func layoutOf(m ioMember, v memberVal) []int {
	if !m.isArr() {
		return v.scalar
	}
	r := flat(v.elems)
	for len(r) < m.bits() {
		r = append(r, 0)
	}
	return r
}

func sameBits(a, b []int) bool {
	if len(a) != len(b) {
		return false
	}
	for i := range a {
		if a[i] != b[i] {
			return false
		}
	}
	return true
}

// reencode turns the Go value Result returned back into the member's bits; ok=false when the Go type is
// not the one documented for the member type.
func reencode(m ioMember, v interface{}) ([]int, bool) {
	scalar := func(kind string, w int, x interface{}) ([]int, bool) {
		var n *big.Int
		switch kind {
		case "b":
			b, ok := x.(bool)
			if !ok {
				return nil, false
			}
			if b {
				return []int{1}, true
			}
			return []int{0}, true
		case "u":
			switch y := x.(type) {
			case uint8:
				n = new(big.Int).SetUint64(uint64(y))
				if w > 8 {
					return nil, false
				}
			case uint16:
				n = new(big.Int).SetUint64(uint64(y))
				if w <= 8 || w > 16 {
					return nil, false
				}
			case uint32:
				n = new(big.Int).SetUint64(uint64(y))
				if w <= 16 || w > 32 {
					return nil, false
				}
			case uint64:
				n = new(big.Int).SetUint64(y)
				if w <= 32 || w > 64 {
					return nil, false
				}
			case *big.Int:
				n = y
				if w <= 64 {
					return nil, false
				}
			default:
				return nil, false
			}
		case "i":
			switch y := x.(type) {
			case int8:
				n = big.NewInt(int64(y))
				if w > 8 {
					return nil, false
				}
			case int16:
				n = big.NewInt(int64(y))
				if w <= 8 || w > 16 {
					return nil, false
				}
			case int32:
				n = big.NewInt(int64(y))
				if w <= 16 || w > 32 {
					return nil, false
				}
			case int64:
				n = big.NewInt(y)
				if w <= 32 || w > 64 {
					return nil, false
				}
			case *big.Int:
				n = y
				if w <= 64 {
					return nil, false
				}
			default:
				return nil, false
			}
		}
		// the value must be in the type's range; its two's complement bits
		lo, hi := big.NewInt(0), new(big.Int).Lsh(big.NewInt(1), uint(w))
		if kind == "i" {
			hi.Rsh(hi, 1)
			lo.Neg(hi)
		}
		if n.Cmp(lo) < 0 || n.Cmp(hi) >= 0 {
			return nil, false
		}
		return intToBits(n, w), true
	}
	if !m.isArr() {
		return scalar(m.K, m.W, v)
	}
	rv := reflect.ValueOf(v)
	if rv.Kind() != reflect.Slice || rv.Len() != m.N {
		return nil, false
	}
	r := []int{}
	for i := 0; i < rv.Len(); i++ {
		b, ok := scalar(m.Ek, m.W, rv.Index(i).Interface())
		if !ok {
			return nil, false
		}
		r = append(r, b...)
	}
	return r, true
}

func randBits(rng *rand.Rand, w int) []int {
	b := make([]int, w)
	switch rng.Intn(6) {
	case 0: // zero
	case 1:
		for i := range b {
			b[i] = 1
		}
	case 2:
		b[w-1] = 1
	case 3:
		for i := 0; i < w-1; i++ {
			b[i] = 1
		}
	default:
		for i := range b {
			b[i] = rng.Intn(2)
		}
	}
	return b
}

// c13StructArgs: a struct-typed argument of main whose members mix sized and unsized types, instantiated from the
// sizes of the spelled values (as apps/garbled does).  The compiled program returns every member: what comes out must
// be what was spelled, member by member - the layout Parse/Set put on the wires is the layout the program reads.
func c13StructArgs(out *ndWriter, rng *rand.Rand) {
	type member struct {
		decl string // field declaration
		bits int    // bits of the spelled value (for unsized members), else the declared width
		ret  string // expression returning it, and its type
		rt   string
	}
	pool := []member{
		{"key []byte", 24, "g.key[1]", "byte"}, {"tag uint16", 16, "g.tag", "uint16"}, {"n uint", 20, "g.n", "uint"},
		{"id uint8", 8, "g.id", "uint8"}, {"flag bool", 1, "g.flag", "bool"}, {"m int", 12, "g.m", "int"}, {"w uint32", 32, "g.w", "uint32"},
	}
	for ci := 0; ci < 24; ci++ {
		res := &Result{Case: 900000 + ci, Class: "struct-argument", Nontrivial: true}
		perm := rng.Perm(len(pool))
		nm := 2 + rng.Intn(4)
		var ms []member
		for _, k := range perm[:nm] {
			ms = append(ms, pool[k])
		}
		var decls, rets, rts, spell []string
		var want []*big.Int
		for _, m := range ms {
			decls = append(decls, "\t"+m.decl)
			rets = append(rets, m.ret)
			rts = append(rts, m.rt)
			v := new(big.Int).Rand(rng, new(big.Int).Lsh(big.NewInt(1), uint(m.bits)))
			v.SetBit(v, m.bits-1, 1) // the spelling has exactly m.bits bits
			switch {
			case m.rt == "bool":
				spell = append(spell, "true")
				want = append(want, big.NewInt(1))
			case strings.HasPrefix(m.decl, "key"):
				b := v.FillBytes(make([]byte, 3))
				spell = append(spell, fmt.Sprintf("0x%x", b))
				want = append(want, big.NewInt(int64(b[1])))
			default:
				spell = append(spell, fmt.Sprintf("0x%x", v))
				want = append(want, v)
			}
		}
		src := fmt.Sprintf("package main\n\ntype G struct {\n%s\n}\n\nfunc main(g G, e uint8) (%s, uint8) {\n\treturn %s, e\n}\n",
			strings.Join(decls, "\n"), strings.Join(rts, ", "), strings.Join(rets, ", "))
		sx, err := circuit.InputSizes(spell)
		if err != nil {
			res.drift("InputSizes(%v): %v", spell, err)
			out.put(res)
			continue
		}
		var circ *circuit.Circuit
		func() {
			defer func() {
				if x := recover(); x != nil {
					err = fmt.Errorf("compiler panic: %v", x)
				}
			}()
			params := utils.NewParams()
			params.MPCLCErrorLoc = false
			circ, _, err = compiler.New(params).Compile(src, [][]int{sx, {8}})
		}()
		if err != nil {
			res.Class = "struct-argument:rejected"
			res.Sample = map[string]string{"src": src, "error": err.Error()}
			out.put(res)
			continue
		}
		g, err := circ.Inputs[0].Parse(spell)
		if err != nil {
			res.viol("parse:struct-argument", "Parse(%v) for %v: %v", spell, circ.Inputs[0], err)
			out.put(res)
			continue
		}
		ins := circ.Inputs[0].Compound.Split(g)
		ins = append(ins, big.NewInt(7))
		got, err := circ.Compute(ins)
		if err != nil {
			res.drift("Compute: %v", err)
			out.put(res)
			continue
		}
		for i, w := range want {
			mask := new(big.Int).Sub(new(big.Int).Lsh(big.NewInt(1), uint(circ.Outputs[i].Type.Bits)), big.NewInt(1))
			if i >= len(got) || new(big.Int).And(got[i], mask).Cmp(new(big.Int).And(w, mask)) != 0 {
				res.viol("struct-argument:member", "main(g) returns %s = %v, the argument was spelled %v (member %d of %v)\n%s", ms[i].ret, got[i], spell, i, decls, src)
				break
			}
		}
		out.put(res)
	}
}

func c13Main(args []string) error {
	if len(args) < 2 {
		return fmt.Errorf("usage: vh c13 replay|wide ...")
	}
	rng := rand.New(rand.NewSource(seed()*7046029 + 13))
	switch args[0] {
	case "replay":
		out, err := newND(args[2])
		if err != nil {
			return err
		}
		defer out.close()
		idx := 0
		c13Strings(out, rng, 1000000)
		c13GoSizes(out, 2000000)
		return readND(args[1], func(raw json.RawMessage) error {
			var c ioCase
			if err := json.Unmarshal(raw, &c); err != nil {
				return err
			}
			vals := make([]memberVal, len(c.Ts))
			for i, m := range c.Ts {
				v, err := parseVal(m, c.Vs[i])
				if err != nil {
					return err
				}
				vals[i] = v
			}
			res := &Result{Case: idx, Nontrivial: len(c.Ts) >= 2, Class: fmt.Sprintf("%d-members", len(c.Ts))}
			idx++
			c13Observe(res, c.Ts, vals, c.Wires, 5)
			if idx <= 2 {
				res.Sample = map[string]interface{}{"members": tsNames(c.Ts), "wires": len(c.Wires)}
			}
			out.put(res)
			return nil
		})
	case "wide":
		out, err := newND(args[1])
		if err != nil {
			return err
		}
		defer out.close()
		c13StructArgs(out, rng)
		tr, err := newND(args[2])
		if err != nil {
			return err
		}
		defer tr.close()
		n := 200
		if len(args) > 3 {
			fmt.Sscan(args[3], &n)
		}
		elw := []int{4, 8, 12, 16, 32, 64, 128}
		for ci := 0; ci < n; ci++ {
			nm := 1 + rng.Intn(5)
			var ts []ioMember
			var vals []memberVal
			var vsJSON []interface{}
			for j := 0; j < nm; j++ {
				var m ioMember
				switch rng.Intn(6) {
				case 0:
					m = ioMember{K: "b", W: 1}
				case 1, 2:
					m = ioMember{K: []string{"u", "i"}[rng.Intn(2)], W: 1 + rng.Intn(130)}
				case 3:
					m = ioMember{K: []string{"u", "i"}[rng.Intn(2)], W: []int{8, 16, 32, 63, 64, 65, 127, 128}[rng.Intn(8)]}
				default:
					m = ioMember{K: []string{"a", "s"}[rng.Intn(2)], Ek: []string{"u", "i"}[rng.Intn(2)], W: elw[rng.Intn(len(elw))], N: rng.Intn(5)}
				}
				var v memberVal
				if m.isArr() {
					given := m.N
					if m.K == "a" && rng.Intn(3) == 0 {
						given = rng.Intn(m.N + 1)
					}
					v.elems = [][]int{}
					for e := 0; e < given; e++ {
						b := randBits(rng, m.W)
						if m.W >= 8 && rng.Intn(2) == 0 { // byte-sized values, so that Set has a Go form
							for k := 8; k < m.W; k++ {
								b[k] = 0
							}
						}
						v.elems = append(v.elems, b)
					}
					vsJSON = append(vsJSON, v.elems)
				} else {
					v.scalar = randBits(rng, m.W)
					vsJSON = append(vsJSON, v.scalar)
				}
				ts = append(ts, m)
				vals = append(vals, v)
			}
			res := &Result{Case: ci, Nontrivial: nm >= 2, Class: fmt.Sprintf("wide-%d-members", nm)}
			events := c13Observe(res, ts, vals, nil, 5)
			for _, e := range events {
				e["case"] = ci
				e["ts"] = ts
				e["vs"] = vsJSON
				tr.put(e)
			}
			out.put(res)
		}
		return nil
	}
	return fmt.Errorf("unknown c13 mode")
}
