package main

// C05: streaming mode agrees with whole-circuit mode.
//
//   vh c05 run trace.ndjson results.ndjson nprogs
//       generated alias-heavy programs and templates are run in streaming mode
//       (Compiler.Stream <-> circuit.StreamEvaluator) and in whole-circuit mode
//       (Compile + Compute); values and output types of both parties must agree
//       with whole-circuit mode.  The steps Program.Stream really executes are
//       recorded through the `verif` hook for specs/StreamTrace.tla.

import (
	"encoding/json"
	"fmt"
	"math/big"
	"math/rand"
	"os"
	"strings"
	"sync"

	"github.com/markkurossi/mpc/circuit"
	"github.com/markkurossi/mpc/compiler"
	"github.com/markkurossi/mpc/compiler/ssa"
	"github.com/markkurossi/mpc/compiler/utils"
)

func init() { commands["c05"] = c05Main }

type stVal struct {
	V   int   `json:"v"`
	C   int   `json:"c"`
	IDs []int `json:"ids"`
}

type stEv struct {
	Ev   string  `json:"ev"`
	Idx  int     `json:"idx"`
	Op   string  `json:"op"`
	Ins  []stVal `json:"ins"`
	Outs []stVal `json:"outs"`
}

var c05HookMu sync.Mutex

func pgInput(rng *rand.Rand, v pgVar) string {
	if v.arr > 0 {
		var sb strings.Builder
		sb.WriteString("0x")
		for i := 0; i < v.arr; i++ {
			fmt.Fprintf(&sb, "%02x", rng.Intn(256))
		}
		return sb.String()
	}
	max := new(big.Int).Lsh(big.NewInt(1), uint(v.bits))
	var x *big.Int
	switch rng.Intn(6) {
	case 0:
		x = big.NewInt(0)
	case 1:
		x = new(big.Int).Sub(max, big.NewInt(1))
	case 2:
		x = new(big.Int).Rsh(max, 1) // top bit only
	default:
		x = new(big.Int).Rand(rng, max)
	}
	return x.String()
}

func ioDesc(io circuit.IO) string {
	var p []string
	for _, a := range io {
		p = append(p, fmt.Sprintf("%s/%d", a.Type.String(), a.Type.Bits))
	}
	return strings.Join(p, ",")
}

// c05One runs one program on one input pair in both modes.
func c05One(res *Result, src string, xs, ys string, record *[]stEv, seedv uint64, wire ...*[]swEv) {
	c05OneV(res, src, []string{xs}, []string{ys}, record, seedv, wire...)
}

// flattenInputs splits the packed value of each argument into one value per compound member, as Compute takes them
func flattenInputs(circ *circuit.Circuit, vals []*big.Int) []*big.Int {
	var out []*big.Int
	for i, in := range circ.Inputs {
		if len(in.Compound) == 0 {
			out = append(out, vals[i])
			continue
		}
		ofs := uint(0)
		for _, m := range in.Compound {
			w := uint(m.Type.Bits)
			mask := new(big.Int).Sub(new(big.Int).Lsh(big.NewInt(1), w), big.NewInt(1))
			out = append(out, new(big.Int).And(new(big.Int).Rsh(vals[i], ofs), mask))
			ofs += w
		}
	}
	return out
}

// c05OneV: one program, one input pair (one string per argument member), both modes
// c05SourceFile, when set, is where the program of the next c05OneV calls lives (streamSourceName follows it)
var c05SourceFile string

// c05NativeTemplates: native circuits called directly, with full-width run-time arguments, with constants narrower than
// the circuit's input, after other operations have used the circuit-local wires
var c05NativeTemplates = []string{
	"package main\n\nfunc main(a, b uint64) uint64 {\n\tx := uint32(a) + uint32(b)\n\ts := native(\"add64.circ\", a ^ b, 5)\n\treturn s + uint64(x)\n}\n",
	"package main\n\nfunc main(a, b uint64) uint64 {\n\tx := uint16(a) * uint16(b)\n\td := native(\"sub64.circ\", a | b, 1)\n\treturn d ^ uint64(x)\n}\n",
	"package main\n\nfunc main(a, b uint64) uint64 {\n\treturn native(\"mul64.circ\", a, b) + native(\"add64.circ\", a, 3)\n}\n",
	"package main\n\nfunc main(a, b uint64) uint64 {\n\tvar five uint8 = 5\n\tx := a - b\n\treturn native(\"add64.circ\", x, uint64(five)) + native(\"sub64.circ\", 7, b)\n}\n",
	"package main\n\nfunc main(a, b uint64) uint64 {\n\treturn native(\"div64.circ\", a, b | 1)\n}\n",
}

func c05OneV(res *Result, src string, xv, yv []string, record *[]stEv, seedv uint64, wire ...*[]swEv) {
	xs, ys := strings.Join(xv, ","), strings.Join(yv, ",")
	// unsized arguments (uint, []byte ...) are instantiated from the sizes of the inputs, as apps/garbled does it:
	// each party sizes its own input, the garbler learns the peer's sizes
	var sizes [][]int
	if sx, err := circuit.InputSizes(xv); err == nil {
		if sy, err := circuit.InputSizes(yv); err == nil {
			sizes = [][]int{sx, sy}
		}
	}
	params := utils.NewParams()
	params.MPCLCErrorLoc = false
	var circ *circuit.Circuit
	var err error
	if c05SourceFile != "" {
		// a program that lives in a directory (native circuit files are resolved relative to the source file)
		if err = os.WriteFile(c05SourceFile, []byte(src), 0644); err == nil {
			circ, _, err = compiler.New(params).CompileFile(c05SourceFile, sizes)
		}
	} else {
		circ, _, err = compiler.New(params).Compile(src, sizes)
	}
	if err != nil {
		res.Sample = "compile: " + err.Error()
		res.Class = "rejected"
		return
	}
	x, err := circ.Inputs[0].Parse(xv)
	if err != nil {
		res.Sample = err.Error()
		res.Class = "rejected"
		return
	}
	y, err := circ.Inputs[1].Parse(yv)
	if err != nil {
		res.Sample = err.Error()
		res.Class = "rejected"
		return
	}
	want, err := circ.Compute(flattenInputs(circ, []*big.Int{x, y}))
	if err != nil {
		res.Sample = "compute: " + err.Error()
		res.Class = "rejected"
		return
	}
	if record != nil {
		c05HookMu.Lock()
		ssa.VerifStreamHook = func(st ssa.VerifStreamStep) {
			ev := stEv{Ev: "step", Idx: st.Idx, Op: st.Op, Ins: []stVal{}, Outs: []stVal{}}
			for _, in := range st.In {
				c := 0
				if in.Const {
					c = 1
				}
				ids := in.IDs
				if ids == nil {
					ids = []int{}
				}
				ev.Ins = append(ev.Ins, stVal{V: in.ID, C: c, IDs: ids})
			}
			for _, o := range st.Out {
				ids := o.IDs
				if ids == nil {
					ids = []int{}
				}
				ev.Outs = append(ev.Outs, stVal{V: o.ID, IDs: ids})
			}
			*record = append(*record, ev)
		}
	}
	sr := runStream(src, xv, yv, sessOpts{ot: "co", randSeed: seedv, corruptAt: -1, record: len(wire) > 0 && wire[0] != nil}, sizes)
	if record != nil {
		ssa.VerifStreamHook = nil
		c05HookMu.Unlock()
	}
	what := fmt.Sprintf("x=%s y=%s", xs, ys)
	if sr.stalled {
		res.viol("stall", "streaming session does not terminate (%s)", what)
		return
	}
	if sr.gPanic != "" || sr.ePanic != "" {
		res.viol("panic", "streaming session panics: garbler %q evaluator %q (%s)", sr.gPanic, sr.ePanic, what)
		return
	}
	if sr.gErr != nil || sr.eErr != nil {
		res.viol("error", "streaming session fails: garbler %v, evaluator %v (%s)", sr.gErr, sr.eErr, what)
		return
	}
	if !sameBigs(sr.gOut, want) {
		res.viol("value:garbler", "streaming garbler returns %v, whole-circuit mode %v (%s)", sr.gOut, want, what)
	}
	if !sameBigs(sr.eOut, want) {
		res.viol("value:evaluator", "streaming evaluator returns %v, whole-circuit mode %v (%s)", sr.eOut, want, what)
	}
	if ioDesc(sr.gIO) != ioDesc(circ.Outputs) || ioDesc(sr.eIO) != ioDesc(circ.Outputs) {
		res.viol("types", "output types differ: streaming garbler %s, evaluator %s, whole-circuit %s", ioDesc(sr.gIO), ioDesc(sr.eIO), ioDesc(circ.Outputs))
	}
	res.Class = "compared"
	if len(wire) > 0 && wire[0] != nil {
		evs, err := parseStreamWire(sr, 40000)
		if err != nil {
			// the stream is not framed the way specs/StreamWire.tla says: the model is out of date (or the
			// harness is wrong); by itself not a violation of the property
			res.drift("streaming transcript cannot be parsed into the messages of StreamWire.tla: %v", err)
		} else {
			*wire[0] = evs
		}
	}
}

// a program whose live wire ids exceed 65535, so that both wire-id encodings are used
const c05BigProgram = `package main
func main(a, b [40]uint64) (uint64, uint64) {
	var x [40]uint64
	for i := 0; i < 40; i++ {
		x[i] = a[i]*b[i] + a[(i+1)%40]
	}
	var y [40]uint64
	for i := 0; i < 40; i++ {
		y[i] = x[i] ^ (x[(i+7)%40] >> 3)
	}
	var s uint64
	var t uint64
	for i := 0; i < 40; i++ {
		s = s + y[i]*x[i]
		t = t ^ y[i]
	}
	return s, t
}`

type absStep struct {
	Op   string `json:"op"`
	Ins  []int  `json:"ins"`
	Size int    `json:"size"`
}

type absProg struct {
	Steps []absStep `json:"steps"`
	Rets  []int     `json:"rets"`
}

// renderAbs turns an abstract SSA program of specs/Stream.tla into MPCL:
// sizes 1/2 are uint8/uint16, arith is a multiplication, alias a constant shift.
// With inline set, values used exactly once (and not returned) are folded into
// the expression that uses them, so that no named temporary (an extra mov alias
// in the real SSA) sits between a collected value and the next allocation.
func renderAbs(p *absProg, inline bool) string {
	typ := func(size int) string { return []string{"", "uint8", "uint16"}[size] }
	sizes := map[int]int{1: 1, 2: 1}
	uses := map[int]int{}
	for _, st := range p.Steps {
		for _, in := range st.Ins {
			uses[in]++
		}
	}
	returned := map[int]bool{}
	for _, r := range p.Rets {
		returned[r] = true
	}
	expr := map[int]string{1: "a", 2: "b"}
	var b strings.Builder
	for i, st := range p.Steps {
		out := i + 3
		sizes[out] = st.Size
		var e string
		switch st.Op {
		case "arith":
			arg := func(v int) string {
				if sizes[v] == st.Size {
					return expr[v]
				}
				return fmt.Sprintf("%s(%s)", typ(st.Size), expr[v])
			}
			e = fmt.Sprintf("(%s * %s)", arg(st.Ins[0]), arg(st.Ins[1]))
		case "alias":
			e = fmt.Sprintf("(%s >> 1)", expr[st.Ins[0]])
		}
		if inline && uses[out] == 1 && !returned[out] {
			expr[out] = e
			continue
		}
		name := fmt.Sprintf("v%d", out)
		fmt.Fprintf(&b, "\t%s := %s\n", name, e)
		expr[out] = name
	}
	var rt, rv []string
	for _, r := range p.Rets {
		rt = append(rt, typ(sizes[r]))
		rv = append(rv, expr[r])
	}
	return fmt.Sprintf("package main\n\nfunc main(a, b uint8) (%s) {\n%s\treturn %s\n}\n", strings.Join(rt, ", "), b.String(), strings.Join(rv, ", "))
}

func c05Abstract(args []string) error {
	out, err := newND(args[1])
	if err != nil {
		return err
	}
	defer out.close()
	rng := rand.New(rand.NewSource(seed()*15485867 + 55))
	idx := 0
	nviol := 0
	return readND(args[0], func(raw json.RawMessage) error {
		var p absProg
		if err := json.Unmarshal(raw, &p); err != nil {
			return err
		}
		if nviol >= 5 {
			return nil
		}
		u8 := pgScalar("a", 8, false)
		for k := 0; k < 2; k++ {
			src := renderAbs(&p, k == 1)
			res := &Result{Case: idx, Nontrivial: len(p.Steps) >= 3}
			c05One(res, src, pgInput(rng, u8), pgInput(rng, u8), nil, uint64(seed())<<32+uint64(idx)+0x5000000)
			if res.Class == "compared" {
				res.Class = "abstract"
			}
			if idx < 2 || len(res.Viol) > 0 {
				res.Sample = src
			}
			if len(res.Viol) > 0 {
				nviol++
			}
			idx++
			out.put(res)
			if res.Class == "rejected" {
				break
			}
		}
		return nil
	})
}

func c05Main(args []string) error {
	if len(args) >= 3 && args[0] == "abstract" {
		return c05Abstract(args[1:])
	}
	if len(args) == 4 && args[0] == "one" {
		// ad-hoc / replay: vh c05 one <source file> <x> <y>
		src, err := os.ReadFile(args[1])
		if err != nil {
			return err
		}
		res := &Result{Case: 0, Nontrivial: true}
		c05OneV(res, string(src), strings.Split(args[2], ","), strings.Split(args[3], ","), nil, uint64(seed()))
		b, _ := json.Marshal(res)
		fmt.Println(string(b))
		return nil
	}
	if len(args) == 3 && args[0] == "mpcl" {
		// programs generated from specs/Mpcl.tla (arrays, structs, loops, calls, early returns, ...), each with the
		// interpreter's test vectors: run in streaming mode and in whole-circuit mode on some of the vectors
		out, err := newND(args[2])
		if err != nil {
			return err
		}
		defer out.close()
		rng := rand.New(rand.NewSource(seed()*2971215073 + 5))
		idx := 0
		nviol := 0
		return readND(args[1], func(raw json.RawMessage) error {
			var mc mpCase
			if err := json.Unmarshal(raw, &mc); err != nil {
				return err
			}
			if nviol >= 6 || len(mc.Tests) == 0 {
				return nil
			}
			src := renderMpcl(&mc)
			nvec := 1
			if thorough() {
				nvec = 2
			}
			for k := 0; k < nvec; k++ {
				t := mc.Tests[rng.Intn(len(mc.Tests))]
				res := &Result{Case: idx, Nontrivial: len(mc.Stmts) >= 3}
				idx++
				c05One(res, src, fmt.Sprint(t[0]), fmt.Sprint(t[1]), nil, uint64(seed())<<32+uint64(idx))
				if res.Class == "compared" {
					res.Class = "mpcl-generated"
				}
				if len(res.Viol) > 0 {
					res.Sample = src
					nviol++
				}
				out.put(res)
				if res.Class == "rejected" {
					break
				}
			}
			return nil
		})
	}
	if len(args) < 4 || args[0] != "run" {
		return fmt.Errorf("usage: vh c05 run trace results nprogs")
	}
	tr, err := newND(args[1])
	if err != nil {
		return err
	}
	defer tr.close()
	out, err := newND(args[2])
	if err != nil {
		return err
	}
	defer out.close()
	nprogs := 40
	fmt.Sscan(args[3], &nprogs)
	var wtr *ndWriter
	if len(args) > 4 {
		if wtr, err = newND(args[4]); err != nil {
			return err
		}
		defer wtr.close()
	}
	wtraced := 0
	rng := rand.New(rand.NewSource(seed()*67867967 + 5))
	idx := 0
	traced := 0
	first := true
	emit := func(evs []stEv) {
		nids := 0
		for _, e := range evs {
			for _, o := range e.Outs {
				nids += len(o.IDs)
			}
		}
		if len(evs) == 0 || len(evs) > 400 || nids > 6000 {
			return
		}
		if !first {
			tr.put(map[string]interface{}{"ev": "reset", "idx": 0, "op": "", "ins": []int{}, "outs": []int{}})
		}
		first = false
		for _, e := range evs {
			tr.put(e)
		}
		traced++
	}
	nviol := 0
	run := func(src string, a, b pgVar, ninputs int, class string) {
		for k := 0; k < ninputs && nviol < 5; k++ {
			res := &Result{Case: idx, Nontrivial: true}
			var rec []stEv
			var recp *[]stEv
			if k == 0 && traced < 60 {
				recp = &rec
			}
			var wev []swEv
			var wevp *[]swEv
			if wtr != nil && k == 0 && wtraced < 45 {
				wevp = &wev
			}
			c05One(res, src, pgInput(rng, a), pgInput(rng, b), recp, uint64(seed())<<32+uint64(idx), wevp)
			if res.Class == "compared" {
				res.Class = class
			}
			if len(wev) > 0 {
				if wtraced > 0 {
					wev = append([]swEv{{Ev: "reset"}}, wev...)
				}
				for _, e := range wev {
					// TLC's JSON reader has no null
					if e.G == nil {
						e.G = [][]int{}
					}
					if e.IDs == nil {
						e.IDs = []int{}
					}
					wtr.put(e)
				}
				wtraced++
			}
			if recp != nil && res.Class != "rejected" {
				emit(rec)
			}
			if idx < 3 || len(res.Viol) > 0 {
				res.Sample = src
			}
			if len(res.Viol) > 0 {
				nviol++
			}
			idx++
			out.put(res)
			if res.Class == "rejected" {
				break
			}
		}
	}
	u16 := pgScalar("a", 16, false)
	arr4 := pgArray("a", 4)
	i16 := pgScalar("a", 16, true)
	tmplArgs := [][2]pgVar{{u16, u16}, {arr4, arr4}, {u16, u16}, {arr4, arr4}, {u16, u16}, {u16, u16}, {u16, u16}, {i16, i16}}
	u128 := pgScalar("a", 128, false)
	u160 := pgScalar("a", 160, false)
	run(pgWideTemplates[0], u128, u128, 1, "wide-step")
	if thorough() {
		run(pgWideTemplates[1], u160, u160, 1, "wide-step")
	}
	for i, t := range pgTemplates {
		run(t, tmplArgs[i][0], tmplArgs[i][1], 3, "template")
	}
	// struct arguments and results, arrays of arrays, booleans: the argument and type transfer to the evaluator
	for i, t := range pgStructTemplates {
		for k := 0; k < 4; k++ {
			res := &Result{Case: idx, Nontrivial: true}
			xv, yv := t.inputs(rng)
			c05OneV(res, t.src, xv, yv, nil, uint64(seed())<<32+uint64(idx))
			if res.Class == "compared" {
				res.Class = "struct-template"
			} else if res.Class == "rejected" {
				res.drift("struct template %d does not compile or its inputs do not parse (%v | %v)", i, xv, yv)
			}
			if len(res.Viol) > 0 {
				res.Sample = t.src
			}
			idx++
			out.put(res)
		}
	}
	// unsized arguments: main is instantiated from the sizes of the two inputs
	for k := 0; k < 6; k++ {
		res := &Result{Case: idx, Nontrivial: true}
		la, lb := 1+rng.Intn(40), 1+rng.Intn(40)
		if k == 4 {
			// the evaluator's input wires straddle wire id 65536 (a page of the evaluator's wire table)
			la, lb = 8191-rng.Intn(2), 3+rng.Intn(20)
		}
		src := pgUnsizedTemplates[k%len(pgUnsizedTemplates)]
		xv, yv := []string{pgHex(rng, la)}, []string{pgHex(rng, lb)}
		if strings.Contains(src, "a, b uint") {
			yv = []string{pgHex(rng, la)} // both sides of an arithmetic operator need one width
		}
		c05OneV(res, src, xv, yv, nil, uint64(seed())<<32+uint64(idx))
		if res.Class == "compared" {
			res.Class = "unsized-template"
		} else if res.Class == "rejected" {
			res.drift("unsized template does not compile for inputs %v | %v: %v", xv, yv, res.Sample)
		}
		if len(res.Viol) > 0 {
			res.Sample = src
		}
		idx++
		out.put(res)
	}
	// native circuits (resolved next to the source file: a scratch directory with copies of pkg/math's circuit files)
	if dir, err := os.MkdirTemp("", "vh-native-"); err == nil {
		repo := os.Getenv("VERIF_REPO")
		if repo == "" {
			repo = "/repo"
		}
		ok := true
		for _, f := range []string{"add64.circ", "sub64.circ", "mul64.circ", "div64.circ"} {
			data, err := os.ReadFile(repo + "/pkg/math/" + f)
			if err != nil || os.WriteFile(dir+"/"+f, data, 0644) != nil {
				ok = false
			}
		}
		if ok {
			c05SourceFile = dir + "/prog.mpcl"
			streamSourceName = c05SourceFile
			for _, src := range c05NativeTemplates {
				for k := 0; k < 2; k++ {
					res := &Result{Case: idx, Nontrivial: true}
					xv := []string{fmt.Sprintf("0x%016x", rng.Uint64())}
					yv := []string{fmt.Sprintf("0x%016x", rng.Uint64()|1)}
					c05OneV(res, src, xv, yv, nil, uint64(seed())<<32+uint64(idx))
					if res.Class == "compared" {
						res.Class = "native-template"
					} else if res.Class == "rejected" {
						res.drift("native-circuit template does not compile: %v\n%s", res.Sample, src)
					}
					if len(res.Viol) > 0 {
						res.Sample = src
					}
					idx++
					out.put(res)
				}
			}
			c05SourceFile, streamSourceName = "", "{verif}"
		}
		os.RemoveAll(dir)
	}
	for li, src := range pgLivenessPrograms() {
		bits := 8
		if strings.Contains(src, "uint32") {
			bits = 32
		}
		_ = li
		v := pgScalar("a", bits, false)
		run(src, v, v, 1, "liveness-order")
	}
	for ti, t := range pgConstWidthTemplates {
		for wi, T := range []string{"uint64", "int64", "uint40", "uint128"} {
			bits := []int{64, 64, 40, 128}[wi]
			v := pgScalar("a", bits, T[0] == 'i')
			_ = ti
			run(fmt.Sprintf(t, T), v, v, 2, "const-width-template")
		}
	}
	u8 := pgScalar("a", 8, false)
	cacheArgs := [][2]pgVar{{pgArray("a", 8), u8}, {pgArray("a", 8), u8}, {u16, u16}, {u16, u16}}
	for i, t := range pgCacheTemplates {
		run(t, cacheArgs[i][0], cacheArgs[i][1], 6, "cache-template")
	}
	for i := 0; i < nprogs; i++ {
		p := genProgram(rng, 4+rng.Intn(8), i%5 == 4)
		run(p.src, p.argA, p.argB, 2, "generated")
	}
	// both wire-id encodings
	big40 := pgVar{name: "a", typ: "[40]uint64", bits: 2560, arr: 0}
	_ = big40
	res := &Result{Case: idx, Nontrivial: true, Class: "big-ids"}
	hex := func() string {
		var sb strings.Builder
		sb.WriteString("0x")
		for i := 0; i < 40*8; i++ {
			fmt.Fprintf(&sb, "%02x", rng.Intn(256))
		}
		return sb.String()
	}
	if thorough() || seed()%2 == 1 {
		c05One(res, c05BigProgram, hex(), hex(), nil, uint64(seed())<<32+uint64(idx)+5)
		if res.Class == "compared" {
			res.Class = "big-ids"
		}
		out.put(res)
	}
	return nil
}
