package main

// C12: constant folding equals circuit evaluation.
//
//   vh c12 replay cases.ndjson results.ndjson trace.ndjson
//       cases from specs/Fold.tla: (operator, type, consumer) with all / boundary operand
//       pairs and the expected value.  For each the harness compiles a constant variant
//       (typed package-level constants, the expression folded by the compiler) and a
//       run-time variant (the same expression on main's parameters), confirms with
//       CompileSSA that folding happened, and compares folded, run-time and expected.
//   vh c12 wide results.ndjson trace.ndjson n
//       widths 31..33, 63..65, 127..130: folded versus run-time, written as limb events.

import (
	"encoding/json"
	"fmt"
	"math/big"
	"math/rand"
	"strings"

	"github.com/markkurossi/mpc/compiler"
	"github.com/markkurossi/mpc/compiler/ssa"
	"github.com/markkurossi/mpc/compiler/utils"
)

func init() { commands["c12"] = c12Main }

type foldCase struct {
	Op   string  `json:"op"`
	T    mpType  `json:"t"`
	K    string  `json:"k"`
	Rows [][]int `json:"rows"`
}

func typeName(signed bool, w int) string {
	if signed {
		return fmt.Sprintf("int%d", w)
	}
	return fmt.Sprintf("uint%d", w)
}

// literal of value v (unsigned representation) in the type
func typedLit(signed bool, w int, v *big.Int) string {
	if signed && v.Bit(w-1) == 1 {
		n := new(big.Int).Sub(new(big.Int).Lsh(big.NewInt(1), uint(w)), v)
		return "-" + n.String()
	}
	return v.String()
}

func foldExpr(op, x, y string, ycount int64) string {
	switch op {
	case "neg":
		return "-" + x
	case "<<", ">>":
		return fmt.Sprintf("%s %s %d", x, op, ycount)
	}
	return fmt.Sprintf("%s %s %s", x, op, y)
}

func consume(k, e string) string {
	switch k {
	case "add1":
		return "(" + e + ") + 1"
	case "div3":
		return "(" + e + ") / 3"
	case "lt2":
		return "(" + e + ") < 2"
	case "shl1":
		return "(" + e + ") << 1"
	}
	return e
}

func isCmpOp(op string) bool {
	switch op {
	case "<", "<=", ">", ">=", "==", "!=":
		return true
	}
	return false
}

var arithOps = map[string]bool{"iadd": true, "uadd": true, "isub": true, "usub": true, "imult": true, "umult": true, "idiv": true, "udiv": true,
	"imod": true, "umod": true, "band": true, "bor": true, "bxor": true, "bclr": true, "lshift": true, "rshift": true, "srshift": true,
	"ilt": true, "ult": true, "ile": true, "ule": true, "igt": true, "ugt": true, "ige": true, "uge": true, "eq": true, "neq": true}

func ssaFolded(src string) (folded bool, err error) {
	defer func() {
		if x := recover(); x != nil {
			err = fmt.Errorf("compiler panic: %v", x)
		}
	}()
	params := utils.NewParams()
	params.MPCLCErrorLoc = false
	var prog *ssa.Program
	prog, _, err = compiler.New(params).CompileSSA("{verif}", strings.NewReader(src), nil)
	if err != nil {
		return false, err
	}
	for _, s := range prog.Steps {
		if arithOps[s.Instr.Op.String()] {
			return false, nil
		}
	}
	return true, nil
}

func signClass(signed bool, w int, x, y *big.Int) string {
	if !signed {
		return "unsigned"
	}
	nx, ny := x.Bit(w-1) == 1, y.Bit(w-1) == 1
	switch {
	case nx && ny:
		return "neg,neg"
	case nx:
		return "neg,pos"
	case ny:
		return "pos,neg"
	}
	return "pos,pos"
}

func widthClass(w int) string {
	switch {
	case w <= 8:
		return "w<=8"
	case w <= 32:
		return "w<=32"
	case w <= 64:
		return "w<=64"
	}
	return "w>64"
}

// c12Pair compiles the two variants for one operand pair and returns (folded value, run-time value, class).
func c12Pair(res *Result, op string, signed bool, w int, k string, x, y *big.Int) (fv, rv *big.Int, class string) {
	T := typeName(signed, w)
	rt := T
	if isCmpOp(op) || k == "lt2" {
		rt = "bool"
	}
	ycount := y.Int64()
	ce := consume(k, foldExpr(op, "cx", "cy", ycount))
	re := consume(k, foldExpr(op, "a", "b", ycount))
	csrc := fmt.Sprintf("package main\n\nconst cx %s = %s\nconst cy %s = %s\n\nfunc main(a %s, b %s) %s {\n\treturn %s\n}\n",
		T, typedLit(signed, w, x), T, typedLit(signed, w, y), T, T, rt, ce)
	rsrc := fmt.Sprintf("package main\n\nfunc main(a %s, b %s) %s {\n\treturn %s\n}\n", T, T, rt, re)
	what := fmt.Sprintf("%s: (%s) with x=%s y=%s", T, ce, typedLit(signed, w, x), typedLit(signed, w, y))
	mask := new(big.Int).Sub(new(big.Int).Lsh(big.NewInt(1), uint(w)), big.NewInt(1))
	if rt == "bool" {
		mask = big.NewInt(1)
	}
	folded, err := ssaFolded(csrc)
	if err != nil {
		if strings.Contains(err.Error(), "compiler panic") {
			res.viol("fold-crash:"+op, "the compiler crashes while folding %s: %v", what, err)
			return nil, nil, "crash"
		}
		return nil, nil, "rejected"
	}
	if !folded {
		return nil, nil, "not-folded"
	}
	var cc, rc interface{ Compute([]*big.Int) ([]*big.Int, error) }
	func() {
		defer func() {
			if p := recover(); p != nil {
				err = fmt.Errorf("compiler panic: %v", p)
			}
		}()
		c1, e1 := compileMPCL(csrc, nil)
		if e1 != nil {
			err = e1
			return
		}
		c2, e2 := compileMPCL(rsrc, nil)
		if e2 != nil {
			err = e2
			return
		}
		cc, rc = c1, c2
	}()
	if err != nil {
		if strings.Contains(err.Error(), "compiler panic") {
			res.viol("fold-crash:"+op, "the compiler crashes on %s: %v", what, err)
			return nil, nil, "crash"
		}
		return nil, nil, "rejected"
	}
	fo, err := cc.Compute([]*big.Int{big.NewInt(0), big.NewInt(0)})
	if err != nil {
		return nil, nil, "rejected"
	}
	ro, err := rc.Compute([]*big.Int{x, y})
	if err != nil {
		return nil, nil, "rejected"
	}
	return new(big.Int).And(fo[0], mask), new(big.Int).And(ro[0], mask), "folded"
}

func c12Main(args []string) error {
	if len(args) < 3 {
		return fmt.Errorf("usage: vh c12 replay|wide ...")
	}
	rng := rand.New(rand.NewSource(seed()*47055833 + 12))
	switch args[0] {
	case "replay":
		out, err := newND(args[2])
		if err != nil {
			return err
		}
		defer out.close()
		rowsPer := 10
		if thorough() {
			rowsPer = 60
		}
		idx := 0
		nviol := 0
		return readND(args[1], func(raw json.RawMessage) error {
			var fc foldCase
			if err := json.Unmarshal(raw, &fc); err != nil {
				return err
			}
			signed := fc.T.kind() == "i"
			w := fc.T.width()
			if w < 3 && fc.K != "ret" {
				return nil // the consumers' literals do not fit such types
			}
			if nviol >= 400 {
				return nil
			}
			res := &Result{Case: idx, Nontrivial: w >= 3}
			idx++
			rows := fc.Rows
			if len(rows) > rowsPer {
				rng.Shuffle(len(rows), func(i, j int) { rows[i], rows[j] = rows[j], rows[i] })
				rows = rows[:rowsPer]
			}
			classes := map[string]int{}
			for _, r := range rows {
				if r[2] < 0 {
					continue
				}
				x, y := big.NewInt(int64(r[0])), big.NewInt(int64(r[1]))
				fv, rv, class := c12Pair(res, fc.Op, signed, w, fc.K, x, y)
				classes[class]++
				if class != "folded" {
					continue
				}
				sc := signClass(signed, w, x, y)
				want := big.NewInt(int64(r[2]))
				T := typeName(signed, w)
				if fv.Cmp(rv) != 0 {
					res.viol(fmt.Sprintf("fold:%s:%s:%s:%s", fc.Op, fc.K, sc, widthClass(w)),
						"%s: x=%s y=%s, `x %s y` then %s: folded constant %v, run-time circuit %v (specification %v)", T, typedLit(signed, w, x), typedLit(signed, w, y), fc.Op, fc.K, fv, rv, want)
				} else if rv.Cmp(want) != 0 {
					res.viol(fmt.Sprintf("both-wrong:%s:%s:%s:%s", fc.Op, fc.K, sc, widthClass(w)),
						"%s: x=%s y=%s, `x %s y` then %s: folded and run-time agree on %v but the typed operator semantics give %v", T, typedLit(signed, w, x), typedLit(signed, w, y), fc.Op, fc.K, rv, want)
				}
			}
			best := ""
			for c, n := range classes {
				if best == "" || n > classes[best] {
					best = c
				}
			}
			res.Class = best
			if len(res.Viol) > 0 {
				nviol++
				if len(res.Viol) > 3 {
					res.Viol = res.Viol[:3]
				}
			}
			if idx <= 2 {
				res.Sample = map[string]interface{}{"op": fc.Op, "type": typeName(signed, w), "consumer": fc.K, "rows": len(fc.Rows)}
			}
			out.put(res)
			return nil
		})
	case "wide":
		out, err := newND(args[1])
		if err != nil {
			return err
		}
		defer out.close()
		tr, err := newND(args[2])
		if err != nil {
			return err
		}
		defer tr.close()
		n := 100
		if len(args) > 3 {
			fmt.Sscan(args[3], &n)
		}
		widths := []int{16, 31, 32, 33, 63, 64, 65, 127, 128, 129, 130}
		ops := []string{"+", "-", "*", "/", "%", "&", "|", "^", "&^", "<<", ">>", "<", "<=", ">", ">=", "==", "!=", "neg"}
		ks := []string{"ret", "add1", "div3", "lt2", "shl1"}
		for i := 0; i < n; i++ {
			w := widths[rng.Intn(len(widths))]
			signed := rng.Intn(2) == 0
			op := ops[i%len(ops)]
			k := ks[rng.Intn(len(ks))]
			x := boundaryOperand(rng, w)
			y := boundaryOperand(rng, w)
			if op == "<<" || op == ">>" {
				y = big.NewInt(int64(1 + rng.Intn(w-1)))
			}
			if (op == "/" || op == "%") && y.Sign() == 0 {
				y = big.NewInt(3)
			}
			res := &Result{Case: i, Nontrivial: true}
			fv, rv, class := c12Pair(res, op, signed, w, k, x, y)
			res.Class = "wide:" + class
			if class == "folded" {
				T := typeName(signed, w)
				ok := 1
				if fv.Cmp(rv) != 0 {
					ok = 0
					res.viol(fmt.Sprintf("fold:%s:%s:%s:%s", op, k, signClass(signed, w, x, y), widthClass(w)),
						"%s: x=%s y=%s, `x %s y` then %s: folded constant %v, run-time circuit %v", T, typedLit(signed, w, x), typedLit(signed, w, y), op, k, fv, rv)
				}
				tr.put(map[string]interface{}{"ev": "fold", "op": op, "k": k, "w": w, "signed": b2i(signed), "x": limbs(x, w), "y": limbs(y, w),
					"folded": limbs(fv, w), "runtime": limbs(rv, w), "same": ok})
			}
			out.put(res)
		}
		return nil
	}
	return fmt.Errorf("unknown c12 mode")
}
