package main

// C12: constant folding equals circuit evaluation.
//
//   vh c12 replay cases.ndjson results.ndjson
//       cases from specs/Fold.tla: (operator, type, consumer) with all operand pairs of a
//       narrow type and the expected value.  For each the harness compiles a constant variant
//       (typed package-level constants, the expression folded by the compiler) and a
//       run-time variant (the same expression on main's parameters), confirms with
//       CompileSSA that folding happened, and compares folded, run-time and expected.
//   vh c12 cases cases.ndjson results.ndjson trace.ndjson
//       cases of the space spanned by specs/FoldCat.tla (wide types, operand patterns on the
//       sizes constants are stored in): folded and run-time values are recorded as limbs and
//       decided by specs/FoldTrace.tla.
// Violation keys are "<kind>:<op>:<consumer>@<type>:<x>:<y>": one per input, so that known
// findings can be listed input by input.

import (
	"encoding/json"
	"fmt"
	"math/big"
	"math/rand"
	"strings"

	"github.com/markkurossi/mpc/compiler"
	"github.com/markkurossi/mpc/compiler/ssa"
	"github.com/markkurossi/mpc/compiler/utils"
)

func init() { commands["c12"] = c12Main }

type foldCase struct {
	Op   string  `json:"op"`
	T    mpType  `json:"t"`
	K    string  `json:"k"`
	Rows [][]int `json:"rows"`
}

func typeName(signed bool, w int) string {
	if signed {
		return fmt.Sprintf("int%d", w)
	}
	return fmt.Sprintf("uint%d", w)
}

// literal of value v (unsigned representation) in the type
func typedLit(signed bool, w int, v *big.Int) string {
	if signed && v.Bit(w-1) == 1 {
		n := new(big.Int).Sub(new(big.Int).Lsh(big.NewInt(1), uint(w)), v)
		return "-" + n.String()
	}
	return v.String()
}

func foldExpr(op, x, y string, ycount int64) string {
	switch op {
	case "neg":
		return "-" + x
	case "not":
		return "!" + x
	case "<<", ">>":
		return fmt.Sprintf("%s %s %d", x, op, ycount)
	}
	return fmt.Sprintf("%s %s %s", x, op, y)
}

func consume(k, e, x string) string {
	switch k {
	case "reuse":
		return "(" + e + ") ^ " + x
	case "add1":
		return "(" + e + ") + 1"
	case "div3":
		return "(" + e + ") / 3"
	case "lt2":
		return "(" + e + ") < 2"
	case "shl1":
		return "(" + e + ") << 1"
	}
	return e
}

func isCmpOp(op string) bool {
	switch op {
	case "<", "<=", ">", ">=", "==", "!=":
		return true
	}
	return false
}

var arithOps = map[string]bool{"iadd": true, "uadd": true, "isub": true, "usub": true, "imult": true, "umult": true, "idiv": true, "udiv": true,
	"imod": true, "umod": true, "band": true, "bor": true, "bxor": true, "bclr": true, "lshift": true, "rshift": true, "srshift": true,
	"ilt": true, "ult": true, "ile": true, "ule": true, "igt": true, "ugt": true, "ige": true, "uge": true, "eq": true, "neq": true}

func ssaFolded(src string) (folded bool, err error) {
	defer func() {
		if x := recover(); x != nil {
			err = fmt.Errorf("compiler panic: %v", x)
		}
	}()
	params := utils.NewParams()
	params.MPCLCErrorLoc = false
	var prog *ssa.Program
	prog, _, err = compiler.New(params).CompileSSA("{verif}", strings.NewReader(src), nil)
	if err != nil {
		return false, err
	}
	for _, s := range prog.Steps {
		if arithOps[s.Instr.Op.String()] {
			return false, nil
		}
	}
	return true, nil
}

// c12Pair compiles the two variants for one operand pair and returns (folded value, run-time value, class).
func c12Pair(op string, signed bool, w int, k string, x, y *big.Int) (fv, rv *big.Int, class, detail string) {
	T := typeName(signed, w)
	rt := T
	if isCmpOp(op) || k == "lt2" {
		rt = "bool"
	}
	ycount := y.Int64()
	ce := consume(k, foldExpr(op, "cx", "cy", ycount), "cx")
	re := consume(k, foldExpr(op, "a", "b", ycount), "a")
	lx, ly := typedLit(signed, w, x), typedLit(signed, w, y)
	if w == 0 { // booleans
		T, rt, w = "bool", "bool", 1
		lx, ly = fmt.Sprint(x.Sign() != 0), fmt.Sprint(y.Sign() != 0)
	}
	csrc := fmt.Sprintf("package main\n\nconst cx %s = %s\nconst cy %s = %s\n\nfunc main(a %s, b %s) %s {\n\treturn %s\n}\n",
		T, lx, T, ly, T, T, rt, ce)
	rsrc := fmt.Sprintf("package main\n\nfunc main(a %s, b %s) %s {\n\treturn %s\n}\n", T, T, rt, re)
	what := fmt.Sprintf("%s: (%s) with x=%s y=%s", T, ce, lx, ly)
	mask := new(big.Int).Sub(new(big.Int).Lsh(big.NewInt(1), uint(w)), big.NewInt(1))
	if rt == "bool" {
		mask = big.NewInt(1)
	}
	folded, err := ssaFolded(csrc)
	if err != nil {
		if strings.Contains(err.Error(), "compiler panic") {
			return nil, nil, "crash", fmt.Sprintf("the compiler crashes while folding %s: %v", what, err)
		}
		return nil, nil, "rejected", ""
	}
	if !folded {
		return nil, nil, "not-folded", ""
	}
	var cc, rc interface {
		Compute([]*big.Int) ([]*big.Int, error)
	}
	func() {
		defer func() {
			if p := recover(); p != nil {
				err = fmt.Errorf("compiler panic: %v", p)
			}
		}()
		c1, e1 := compileMPCL(csrc, nil)
		if e1 != nil {
			err = e1
			return
		}
		c2, e2 := compileMPCL(rsrc, nil)
		if e2 != nil {
			err = e2
			return
		}
		cc, rc = c1, c2
	}()
	if err != nil {
		if strings.Contains(err.Error(), "compiler panic") {
			return nil, nil, "crash", fmt.Sprintf("the compiler crashes on %s: %v", what, err)
		}
		return nil, nil, "rejected", ""
	}
	fo, err := cc.Compute([]*big.Int{big.NewInt(0), big.NewInt(0)})
	if err != nil {
		return nil, nil, "rejected", ""
	}
	ro, err := rc.Compute([]*big.Int{x, y})
	if err != nil {
		return nil, nil, "rejected", ""
	}
	return new(big.Int).And(fo[0], mask), new(big.Int).And(ro[0], mask), "folded", what
}

type catCase struct {
	I      int    `json:"i"`
	Op     string `json:"op"`
	K      string `json:"k"`
	W      int    `json:"w"`
	Signed int    `json:"signed"`
	Bool   int    `json:"bool"`
	Xn     string `json:"xn"`
	Yn     string `json:"yn"`
	X      []int  `json:"x"`
	Y      []int  `json:"y"`
	Cnt    int    `json:"cnt"`
}

func fromLimbs(l []int) *big.Int {
	v := new(big.Int)
	for i := len(l) - 1; i >= 0; i-- {
		v.Lsh(v, 12)
		v.Or(v, big.NewInt(int64(l[i])))
	}
	return v
}

func c12Main(args []string) error {
	if len(args) < 3 {
		return fmt.Errorf("usage: vh c12 replay|cases ...")
	}
	rng := rand.New(rand.NewSource(seed()*47055833 + 12))
	switch args[0] {
	case "replay":
		// cases of specs/Fold.tla: every operand pair of narrow types with the expected typed value
		out, err := newND(args[2])
		if err != nil {
			return err
		}
		defer out.close()
		rowsPer := 12
		if thorough() {
			rowsPer = 1 << 20
		}
		idx := 0
		return readND(args[1], func(raw json.RawMessage) error {
			var fc foldCase
			if err := json.Unmarshal(raw, &fc); err != nil {
				return err
			}
			signed := fc.T.kind() == "i"
			w := fc.T.width()
			if w < 3 && fc.K != "ret" {
				return nil // the consumers' literals do not fit such types
			}
			res := &Result{Case: idx, Nontrivial: w >= 3}
			idx++
			rows := fc.Rows
			if len(rows) > rowsPer {
				rng.Shuffle(len(rows), func(i, j int) { rows[i], rows[j] = rows[j], rows[i] })
				rows = rows[:rowsPer]
			}
			classes := map[string]int{}
			T := typeName(signed, w)
			for _, r := range rows {
				if r[2] < 0 {
					continue
				}
				x, y := big.NewInt(int64(r[0])), big.NewInt(int64(r[1]))
				fv, rv, class, detail := c12Pair(fc.Op, signed, w, fc.K, x, y)
				classes[class]++
				key := fmt.Sprintf("%s:%s@%s:%d:%d", fc.Op, fc.K, T, r[0], r[1])
				if class == "crash" {
					res.viol("fold-crash:"+key, "%s", detail)
				}
				if class != "folded" {
					continue
				}
				want := big.NewInt(int64(r[2]))
				if fv.Cmp(rv) != 0 {
					res.viol("fold:"+key, "%s: folded constant %v, run-time circuit %v (specification %v)", detail, fv, rv, want)
				} else if rv.Cmp(want) != 0 {
					res.drift("both:"+key+" %s: folded and run-time agree on %v but the typed operator semantics give %v", detail, rv, want)
				}
			}
			best := ""
			for c, n := range classes {
				if best == "" || n > classes[best] {
					best = c
				}
			}
			res.Class = best
			if idx <= 2 {
				res.Sample = map[string]interface{}{"op": fc.Op, "type": T, "consumer": fc.K, "rows": len(fc.Rows)}
			}
			out.put(res)
			return nil
		})
	case "cases":
		// cases spanned by the catalogue of specs/FoldCat.tla; the verdict on each recorded case is FoldTrace.tla's
		out, err := newND(args[2])
		if err != nil {
			return err
		}
		defer out.close()
		tr, err := newND(args[3])
		if err != nil {
			return err
		}
		defer tr.close()
		return readND(args[1], func(raw json.RawMessage) error {
			var c catCase
			if err := json.Unmarshal(raw, &c); err != nil {
				return err
			}
			x, y := fromLimbs(c.X), fromLimbs(c.Y)
			if c.Op == "<<" || c.Op == ">>" {
				y = big.NewInt(int64(c.Cnt))
			}
			w := c.W
			T := typeName(c.Signed == 1, w)
			if c.Bool == 1 {
				w, T = 0, "bool"
			}
			key := fmt.Sprintf("%s:%s@%s:%s:%s", c.Op, c.K, T, c.Xn, c.Yn)
			res := &Result{Case: c.I, Nontrivial: true}
			fv, rv, class, detail := c12Pair(c.Op, c.Signed == 1, w, c.K, x, y)
			res.Class = class
			if class == "crash" {
				res.viol("fold-crash:"+key, "%s", detail)
			}
			if class == "folded" {
				lw := c.W
				if c.Bool == 1 || isCmpOp(c.Op) || c.K == "lt2" {
					lw = 1
				}
				tr.put(map[string]interface{}{"i": c.I, "key": key, "what": detail, "op": c.Op, "k": c.K, "w": c.W, "signed": c.Signed, "bool": c.Bool,
					"x": limbs(x, c.W), "y": limbs(y, c.W), "folded": limbs(fv, lw), "runtime": limbs(rv, lw), "fv": fv.String(), "rv": rv.String()})
			}
			out.put(res)
			return nil
		})
	}
	return fmt.Errorf("unknown c12 mode")
}
