package main

// C12: constant folding equals circuit evaluation.
//
//   vh c12 replay cases.ndjson results.ndjson
//       cases from specs/Fold.tla: (operator, type, consumer) with all operand pairs of a
//       narrow type and the expected value.  For each the harness compiles a constant variant
//       (typed package-level constants, the expression folded by the compiler) and a
//       run-time variant (the same expression on main's parameters), confirms with
//       CompileSSA that folding happened, and compares folded, run-time and expected.
//   vh c12 cases cases.ndjson results.ndjson trace.ndjson
//       cases of the space spanned by specs/FoldCat.tla (wide types, operand patterns on the
//       sizes constants are stored in): folded and run-time values are recorded as limbs and
//       decided by specs/FoldTrace.tla.
// Violation keys are "<kind>:<op>:<consumer>@<type>:<x>:<y>": one per input, so that known
// findings can be listed input by input.

import (
	"encoding/json"
	"fmt"
	"math/big"
	"math/rand"
	"os"
	"strings"

	"github.com/markkurossi/mpc/compiler"
	"github.com/markkurossi/mpc/compiler/ssa"
	"github.com/markkurossi/mpc/compiler/utils"
)

func init() { commands["c12"] = c12Main }

type foldCase struct {
	Op   string  `json:"op"`
	T    mpType  `json:"t"`
	K    string  `json:"k"`
	Rows [][]int `json:"rows"`
}

func typeName(signed bool, w int) string {
	if signed {
		return fmt.Sprintf("int%d", w)
	}
	return fmt.Sprintf("uint%d", w)
}

// literal of value v (unsigned representation) in the type
func typedLit(signed bool, w int, v *big.Int) string {
	if signed && v.Bit(w-1) == 1 {
		n := new(big.Int).Sub(new(big.Int).Lsh(big.NewInt(1), uint(w)), v)
		return "-" + n.String()
	}
	return v.String()
}

func foldExpr(op, x, y string, ycount int64) string {
	switch op {
	case "neg":
		return "-" + x
	case "not":
		return "!" + x
	case "<<", ">>":
		return fmt.Sprintf("%s %s %d", x, op, ycount)
	}
	return fmt.Sprintf("%s %s %s", x, op, y)
}

func consume(k, e, x string) string {
	switch k {
	case "reuse":
		return "(" + e + ") ^ " + x
	case "add1":
		return "(" + e + ") + 1"
	case "div3":
		return "(" + e + ") / 3"
	case "lt2":
		return "(" + e + ") < 2"
	case "shl1":
		return "(" + e + ") << 1"
	}
	return e
}

func isCmpOp(op string) bool {
	switch op {
	case "<", "<=", ">", ">=", "==", "!=":
		return true
	}
	return false
}

var arithOps = map[string]bool{"iadd": true, "uadd": true, "isub": true, "usub": true, "imult": true, "umult": true, "idiv": true, "udiv": true,
	"imod": true, "umod": true, "band": true, "bor": true, "bxor": true, "bclr": true, "lshift": true, "rshift": true, "srshift": true,
	"ilt": true, "ult": true, "ile": true, "ule": true, "igt": true, "ugt": true, "ige": true, "uge": true, "eq": true, "neq": true}

func ssaFolded(src string) (folded bool, err error) {
	defer func() {
		if x := recover(); x != nil {
			err = fmt.Errorf("compiler panic: %v", x)
		}
	}()
	params := utils.NewParams()
	params.MPCLCErrorLoc = false
	var prog *ssa.Program
	prog, _, err = compiler.New(params).CompileSSA("{verif}", strings.NewReader(src), nil)
	if err != nil {
		return false, err
	}
	for _, s := range prog.Steps {
		if arithOps[s.Instr.Op.String()] {
			return false, nil
		}
	}
	return true, nil
}

// c12Pair compiles the two variants for one operand pair and returns (folded value, run-time value, class).
func c12Pair(op string, signed bool, w int, k string, x, y *big.Int) (fv, rv *big.Int, class, detail string) {
	T := typeName(signed, w)
	rt := T
	if isCmpOp(op) || k == "lt2" {
		rt = "bool"
	}
	ycount := y.Int64()
	ce := consume(k, foldExpr(op, "cx", "cy", ycount), "cx")
	re := consume(k, foldExpr(op, "a", "b", ycount), "a")
	lx, ly := typedLit(signed, w, x), typedLit(signed, w, y)
	if w == 0 { // booleans
		T, rt, w = "bool", "bool", 1
		lx, ly = fmt.Sprint(x.Sign() != 0), fmt.Sprint(y.Sign() != 0)
	}
	csrc := fmt.Sprintf("package main\n\nconst cx %s = %s\nconst cy %s = %s\n\nfunc main(a %s, b %s) %s {\n\treturn %s\n}\n",
		T, lx, T, ly, T, T, rt, ce)
	rsrc := fmt.Sprintf("package main\n\nfunc main(a %s, b %s) %s {\n\treturn %s\n}\n", T, T, rt, re)
	what := fmt.Sprintf("%s: (%s) with x=%s y=%s", T, ce, lx, ly)
	mask := new(big.Int).Sub(new(big.Int).Lsh(big.NewInt(1), uint(w)), big.NewInt(1))
	if rt == "bool" {
		mask = big.NewInt(1)
	}
	folded, err := ssaFolded(csrc)
	if err != nil {
		if strings.Contains(err.Error(), "compiler panic") {
			return nil, nil, "crash", fmt.Sprintf("the compiler crashes while folding %s: %v", what, err)
		}
		return nil, nil, "rejected", ""
	}
	if !folded {
		return nil, nil, "not-folded", ""
	}
	var cc, rc interface {
		Compute([]*big.Int) ([]*big.Int, error)
	}
	func() {
		defer func() {
			if p := recover(); p != nil {
				err = fmt.Errorf("compiler panic: %v", p)
			}
		}()
		c1, e1 := compileMPCL(csrc, nil)
		if e1 != nil {
			err = e1
			return
		}
		c2, e2 := compileMPCL(rsrc, nil)
		if e2 != nil {
			err = e2
			return
		}
		cc, rc = c1, c2
	}()
	if err != nil {
		if strings.Contains(err.Error(), "compiler panic") {
			return nil, nil, "crash", fmt.Sprintf("the compiler crashes on %s: %v", what, err)
		}
		return nil, nil, "rejected", ""
	}
	fo, err := cc.Compute([]*big.Int{big.NewInt(0), big.NewInt(0)})
	if err != nil {
		return nil, nil, "rejected", ""
	}
	ro, err := rc.Compute([]*big.Int{x, y})
	if err != nil {
		return nil, nil, "rejected", ""
	}
	return new(big.Int).And(fo[0], mask), new(big.Int).And(ro[0], mask), "folded", what
}

// routeEv is one (operator, type, operands) -> (folded, run-time) observation of a routed case
type routeEv struct {
	op     string
	k      string
	w      int
	x, y   *big.Int
	fv, rv *big.Int
	tag    string
}

// signExt gives the w2-bit representation of the w-bit value v read in the type's signedness
func signExt(signed bool, w, w2 int, v *big.Int) *big.Int {
	if signed && v.Bit(w-1) == 1 {
		d := new(big.Int).Sub(new(big.Int).Lsh(big.NewInt(1), uint(w2)), new(big.Int).Lsh(big.NewInt(1), uint(w)))
		return d.Add(d, v)
	}
	return new(big.Int).Set(v)
}

// c12Route: the same fold, but the constants reach the operator on another route than a package-level constant:
//
//	local    x := T(c) ... x op y                      (constant local variables)
//	param    f(T(c), T(d)) with f(x T, y T)            (constant arguments of a function)
//	unsized  f(x uint, y uint) called with the same constants at two widths (the function body is instantiated twice)
//	cast     k := T(c); wk := T2(k); k op m            (the constant is also cast to a wider type, before or after its use)
//
// The run-time variant is the same program with main's parameters in place of the constants.
func c12Route(route, op string, signed bool, w int, k string, x, y *big.Int, swap bool) (evs []routeEv, class, detail string) {
	T := typeName(signed, w)
	w2 := 2 * w
	T2 := typeName(signed, w2)
	rt, rt2 := T, T2
	if isCmpOp(op) || k == "lt2" {
		rt, rt2 = "bool", "bool"
	}
	ycount := y.Int64()
	x2, y2 := signExt(signed, w, w2, x), signExt(signed, w, w2, y)
	var tmpl string
	second := ""
	switch route {
	case "local":
		tmpl = fmt.Sprintf("package main\n\nfunc main(a %s, b %s) %s {\n\tx := {X}\n\ty := {Y}\n\treturn %s\n}\n", T, T, rt, consume(k, foldExpr(op, "x", "y", ycount), "x"))
	case "param":
		tmpl = fmt.Sprintf("package main\n\nfunc f(x %s, y %s) %s {\n\treturn %s\n}\n\nfunc main(a %s, b %s) %s {\n\treturn f({X}, {Y})\n}\n",
			T, T, rt, consume(k, foldExpr(op, "x", "y", ycount), "x"), T, T, rt)
	case "unsized":
		U := "uint"
		if signed {
			U = "int"
		}
		ru := U
		if rt == "bool" {
			ru = "bool"
		}
		l1 := fmt.Sprintf("\tvar r1 %s = f({X}, {Y})\n", rt)
		l2 := fmt.Sprintf("\tvar r2 %s = f({X2}, {Y2})\n", rt2)
		if swap {
			l1, l2 = l2, l1
		}
		tmpl = fmt.Sprintf("package main\n\nfunc f(x %s, y %s) %s {\n\treturn %s\n}\n\nfunc main(a %s, b %s, c %s, d %s) (%s, %s) {\n%s%s\treturn r1, r2\n}\n",
			U, U, ru, foldExpr(op, "x", "y", ycount), T, T, T2, T2, rt, rt2, l1, l2)
		second = op
	case "cast":
		use := fmt.Sprintf("\ts := %s\n", consume(k, foldExpr(op, "k", "m", ycount), "k"))
		casts := fmt.Sprintf("\twk := %s(k)\n\twm := %s(m)\n", T2, T2)
		if swap {
			use, casts = casts, use
		}
		tmpl = fmt.Sprintf("package main\n\nfunc main(a %s, b %s) (%s, %s) {\n\tk := {X}\n\tm := {Y}\n%s%s\treturn s, wk + wm\n}\n", T, T, rt, T2, casts, use)
		second = "+"
	default:
		return nil, "rejected", ""
	}
	fill := func(X, Y, X2, Y2 string) string {
		return strings.NewReplacer("{X2}", X2, "{Y2}", Y2, "{X}", X, "{Y}", Y).Replace(tmpl)
	}
	csrc := fill(T+"("+typedLit(signed, w, x)+")", T+"("+typedLit(signed, w, y)+")", T2+"("+typedLit(signed, w2, x2)+")", T2+"("+typedLit(signed, w2, y2)+")")
	rsrc := fill("a", "b", "c", "d")
	what := fmt.Sprintf("%s via %s (swap %v): %s op %s with x=%s y=%s", T, route, swap, op, k, typedLit(signed, w, x), typedLit(signed, w, y))
	folded, err := ssaFolded(csrc)
	if err != nil {
		if strings.Contains(err.Error(), "compiler panic") {
			if os.Getenv("VERIF_C12_DUMP") != "" {
				fmt.Fprintf(os.Stderr, "---- crashing source\n%s----\n", csrc)
			}
			return nil, "crash", fmt.Sprintf("the compiler crashes while folding %s: %v", what, err)
		}
		return nil, "rejected", ""
	}
	if !folded {
		return nil, "not-folded", ""
	}
	var cc, rc interface {
		Compute([]*big.Int) ([]*big.Int, error)
	}
	func() {
		defer func() {
			if p := recover(); p != nil {
				err = fmt.Errorf("compiler panic: %v", p)
			}
		}()
		c1, e1 := compileMPCL(csrc, nil)
		if e1 != nil {
			err = e1
			return
		}
		c2, e2 := compileMPCL(rsrc, nil)
		if e2 != nil {
			err = e2
			return
		}
		cc, rc = c1, c2
	}()
	if err != nil {
		if strings.Contains(err.Error(), "compiler panic") {
			return nil, "crash", fmt.Sprintf("the compiler crashes on %s: %v", what, err)
		}
		return nil, "rejected", ""
	}
	zeros := []*big.Int{big.NewInt(0), big.NewInt(0)}
	ins := []*big.Int{x, y}
	if route == "unsized" {
		zeros = append(zeros, big.NewInt(0), big.NewInt(0))
		ins = append(ins, x2, y2)
	}
	fo, err := cc.Compute(zeros)
	if err != nil {
		return nil, "rejected", ""
	}
	ro, err := rc.Compute(ins)
	if err != nil {
		return nil, "rejected", ""
	}
	mk := func(wd int, isBool bool) *big.Int {
		if isBool {
			return big.NewInt(1)
		}
		return new(big.Int).Sub(new(big.Int).Lsh(big.NewInt(1), uint(wd)), big.NewInt(1))
	}
	m1 := mk(w, rt == "bool")
	evs = append(evs, routeEv{op: op, k: k, w: w, x: x, y: y, fv: new(big.Int).And(fo[0], m1), rv: new(big.Int).And(ro[0], m1), tag: what})
	if second != "" && len(fo) > 1 && len(ro) > 1 {
		m2 := mk(w2, route == "unsized" && rt == "bool")
		evs = append(evs, routeEv{op: second, k: "ret", w: w2, x: x2, y: y2, fv: new(big.Int).And(fo[1], m2), rv: new(big.Int).And(ro[1], m2), tag: what + " (second result, " + T2 + ")"})
	}
	return evs, "folded", what
}

type catCase struct {
	Route  string `json:"route"`
	Swap   int    `json:"swap"`
	I      int    `json:"i"`
	Op     string `json:"op"`
	K      string `json:"k"`
	W      int    `json:"w"`
	Signed int    `json:"signed"`
	Bool   int    `json:"bool"`
	Xn     string `json:"xn"`
	Yn     string `json:"yn"`
	X      []int  `json:"x"`
	Y      []int  `json:"y"`
	Cnt    int    `json:"cnt"`
}

func fromLimbs(l []int) *big.Int {
	v := new(big.Int)
	for i := len(l) - 1; i >= 0; i-- {
		v.Lsh(v, 12)
		v.Or(v, big.NewInt(int64(l[i])))
	}
	return v
}

func c12Main(args []string) error {
	if len(args) < 3 {
		return fmt.Errorf("usage: vh c12 replay|cases ...")
	}
	rng := rand.New(rand.NewSource(seed()*47055833 + 12))
	switch args[0] {
	case "replay":
		// cases of specs/Fold.tla: every operand pair of narrow types with the expected typed value
		out, err := newND(args[2])
		if err != nil {
			return err
		}
		defer out.close()
		rowsPer := 12
		if thorough() {
			rowsPer = 1 << 20
		}
		idx := 0
		return readND(args[1], func(raw json.RawMessage) error {
			var fc foldCase
			if err := json.Unmarshal(raw, &fc); err != nil {
				return err
			}
			signed := fc.T.kind() == "i"
			w := fc.T.width()
			if w < 3 && fc.K != "ret" {
				return nil // the consumers' literals do not fit such types
			}
			res := &Result{Case: idx, Nontrivial: w >= 3}
			idx++
			rows := fc.Rows
			if len(rows) > rowsPer {
				rng.Shuffle(len(rows), func(i, j int) { rows[i], rows[j] = rows[j], rows[i] })
				rows = rows[:rowsPer]
			}
			classes := map[string]int{}
			T := typeName(signed, w)
			for _, r := range rows {
				if r[2] < 0 {
					continue
				}
				x, y := big.NewInt(int64(r[0])), big.NewInt(int64(r[1]))
				fv, rv, class, detail := c12Pair(fc.Op, signed, w, fc.K, x, y)
				classes[class]++
				key := fmt.Sprintf("%s:%s@%s:%d:%d", fc.Op, fc.K, T, r[0], r[1])
				if class == "crash" {
					res.viol("fold-crash:"+key, "%s", detail)
				}
				if class != "folded" {
					continue
				}
				want := big.NewInt(int64(r[2]))
				if fv.Cmp(rv) != 0 {
					res.viol("fold:"+key, "%s: folded constant %v, run-time circuit %v (specification %v)", detail, fv, rv, want)
				} else if rv.Cmp(want) != 0 {
					res.drift("both:"+key+" %s: folded and run-time agree on %v but the typed operator semantics give %v", detail, rv, want)
				}
			}
			best := ""
			for c, n := range classes {
				if best == "" || n > classes[best] {
					best = c
				}
			}
			res.Class = best
			if idx <= 2 {
				res.Sample = map[string]interface{}{"op": fc.Op, "type": T, "consumer": fc.K, "rows": len(fc.Rows)}
			}
			out.put(res)
			return nil
		})
	case "cases":
		// cases spanned by the catalogue of specs/FoldCat.tla; the verdict on each recorded case is FoldTrace.tla's
		out, err := newND(args[2])
		if err != nil {
			return err
		}
		defer out.close()
		tr, err := newND(args[3])
		if err != nil {
			return err
		}
		defer tr.close()
		return readND(args[1], func(raw json.RawMessage) error {
			var c catCase
			if err := json.Unmarshal(raw, &c); err != nil {
				return err
			}
			x, y := fromLimbs(c.X), fromLimbs(c.Y)
			if c.Op == "<<" || c.Op == ">>" {
				y = big.NewInt(int64(c.Cnt))
			}
			w := c.W
			T := typeName(c.Signed == 1, w)
			if c.Bool == 1 {
				w, T = 0, "bool"
			}
			key := fmt.Sprintf("%s:%s@%s:%s:%s", c.Op, c.K, T, c.Xn, c.Yn)
			res := &Result{Case: c.I, Nontrivial: true}
			if c.Route != "" && c.Route != "pkg" {
				sw := []string{"", "'"}[c.Swap]
				evs, class, detail := c12Route(c.Route, c.Op, c.Signed == 1, w, c.K, x, y, c.Swap == 1)
				res.Class = class + "/" + c.Route
				if class == "crash" {
					res.viol("fold-crash:"+fmt.Sprintf("%s:%s/%s%s@%s:%s:%s", c.Op, c.K, c.Route, sw, T, c.Xn, c.Yn), "%s", detail)
				}
				for j, e := range evs {
					lw := e.w
					if isCmpOp(e.op) || e.k == "lt2" {
						lw = 1
					}
					ekey := fmt.Sprintf("%s:%s/%s%s@%s:%s:%s", c.Op, c.K, c.Route, sw, T, c.Xn, c.Yn)
					if j == 1 {
						ekey = fmt.Sprintf("%s:%s/%s%s.2@%s:%s:%s", c.Op, c.K, c.Route, sw, T, c.Xn, c.Yn)
					}
					ev := map[string]interface{}{"i": c.I + j, "key": ekey, "what": e.tag, "op": e.op, "k": e.k, "w": e.w, "signed": c.Signed, "bool": 0,
						"x": limbs(e.x, e.w), "y": limbs(e.y, e.w), "folded": limbs(e.fv, lw), "runtime": limbs(e.rv, lw), "fv": e.fv.String(), "rv": e.rv.String()}
					if e.fv.Cmp(e.rv) != 0 {
						// what the package-constant route folds for the very same typed operands
						yy := e.y
						if e.op == "<<" || e.op == ">>" {
							yy = big.NewInt(int64(c.Cnt))
						}
						if pf, _, pclass, _ := c12Pair(e.op, c.Signed == 1, e.w, e.k, e.x, yy); pclass == "folded" {
							ev["pkgfv"] = pf.String()
						}
					}
					tr.put(ev)
				}
				out.put(res)
				return nil
			}
			fv, rv, class, detail := c12Pair(c.Op, c.Signed == 1, w, c.K, x, y)
			res.Class = class
			if class == "crash" {
				res.viol("fold-crash:"+key, "%s", detail)
			}
			if class == "folded" {
				lw := c.W
				if c.Bool == 1 || isCmpOp(c.Op) || c.K == "lt2" {
					lw = 1
				}
				tr.put(map[string]interface{}{"i": c.I, "key": key, "what": detail, "op": c.Op, "k": c.K, "w": c.W, "signed": c.Signed, "bool": c.Bool,
					"x": limbs(x, c.W), "y": limbs(y, c.W), "folded": limbs(fv, lw), "runtime": limbs(rv, lw), "fv": fv.String(), "rv": rv.String()})
			}
			out.put(res)
			return nil
		})
	}
	return fmt.Errorf("unknown c12 mode")
}
