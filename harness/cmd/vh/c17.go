package main

// C17: a circuit value is safe to share between goroutines.
//
//   vh c17 stress trace.ndjson results.ndjson rounds
//       goroutines garble / evaluate / compute / release (also twice) on one
//       shared *circuit.Circuit; every garbling is re-checked right before it
//       is released ("stays valid until released"); buffer identities and
//       handle lifetimes are recorded for specs/PoolTrace.tla.  The same
//       command is also run from a binary built with -race.
//   vh c17 casrace results.ndjson n
//       the lazy pool creation race is forced with the `verif` gate between
//       the nil Load and the CompareAndSwap.

import (
	"fmt"
	"math/big"
	"math/rand"
	"runtime"
	"sync"
	"sync/atomic"
	"time"
	"unsafe"

	"github.com/markkurossi/mpc/circuit"
	"github.com/markkurossi/mpc/ot"
)

func init() { commands["c17"] = c17Main }

type poolEv struct {
	Ev  string `json:"ev"` // garbled | release | reset
	G   int    `json:"g"`
	H   int    `json:"h"`
	Buf int    `json:"buf"`
}

// failingReader hands out `left` bytes and then fails
type failingReader struct {
	src  *rand.Rand
	left int
}

func (f *failingReader) Read(p []byte) (int, error) {
	if f.left <= 0 {
		return 0, fmt.Errorf("harness: randomness source exhausted")
	}
	n := len(p)
	if n > f.left {
		n = f.left
	}
	f.src.Read(p[:n])
	f.left -= n
	if n < len(p) {
		return n, fmt.Errorf("harness: randomness source exhausted")
	}
	return n, nil
}

type c17Handle struct {
	id   int
	g    *circuit.Garbled
	key  []byte
	done bool
}

// checkGarbling evaluates the circuit with the garbling on random inputs and
// compares every output with Compute.
func checkGarbling(c *circuit.Circuit, h *c17Handle, rng *rand.Rand, nin int) string {
	if h.g.Wires == nil {
		return "garbling has no wires"
	}
	in := new(big.Int).Rand(rng, new(big.Int).Lsh(big.NewInt(1), uint(nin)))
	wires := make([]ot.Label, c.NumWires)
	for i := 0; i < nin; i++ {
		wires[i] = circuit.LabelForBit(h.g.Wires[i], in.Bit(i) == 1)
	}
	if err := c.Eval(h.key, wires, h.g.Gates); err != nil {
		return "Eval: " + err.Error()
	}
	want, err := c.Compute([]*big.Int{in})
	if err != nil {
		return "Compute: " + err.Error()
	}
	nout := c.Outputs.Size()
	for i := 0; i < nout; i++ {
		w := c.NumWires - nout + i
		bit, err := circuit.BitFromLabel(h.g.Wires[w], wires[w])
		if err != nil {
			return fmt.Sprintf("output %d: label is neither L0 nor L1 of the garbling", i)
		}
		b := uint(0)
		if bit {
			b = 1
		}
		if b != want[0].Bit(i) {
			return fmt.Sprintf("output %d decodes to %d, Compute gives %d", i, b, want[0].Bit(i))
		}
	}
	return ""
}

func c17Circuit(rng *rand.Rand, nin, ng int) *circuit.Circuit {
	tc := randomCircuit(rng, nin, ng, nin, 4)
	c := mkCircuit(nin, tc.Gates)
	c.Outputs = circuit.IO{ioBits("out", 4)}
	return c
}

func c17Stress(tr, out *ndWriter, rounds int, sd int64) {
	rng := rand.New(rand.NewSource(sd*2038074743 + 17))
	var hid int64
	first := true
	for r := 0; r < rounds; r++ {
		nin := 8
		ng := 40 + rng.Intn(300)
		if r%7 == 6 {
			ng = 60000 // a long gate scan: concurrent first use overlaps the lazy pool creation
		}
		c := c17Circuit(rng, nin, ng)
		procs := []int{1, 2, 16}[r%3]
		old := runtime.GOMAXPROCS(procs)
		ngor := 2 + rng.Intn(7)
		res := &Result{Case: r, Nontrivial: true, Class: fmt.Sprintf("gomaxprocs=%d", procs)}
		var mu sync.Mutex
		var evs []poolEv
		logEv := func(e poolEv) {
			mu.Lock()
			evs = append(evs, e)
			mu.Unlock()
		}
		fail := func(key, f string, a ...interface{}) {
			mu.Lock()
			if len(res.Viol) < 6 {
				res.viol(key, f, a...)
			}
			mu.Unlock()
		}
		start := make(chan struct{})
		var wg sync.WaitGroup
		for g := 0; g < ngor; g++ {
			g := g
			grng := rand.New(rand.NewSource(rng.Int63()))
			wg.Add(1)
			go func() {
				defer wg.Done()
				defer func() {
					if x := recover(); x != nil {
						fail("panic", "goroutine %d panics: %v", g, x)
					}
				}()
				<-start
				var livehs, released []*c17Handle
				kbuf := make([]byte, 32)
				nops := 6 + grng.Intn(10)
				if ng > 10000 {
					nops = 3
				}
				for op := 0; op < nops; op++ {
					switch k := grng.Intn(10); {
					case k < 4 || len(livehs) == 0 && k < 8:
						// the caller keeps one key buffer and refills it for every garbling (Garble must not retain it)
						key := kbuf[:[]int{16, 24, 32}[grng.Intn(3)]]
						grng.Read(key)
						gb, err := c.Garble(grng, key)
						if err != nil {
							fail("garble-error", "Garble: %v", err)
							return
						}
						h := &c17Handle{id: int(atomic.AddInt64(&hid, 1)), g: gb, key: append([]byte(nil), key...)}
						// logged after Garble returned: the logged lifetime is inside the real one
						logEv(poolEv{Ev: "garbled", G: g, H: h.id, Buf: int(uintptr(unsafe.Pointer(&gb.Wires[0])) >> 4 & 0x3fffffff)})
						if msg := checkGarbling(c, h, grng, nin); msg != "" {
							fail("fresh-garbling-invalid", "a fresh garbling is unusable: %s", msg)
						}
						livehs = append(livehs, h)
					case k < 6 && len(livehs) > 0:
						h := livehs[grng.Intn(len(livehs))]
						if msg := checkGarbling(c, h, grng, nin); msg != "" {
							fail("garbling-invalid-before-release", "a garbling that was not released is unusable: %s", msg)
						}
					case k < 8 && len(livehs) > 0:
						i := grng.Intn(len(livehs))
						h := livehs[i]
						if msg := checkGarbling(c, h, grng, nin); msg != "" {
							fail("garbling-invalid-before-release", "a garbling that was not released is unusable: %s", msg)
						}
						logEv(poolEv{Ev: "release", G: g, H: h.id})
						h.g.Release()
						livehs = append(livehs[:i], livehs[i+1:]...)
						released = append(released, h)
					case k < 9 && len(released) > 0:
						// releasing twice is harmless
						released[grng.Intn(len(released))].g.Release()
					case k == 9 && grng.Intn(2) == 0:
						// a garbling that fails half way (the randomness source gives out after R, or in the middle of
						// the input labels): whatever it had taken from the pool must not end up shared by later garblings
						fr := &failingReader{src: grng, left: []int{0, 8, 16, 24, 32, 16 + 16*grng.Intn(nin+1), 16 + 16*nin + 8}[grng.Intn(7)]}
						key := kbuf[:16]
						grng.Read(key)
						if gb, err := c.Garble(fr, key); err == nil {
							gb.Release()
						}
					default:
						in := new(big.Int).Rand(grng, big.NewInt(256))
						if _, err := c.Compute([]*big.Int{in}); err != nil {
							fail("compute-error", "Compute: %v", err)
						}
					}
				}
				for _, h := range livehs {
					if msg := checkGarbling(c, h, grng, nin); msg != "" {
						fail("garbling-invalid-before-release", "a garbling that was not released is unusable: %s", msg)
					}
					logEv(poolEv{Ev: "release", G: g, H: h.id})
					h.g.Release()
				}
			}()
		}
		close(start)
		if !withTimeout(120*time.Second, wg.Wait) {
			fail("stall", "goroutines do not finish")
		}
		runtime.GOMAXPROCS(old)
		out.put(res)
		if tr != nil && ng < 10000 {
			if !first {
				tr.put(poolEv{Ev: "reset"})
			}
			first = false
			for _, e := range evs {
				tr.put(e)
			}
		}
	}
}

// c17CasRace forces two goroutines through the nil Load before either publishes its pool.
func c17CasRace(out *ndWriter, n int, sd int64) {
	rng := rand.New(rand.NewSource(sd*179424673 + 17))
	for i := 0; i < n; i++ {
		res := &Result{Case: i, Nontrivial: true, Class: "cas-race"}
		c := c17Circuit(rng, 8, 100+rng.Intn(100))
		k := 2 + rng.Intn(3)
		var arrived int32
		release := make(chan struct{})
		circuit.VerifGate = func(point string) {
			if point == "pool.cas" {
				if atomic.AddInt32(&arrived, 1) == int32(k) {
					close(release)
				}
				select {
				case <-release:
				case <-time.After(2 * time.Second):
				}
			}
		}
		var wg sync.WaitGroup
		var mu sync.Mutex
		for g := 0; g < k; g++ {
			grng := rand.New(rand.NewSource(rng.Int63()))
			wg.Add(1)
			go func() {
				defer wg.Done()
				defer func() {
					if x := recover(); x != nil {
						mu.Lock()
						res.viol("panic", "panic: %v", x)
						mu.Unlock()
					}
				}()
				var hs []*c17Handle
				for j := 0; j < 3; j++ {
					key := make([]byte, 16)
					grng.Read(key)
					gb, err := c.Garble(grng, key)
					if err != nil {
						mu.Lock()
						res.viol("garble-error", "Garble: %v", err)
						mu.Unlock()
						return
					}
					hs = append(hs, &c17Handle{g: gb, key: key})
				}
				for _, h := range hs {
					if msg := checkGarbling(c, h, grng, 8); msg != "" {
						mu.Lock()
						res.viol("garbling-invalid-before-release", "after a forced pool creation race: %s", msg)
						mu.Unlock()
					}
					h.g.Release()
					h.g.Release()
				}
			}()
		}
		wg.Wait()
		circuit.VerifGate = nil
		if atomic.LoadInt32(&arrived) < int32(k) {
			res.drift("only %d of %d goroutines reached the gate before the CompareAndSwap", arrived, k)
		}
		out.put(res)
	}
}

// c17Sessions: whole two-party sessions (circuit.Garbler / circuit.Evaluator) that share one circuit value and overlap
// in time.  The evaluator of session j is held after its OT step (a slow peer that is still evaluating) while the
// sessions after it run from start to end; then it is let go.  Every garbler and every evaluator must return
// Compute's outputs whatever the other sessions did meanwhile.  With one P the scratch a session returns is the
// next one handed out, so a session that lets go of its garbling too early sees another session's labels.
func c17Sessions(out *ndWriter, n int, sd int64) {
	rng := rand.New(rand.NewSource(sd*6700417 + 1717))
	for i := 0; i < n; i++ {
		res := &Result{Case: i, Class: "overlapping-sessions", Nontrivial: true}
		oldP := 0
		if i%2 == 0 {
			oldP = runtime.GOMAXPROCS(1)
		}
		restore := func() {
			if oldP > 0 {
				runtime.GOMAXPROCS(oldP)
			}
		}
		nin, n0 := 16, 8
		tc := randomCircuit(rng, nin, 200+rng.Intn(600), n0, 3+rng.Intn(6))
		circ, _ := mkTwoParty(tc)
		ns := 2 + rng.Intn(3)
		srs := make([]*sessResult, ns)
		xs := make([]*big.Int, ns)
		ys := make([]*big.Int, ns)
		holds := make([]chan struct{}, ns)
		reached := make([]chan struct{}, ns)
		var wg sync.WaitGroup
		for j := 0; j < ns; j++ {
			j := j
			xs[j], ys[j] = big.NewInt(int64(rng.Intn(256))), big.NewInt(int64(rng.Intn(256)))
			holds[j], reached[j] = make(chan struct{}), make(chan struct{})
			var once sync.Once
			o := sessOpts{ot: []string{"co", "cot"}[j%2], randSeed: uint64(sd)<<32 + uint64(i)*100 + uint64(j) + 77, corruptAt: -1, timeout: 120 * time.Second}
			if j < ns-1 {
				// held: the evaluator stops after its OT step until the later sessions are through
				o.eAfterOT = func() {
					once.Do(func() {
						close(reached[j])
						select {
						case <-holds[j]:
						case <-time.After(60 * time.Second):
						}
					})
				}
			}
			wg.Add(1)
			go func() {
				defer wg.Done()
				srs[j] = runWhole(circ, xs[j], ys[j], o)
			}()
			if j < ns-1 {
				select {
				case <-reached[j]:
					time.Sleep(20 * time.Millisecond) // the garbler gets past its own OT step and waits for the result labels
				case <-time.After(30 * time.Second):
				}
			}
		}
		// the last session runs to its end unhindered; then the held ones are let go, the oldest last
		done := make(chan struct{})
		go func() { wg.Wait(); close(done) }()
		for j := ns - 2; j >= 0; j-- {
			time.Sleep(30 * time.Millisecond)
			close(holds[j])
		}
		select {
		case <-done:
		case <-time.After(150 * time.Second):
			res.viol("sessions-stall", "%d overlapping sessions on one circuit value do not all finish", ns)
			out.put(res)
			restore()
			continue
		}
		for j, sr := range srs {
			want, err := circ.Compute([]*big.Int{xs[j], ys[j]})
			if err != nil {
				res.drift("Compute failed: %v", err)
				break
			}
			switch {
			case sr.gPanic != "" || sr.ePanic != "":
				res.viol("panic:overlapping-sessions", "session %d of %d overlapping on one circuit value panics: garbler %q evaluator %q", j, ns, sr.gPanic, sr.ePanic)
			case sr.gErr != nil || sr.eErr != nil || sr.stalled:
				res.viol("session-fails:overlapping-sessions", "session %d of %d overlapping on one circuit value (its peer was slow, later sessions ran meanwhile) fails: garbler %v, evaluator %v, stalled %v", j, ns, sr.gErr, sr.eErr, sr.stalled)
			default:
				for k := range want {
					if k >= len(sr.gOut) || k >= len(sr.eOut) || sr.gOut[k].Cmp(want[k]) != 0 || sr.eOut[k].Cmp(want[k]) != 0 {
						res.viol("wrong-result:overlapping-sessions", "session %d of %d overlapping on one circuit value: garbler %v evaluator %v, Compute gives %v", j, ns, sr.gOut, sr.eOut, want)
						break
					}
				}
			}
		}
		out.put(res)
		restore()
	}
}

func c17Main(args []string) error {
	if len(args) < 2 {
		return fmt.Errorf("usage: vh c17 stress|casrace ...")
	}
	switch args[0] {
	case "stress":
		tr, err := newND(args[1])
		if err != nil {
			return err
		}
		defer tr.close()
		out, err := newND(args[2])
		if err != nil {
			return err
		}
		defer out.close()
		n := 12
		if len(args) > 3 {
			fmt.Sscan(args[3], &n)
		}
		c17Stress(tr, out, n, seed())
		return nil
	case "sessions":
		out, err := newND(args[1])
		if err != nil {
			return err
		}
		defer out.close()
		n := 6
		if len(args) > 2 {
			fmt.Sscan(args[2], &n)
		}
		c17Sessions(out, n, seed())
		return nil
	case "casrace":
		out, err := newND(args[1])
		if err != nil {
			return err
		}
		defer out.close()
		n := 10
		if len(args) > 2 {
			fmt.Sscan(args[2], &n)
		}
		c17CasRace(out, n, seed())
		return nil
	}
	return fmt.Errorf("unknown c17 mode")
}
