package main

// C05, wire-protocol layer: the bytes a real Compiler.Stream session wrote are parsed back into the
// messages of specs/StreamWire.tla (header, circuit declarations, gates, return, result) for
// specs/StreamWireTrace.tla.  The parser follows the documented framing only; it shares no code with
// circuit/stream_evaluator.go.  OT traffic is cut out at the stream positions the OT wrapper recorded.

import (
	"encoding/binary"
	"fmt"

	"github.com/markkurossi/mpc/circuit"
)

type swEv struct {
	Ev     string  `json:"ev"`
	In1    int     `json:"in1"`
	In2    int     `json:"in2"`
	Nout   int     `json:"nout"`
	Nsteps int     `json:"nsteps"`
	Labels int     `json:"labels"`
	Step   int     `json:"step"`
	Ng     int     `json:"ng"`
	Ntmpw  int     `json:"ntmpw"`
	Nwires int     `json:"nwires"`
	G      [][]int `json:"g"`
	IDs    []int   `json:"ids"`
	N      int     `json:"n"`
	Len    int     `json:"len"`
}

type swReader struct {
	b   []byte
	off int
	err error
}

func (r *swReader) need(n int) bool {
	if r.err != nil {
		return false
	}
	if r.off+n > len(r.b) {
		r.err = fmt.Errorf("stream ends at %d, need %d more bytes at %d", len(r.b), n, r.off)
		return false
	}
	return true
}
func (r *swReader) u8() int {
	if !r.need(1) {
		return 0
	}
	v := r.b[r.off]
	r.off++
	return int(v)
}
func (r *swReader) u16() int {
	if !r.need(2) {
		return 0
	}
	v := binary.BigEndian.Uint16(r.b[r.off:])
	r.off += 2
	return int(v)
}
func (r *swReader) u32() int {
	if !r.need(4) {
		return 0
	}
	v := binary.BigEndian.Uint32(r.b[r.off:])
	r.off += 4
	return int(v)
}
func (r *swReader) data() []byte {
	n := r.u32()
	if !r.need(n) {
		return nil
	}
	v := r.b[r.off : r.off+n]
	r.off += n
	return v
}

// arg skips one sendArgument and returns its bit size.
func (r *swReader) arg(depth int) int {
	r.data() // name
	r.data() // type
	bits := r.u32()
	n := r.u32()
	if depth > 8 || n > 4096 {
		r.err = fmt.Errorf("argument nesting/count out of range at %d", r.off)
		return bits
	}
	for i := 0; i < n && r.err == nil; i++ {
		r.arg(depth + 1)
	}
	return bits
}

// parseStreamWire turns the transcripts of one streaming session into events.  maxGates bounds the trace size
// (0: sessions of any size); a larger session yields (nil, nil).
func parseStreamWire(sr *sessResult, maxGates int) ([]swEv, error) {
	g := sr.otG
	e := sr.otE
	if g == nil || e == nil || g.conn == nil || e.conn == nil || g.posInit < 0 || g.posEnd < g.posInit || e.posEnd < 0 {
		return nil, fmt.Errorf("no OT position marks")
	}
	r := &swReader{b: sr.g2e}
	r.data() // key
	in1 := r.arg(0)
	in2 := r.arg(0)
	nouts := r.u32()
	nout := 0
	for i := 0; i < nouts && r.err == nil && i < 4096; i++ {
		nout += r.arg(0)
	}
	nsteps := r.u32()
	if r.err != nil {
		return nil, r.err
	}
	if g.posInit < r.off || (g.posInit-r.off)%16 != 0 {
		return nil, fmt.Errorf("label region [%d, %d) is not a sequence of labels", r.off, g.posInit)
	}
	evs := []swEv{{Ev: "hdr", In1: in1, In2: in2, Nout: nout, Nsteps: nsteps, Labels: (g.posInit - r.off) / 16}}
	r.off = g.posEnd
	total := 0
	for r.err == nil {
		op := r.u32()
		if r.err != nil {
			break
		}
		if op == circuit.OpCircuit {
			ev := swEv{Ev: "circ", Step: r.u32(), Ng: r.u32(), Ntmpw: r.u32(), Nwires: r.u32()}
			if r.err != nil {
				break
			}
			evs = append(evs, ev)
			total += ev.Ng
			if maxGates > 0 && total > maxGates {
				return nil, nil
			}
			var chunk [][]int
			for i := 0; i < ev.Ng && r.err == nil; i++ {
				gop := r.u8()
				rd := r.u32
				if gop&0x10 != 0 {
					rd = r.u16
				}
				o := gop & 0x0f
				var a, b, c int
				a = rd()
				if o != int(circuit.INV) {
					b = rd()
				}
				c = rd()
				rows := 0
				switch circuit.Operation(o) {
				case circuit.AND:
					rows = 2
				case circuit.OR:
					rows = 3
				case circuit.INV:
					rows = 1
				}
				if r.need(16 * rows) {
					r.off += 16 * rows
				}
				chunk = append(chunk, []int{o, gop >> 4, a, b, c, rows})
				if len(chunk) == 400 {
					evs = append(evs, swEv{Ev: "gates", Step: ev.Step, G: chunk})
					chunk = nil
				}
			}
			if len(chunk) > 0 {
				evs = append(evs, swEv{Ev: "gates", Step: ev.Step, G: chunk})
			}
		} else if op == circuit.OpReturn {
			ev := swEv{Ev: "ret", IDs: []int{}}
			for i := 0; i < nout && r.err == nil; i++ {
				ev.IDs = append(ev.IDs, r.u32())
			}
			evs = append(evs, ev)
			break
		} else {
			return nil, fmt.Errorf("unknown operation %d at %d", op, r.off-4)
		}
	}
	if r.err != nil {
		return nil, r.err
	}
	res := r.data()
	if r.err != nil || r.off != len(r.b) {
		return nil, fmt.Errorf("garbler stream does not end with the result data (at %d of %d, %v)", r.off, len(r.b), r.err)
	}
	// evaluator -> garbler: OT traffic, then OpResult and one label per output bit
	er := &swReader{b: sr.e2g, off: e.posEnd}
	if er.u32() != circuit.OpResult || er.err != nil {
		return nil, fmt.Errorf("evaluator stream: no OpResult at %d", e.posEnd)
	}
	rest := len(er.b) - er.off
	if rest%16 != 0 {
		return nil, fmt.Errorf("evaluator stream: %d bytes after OpResult are not labels", rest)
	}
	evs = append(evs, swEv{Ev: "res", N: rest / 16, Len: len(res)})
	return evs, nil
}
