package main

// C20: OT-based multiplication gadgets return shares of the product.
//
//   vh c20 run trace.ndjson results.ndjson n
//       vole.Sender.Mul / vole.Receiver.Mul over an in-memory connection with CO
//       base OT: vector lengths across the extension chunk boundaries, moduli
//       P-256 prime, 2^255-19, 2^256-189, 65537, small primes, several Mul calls
//       per session (also with a different modulus); bmr.Fx*/Fxk* over CO for all
//       (a, b), boundary labels and concurrently running instances.  Small-modulus
//       elements and all Fx/Fxk runs are written as events for specs/SharesTrace.tla.

import (
	"crypto/elliptic"
	crand "crypto/rand"
	"encoding/binary"
	"fmt"
	"io"
	"math/big"
	"math/rand"
	"sync"
	"time"

	"github.com/markkurossi/mpc/bmr"
	"github.com/markkurossi/mpc/ot"
	"github.com/markkurossi/mpc/p2p"
	"github.com/markkurossi/mpc/vole"
)

func init() { commands["c20"] = c20Main }

func c20Moduli() map[string]*big.Int {
	m := map[string]*big.Int{
		"p256":      elliptic.P256().Params().P,
		"25519":     new(big.Int).Sub(new(big.Int).Lsh(big.NewInt(1), 255), big.NewInt(19)),
		"2^256-189": new(big.Int).Sub(new(big.Int).Lsh(big.NewInt(1), 256), big.NewInt(189)),
		"65537":     big.NewInt(65537),
		"251":       big.NewInt(251),
		"3":         big.NewInt(3),
		"7":         big.NewInt(7),
	}
	// moduli around the machine word sizes (an implementation may take a fast path there)
	pw := func(e int, d int64) *big.Int {
		return new(big.Int).Add(new(big.Int).Lsh(big.NewInt(1), uint(e)), big.NewInt(d))
	}
	m["2^31-1"] = pw(31, -1)
	m["2^32-5"] = pw(32, -5)
	m["2^32+15"] = pw(32, 15)
	m["2^61-1"] = pw(61, -1)
	m["2^63-25"] = pw(63, -25)
	m["2^63+29"] = pw(63, 29)
	m["2^64-59"] = pw(64, -59)
	m["goldilocks"] = new(big.Int).Add(new(big.Int).Sub(new(big.Int).Lsh(big.NewInt(1), 64), new(big.Int).Lsh(big.NewInt(1), 32)), big.NewInt(1))
	m["2^64+13"] = pw(64, 13)
	m["2^127-1"] = pw(127, -1)
	m["2^128-159"] = pw(128, -159)
	m["2^192-237"] = pw(192, -237)
	return m
}

func fieldElem(rng *rand.Rand, p *big.Int, pat int) *big.Int {
	switch pat % 5 {
	case 0:
		return big.NewInt(0)
	case 1:
		return big.NewInt(1)
	case 2:
		return new(big.Int).Sub(p, big.NewInt(1))
	case 3:
		// a short value (few bytes) next to long ones
		return new(big.Int).Mod(big.NewInt(int64(rng.Intn(70000))), p)
	}
	return new(big.Int).Rand(rng, p)
}

type voleCall struct {
	mod string
	m   int
}

func c20Vole(res *Result, tr *ndWriter, calls []voleCall, rng *rand.Rand) {
	sc, rc := p2p.Pipe()
	var onceS, onceR sync.Once
	closeS := func() { onceS.Do(func() { sc.Close() }) }
	closeR := func() { onceR.Do(func() { rc.Close() }) }
	defer closeS()
	defer closeR()
	var snd *vole.Sender
	var rcv *vole.Receiver
	var wg sync.WaitGroup
	var es, er error
	wg.Add(2)
	go func() { defer wg.Done(); snd, es = vole.NewSender(ot.NewCO(crand.Reader), sc, crand.Reader) }()
	go func() { defer wg.Done(); rcv, er = vole.NewReceiver(ot.NewCO(crand.Reader), rc, crand.Reader) }()
	wg.Wait()
	if es != nil || er != nil {
		res.viol("error:vole-setup", "VOLE setup: %v / %v", es, er)
		return
	}
	mods := c20Moduli()
	// the shares a call returned are the caller's: they are validated again after the later calls of the session
	var recheck []func() string
	defer func() {
		if len(res.Viol) > 0 {
			return
		}
		for _, f := range recheck {
			if msg := f(); msg != "" {
				res.viol("vole-relation:after-later-call", "%s", msg)
				return
			}
		}
	}()
	for ci, c := range calls {
		ci, c := ci, c
		p := mods[c.mod]
		xs := make([]*big.Int, c.m)
		ys := make([]*big.Int, c.m)
		for i := range xs {
			xs[i] = fieldElem(rng, p, rng.Intn(7))
			ys[i] = fieldElem(rng, p, rng.Intn(7))
			// the sender's x_i in another representation of the same residue: -a (= p-a) or a+p
			switch rng.Intn(12) {
			case 0:
				xs[i] = new(big.Int).Sub(xs[i], p)
			case 1:
				xs[i] = new(big.Int).Add(xs[i], p)
			case 2:
				xs[i] = new(big.Int).Neg(fieldElem(rng, p, 3))
			}
		}
		var rs, us []*big.Int
		var ps, pr string
		var cwg sync.WaitGroup
		cwg.Add(2)
		go func() {
			defer cwg.Done()
			defer func() {
				if x := recover(); x != nil {
					ps = fmt.Sprint(x)
					closeS() // unblock the peer
				}
			}()
			rs, es = snd.Mul(xs, p)
		}()
		go func() {
			defer cwg.Done()
			defer func() {
				if x := recover(); x != nil {
					pr = fmt.Sprint(x)
					closeR()
				}
			}()
			us, er = rcv.Mul(ys, p)
		}()
		fin := make(chan struct{})
		go func() { cwg.Wait(); close(fin) }()
		select {
		case <-fin:
		case <-time.After(20 * time.Second):
			// one party returned (or neither) and the other waits forever: the gadget did not return its shares
			res.viol("vole-stall", "Mul call %d (m=%d, modulus %s) does not return at both parties (sender error so far: %v, receiver: %v)", ci, c.m, c.mod, es, er)
			closeS()
			closeR()
			<-fin
			return
		}
		if ps != "" || pr != "" {
			res.viol("vole-panic", "Mul call %d (m=%d, modulus %s) panics: sender %q, receiver %q", ci, c.m, c.mod, ps, pr)
			return
		}
		if es != nil || er != nil {
			res.viol("error:vole", "Mul call %d (m=%d, modulus %s): sender %v, receiver %v", ci, c.m, c.mod, es, er)
			return
		}
		bad, first := 0, -1
		for i := 0; i < c.m; i++ {
			d := new(big.Int).Sub(us[i], rs[i])
			d.Mod(d, p)
			w := new(big.Int).Mul(xs[i], ys[i])
			w.Mod(w, p)
			inRange := us[i].Sign() >= 0 && us[i].Cmp(p) < 0 && rs[i].Sign() >= 0 && rs[i].Cmp(p) < 0
			if d.Cmp(w) != 0 || !inRange {
				bad++
				if first < 0 {
					first = i
				}
			}
			if p.BitLen() <= 8 && tr != nil && i < 40 {
				tr.put(map[string]interface{}{"ev": "vole", "p": p.Int64(), "x": xs[i].Int64(), "y": ys[i].Int64(), "u": us[i].Int64(), "r": rs[i].Int64()})
			}
		}
		if bad > 0 {
			res.viol("vole-relation", "Mul call %d of the session (m=%d, modulus %s): %d elements violate u - r = x*y mod p (first %d)", ci, c.m, c.mod, bad, first)
			return
		}
		usK, rsK, xsK, ysK := us, rs, xs, ys
		recheck = append(recheck, func() string {
			for i := 0; i < c.m; i++ {
				d := new(big.Int).Sub(usK[i], rsK[i])
				d.Mod(d, p)
				w := new(big.Int).Mul(xsK[i], ysK[i])
				w.Mod(w, p)
				if d.Cmp(w) != 0 {
					return fmt.Sprintf("the shares Mul call %d returned (m=%d, modulus %s) no longer satisfy u - r = x*y mod p at element %d after the later calls of the session", ci, c.m, c.mod, i)
				}
			}
			return ""
		})
	}
}

func labelHalves(l bmr.Label) (int, int) {
	v := binary.BigEndian.Uint32(l[:])
	return int(v >> 16), int(v & 0xffff)
}

// prefixReader stands in for crypto/rand.Reader while the sender's random label of Fx / Fxk is to be a chosen value:
// it hands out the queued bytes first and real randomness afterwards.
type prefixReader struct {
	mu    sync.Mutex
	queue []byte
	orig  io.Reader
}

func (p *prefixReader) Read(b []byte) (int, error) {
	p.mu.Lock()
	if len(p.queue) > 0 {
		n := copy(b, p.queue)
		p.queue = p.queue[n:]
		p.mu.Unlock()
		return n, nil
	}
	p.mu.Unlock()
	return p.orig.Read(b)
}

// c20FxPatterns: "all label values" includes the label the sender draws itself.  Fx and Fxk are run with that label
// forced to 0, to the correlation s, to single bits and to all ones, for every (a, b) / b.
func c20FxPatterns(res *Result, tr *ndWriter) {
	sc, rc := p2p.Pipe()
	defer sc.Close()
	defer rc.Close()
	so, ro := ot.NewCO(crand.Reader), ot.NewCO(crand.Reader)
	var wg sync.WaitGroup
	var es, er error
	wg.Add(2)
	go func() { defer wg.Done(); es = so.InitSender(sc) }()
	go func() { defer wg.Done(); er = ro.InitReceiver(rc) }()
	wg.Wait()
	if es != nil || er != nil {
		res.viol("error:fx-setup", "OT setup: %v / %v", es, er)
		return
	}
	pr := &prefixReader{orig: crand.Reader}
	crand.Reader = pr
	defer func() { crand.Reader = pr.orig }()
	force := func(l bmr.Label) {
		pr.mu.Lock()
		pr.queue = append([]byte(nil), l[:]...)
		pr.mu.Unlock()
	}
	rs := []bmr.Label{{0, 0, 0, 0}, {1, 0, 0, 0}, {0, 0, 0, 1}, {0x80, 0, 0, 0}, {0xff, 0xff, 0xff, 0xff}, {0xfe, 0xff, 0xff, 0xff}}
	for _, rlab := range rs {
		for ab := 0; ab < 4; ab++ {
			a, b := uint(ab&1), uint(ab>>1)
			var r, xb uint
			force(rlab)
			wg.Add(2)
			go func() { defer wg.Done(); r, es = bmr.FxSend(so, a); sc.Flush() }()
			go func() { defer wg.Done(); xb, er = bmr.FxReceive(ro, b) }()
			wg.Wait()
			if es != nil || er != nil {
				res.viol("error:fx", "Fx(a=%d, b=%d) with the sender's label %x: %v / %v", a, b, rlab[:], es, er)
				return
			}
			if r^xb != a&b {
				res.viol("fx-share", "Fx(a=%d, b=%d) with the sender's label %x: r xor x_b = %d, want a*b", a, b, rlab[:], r^xb)
			}
			if tr != nil {
				tr.put(map[string]interface{}{"ev": "fx", "a": a, "b": b, "r": r, "xb": xb})
			}
		}
		for _, s := range []bmr.Label{{0, 0, 0, 0}, rlab, {0xff, 0xff, 0xff, 0xff}, {1, 0, 0, 0}} {
			for b := uint(0); b < 2; b++ {
				var rl, xl bmr.Label
				force(rlab)
				wg.Add(2)
				go func() { defer wg.Done(); rl, es = bmr.FxkSend(so, s); sc.Flush() }()
				go func() { defer wg.Done(); xl, er = bmr.FxkReceive(ro, b) }()
				wg.Wait()
				if es != nil || er != nil {
					res.viol("error:fxk", "Fxk(b=%d, s=%x) with the sender's label %x: %v / %v", b, s[:], rlab[:], es, er)
					return
				}
				if rl != rlab {
					// this implementation does not take the label from crypto/rand.Reader at call time (a buffered
					// pool, say): the chosen values cannot be reached from outside; the random runs still apply
					res.Class = "fx-label-patterns:not-forceable"
					return
				}
				d := rl
				d.Xor(xl)
				want := bmr.Label{}
				if b == 1 {
					want = s
				}
				if d != want {
					res.viol("fxk-share", "Fxk(b=%d, s=%x) with the sender's label %x: r xor x_b = %x, want b*s", b, s[:], rlab[:], d[:])
				}
			}
		}
	}
}

func c20Fx(res *Result, tr *ndWriter, rng *rand.Rand, rounds int) {
	sc, rc := p2p.Pipe()
	defer sc.Close()
	defer rc.Close()
	so, ro := ot.NewCO(crand.Reader), ot.NewCO(crand.Reader)
	var wg sync.WaitGroup
	var es, er error
	wg.Add(2)
	go func() { defer wg.Done(); es = so.InitSender(sc) }()
	go func() { defer wg.Done(); er = ro.InitReceiver(rc) }()
	wg.Wait()
	if es != nil || er != nil {
		res.viol("error:fx-setup", "OT setup: %v / %v", es, er)
		return
	}
	for k := 0; k < rounds; k++ {
		a, b := uint(k&1), uint(k>>1&1)
		var r, xb uint
		wg.Add(2)
		go func() { defer wg.Done(); r, es = bmr.FxSend(so, a); sc.Flush() }()
		go func() { defer wg.Done(); xb, er = bmr.FxReceive(ro, b) }()
		wg.Wait()
		if es != nil || er != nil {
			res.viol("error:fx", "Fx: %v / %v", es, er)
			return
		}
		if tr != nil {
			tr.put(map[string]interface{}{"ev": "fx", "a": a, "b": b, "r": r, "xb": xb})
		}
		if r^xb != a&b {
			res.viol("fx-share", "Fx(a=%d, b=%d): r xor x_b = %d, want a*b", a, b, r^xb)
		}
		// string multiplication
		var s bmr.Label
		switch k % 4 {
		case 0:
		case 1:
			s = bmr.Label{0xff, 0xff, 0xff, 0xff}
		case 2:
			s = bmr.Label{0x80, 0, 0, 0x01}
		default:
			rng.Read(s[:])
		}
		var rl, xl bmr.Label
		wg.Add(2)
		go func() { defer wg.Done(); rl, es = bmr.FxkSend(so, s); sc.Flush() }()
		go func() { defer wg.Done(); xl, er = bmr.FxkReceive(ro, b) }()
		wg.Wait()
		if es != nil || er != nil {
			res.viol("error:fxk", "Fxk: %v / %v", es, er)
			return
		}
		d := rl
		d.Xor(xl)
		want := bmr.Label{}
		if b == 1 {
			want = s
		}
		if tr != nil {
			rh, rlo := labelHalves(rl)
			xh, xlo := labelHalves(xl)
			dh, dlo := labelHalves(d)
			sh, slo := labelHalves(s)
			tr.put(map[string]interface{}{"ev": "fxk", "b": b, "rhi": rh, "rlo": rlo, "xhi": xh, "xlo": xlo, "dhi": dh, "dlo": dlo, "shi": sh, "slo": slo})
		}
		if d != want {
			res.viol("fxk-share", "Fxk(b=%d, s=%x): r xor x_b = %x, want b*s", b, s[:], d[:])
		}
	}
}

func c20Main(args []string) error {
	if len(args) < 4 || args[0] != "run" {
		return fmt.Errorf("usage: vh c20 run trace results n")
	}
	tr, err := newND(args[1])
	if err != nil {
		return err
	}
	defer tr.close()
	out, err := newND(args[2])
	if err != nil {
		return err
	}
	defer out.close()
	n := 10
	fmt.Sscan(args[3], &n)
	rng := rand.New(rand.NewSource(seed()*32416190071 + 20))
	lens := []int{1, 2, 511, 512, 513, 1024, 2000}
	big3 := []string{"p256", "25519", "2^256-189"}
	small := []string{"65537", "251", "3", "7"}
	word := []string{"2^31-1", "2^32-5", "2^32+15", "2^61-1", "2^63-25", "2^63+29", "2^64-59", "goldilocks", "2^64+13", "2^127-1", "2^128-159", "2^192-237"}
	idx := 0
	for i := 0; i < n; i++ {
		res := &Result{Case: idx, Class: "vole", Nontrivial: true}
		var calls []voleCall
		ncalls := 2 + rng.Intn(2)
		for c := 0; c < ncalls; c++ {
			mod := big3[rng.Intn(3)]
			if (i+c)%3 == 1 {
				mod = small[rng.Intn(len(small))]
			} else if (i+c)%3 == 2 {
				mod = word[(i*3+c+int(seed()))%len(word)]
			}
			calls = append(calls, voleCall{mod: mod, m: lens[rng.Intn(len(lens))]})
		}
		if i%4 == 0 {
			// the same large modulus twice with a long vector: byte lengths of u_i vary between the calls
			calls = []voleCall{{"p256", 2000}, {"p256", 2000}, {"251", 513}, {[]string{"2^64-59", "goldilocks", "2^63+29"}[(i/4)%3], 64}}
		}
		c20Vole(res, tr, calls, rng)
		res.Sample = calls
		out.put(res)
		idx++
	}
	// Fx / Fxk sequentially and from concurrently running instances
	res := &Result{Case: idx, Class: "fx", Nontrivial: true}
	c20Fx(res, tr, rng, 16)
	out.put(res)
	idx++
	res = &Result{Case: idx, Class: "fx-label-patterns", Nontrivial: true}
	c20FxPatterns(res, tr)
	out.put(res)
	idx++
	for rep := 0; rep < (n+3)/4; rep++ {
		res := &Result{Case: idx, Class: "fx-concurrent", Nontrivial: true}
		var wg sync.WaitGroup
		var mu sync.Mutex
		for g := 0; g < 8; g++ {
			grng := rand.New(rand.NewSource(rng.Int63()))
			wg.Add(1)
			go func() {
				defer wg.Done()
				r := &Result{}
				c20Fx(r, nil, grng, 200)
				mu.Lock()
				res.Viol = append(res.Viol, r.Viol...)
				mu.Unlock()
			}()
		}
		wg.Wait()
		if len(res.Viol) > 4 {
			res.Viol = res.Viol[:4]
		}
		out.put(res)
		idx++
	}
	return nil
}
