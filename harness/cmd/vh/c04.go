package main

// C04: the evaluator never receives both labels of a wire; R stays secret.
//
//   vh c04 scan trace.ndjson results.ndjson n
//       records every byte the garbler transmits in whole-circuit sessions
//       (all OT flavours), streaming sessions and the sha2pc rounds, recomputes
//       the secret offset R from the garbler's recorded randomness, and slides a
//       16-byte window over every byte offset of the transcript.  Events are
//       written for specs/SecrecyTrace.tla.

import (
	"crypto/elliptic"
	"encoding/json"
	"fmt"
	"math/big"
	"math/rand"
	"runtime"

	"github.com/markkurossi/mpc/circuit"
	"github.com/markkurossi/mpc/ot"
	"github.com/markkurossi/mpc/sha2pc"
)

func init() { commands["c04"] = c04Main }

type secEv struct {
	Ev    string `json:"ev"` // sess | send | ot | diff | rsent | end
	Kind  string `json:"kind"`
	Wire  int    `json:"wire"`
	Which int    `json:"which"`
	Off   int    `json:"off"`
	N     int    `json:"n"`
}

func labelBytes(l ot.Label) [16]byte {
	var d ot.LabelData
	l.GetData(&d)
	return d
}

// scanTranscript slides a 16-byte window over every offset and reports the
// offsets of windows w such that w xor R is also present, and windows equal to R.
func scanTranscript(t []byte, r ot.Label) (pairs []int, rAt []int, windows int) {
	if len(t) < 16 {
		return nil, nil, 0
	}
	rb := labelBytes(r)
	set := make(map[[16]byte]int, len(t))
	var w [16]byte
	for i := 0; i+16 <= len(t); i++ {
		copy(w[:], t[i:i+16])
		if _, ok := set[w]; !ok {
			set[w] = i
		}
	}
	for i := 0; i+16 <= len(t); i++ {
		copy(w[:], t[i:i+16])
		if w == rb {
			rAt = append(rAt, i)
		}
		var x [16]byte
		for k := range x {
			x[k] = w[k] ^ rb[k]
		}
		if j, ok := set[x]; ok && j != i {
			if len(pairs) < 8 {
				pairs = append(pairs, i)
			}
		}
	}
	return pairs, rAt, len(t) - 15
}

// allPairs returns every offset whose window has its R-sibling in the transcript.
func allPairs(t []byte, r ot.Label) []int {
	rb := labelBytes(r)
	set := make(map[[16]byte]bool, len(t))
	var w [16]byte
	for i := 0; i+16 <= len(t); i++ {
		copy(w[:], t[i:i+16])
		set[w] = true
	}
	var out []int
	for i := 0; i+16 <= len(t); i++ {
		copy(w[:], t[i:i+16])
		for k := range w {
			w[k] ^= rb[k]
		}
		if set[w] {
			out = append(out, i)
		}
	}
	return out
}

func randomCircuit(rng *rand.Rand, nin, ng, n0, nout int) *tpCase {
	ops := []string{"XOR", "XNOR", "AND", "OR", "INV", "AND", "XOR"}
	tc := &tpCase{Nin: nin, N0: n0, Nout: nout}
	for k := 0; k < ng; k++ {
		op := ops[rng.Intn(len(ops))]
		a := rng.Intn(nin + k)
		b := rng.Intn(nin + k)
		if op == "INV" {
			b = a
		}
		tc.Gates = append(tc.Gates, gGate{op, a, b})
	}
	for i := 0; i < nin; i++ {
		tc.Inp = append(tc.Inp, rng.Intn(2))
	}
	return tc
}

func c04Whole(idx int, rng *rand.Rand, tr *ndWriter, kind string) *Result {
	res := &Result{Case: idx, Class: "whole:" + kind}
	nin := 2 + rng.Intn(7)
	ng := 3 + rng.Intn(18)
	n0 := rng.Intn(nin + 1)
	if idx%4 == 3 {
		// many input wires (label generation in bulk, more labels than any internal batch): 1025..2200 on the garbler's side
		nin = 1030 + rng.Intn(1200)
		n0 = nin - rng.Intn(5)
		res.Class += ":wide-input"
	}
	nout := 1 + rng.Intn(3)
	tc := randomCircuit(rng, nin, ng, n0, nout)
	if idx%4 == 3 {
		tc.Inp[1023] = (idx / 4) % 2 // the label at a power-of-two position is sent for bit 0 and for bit 1 in turn
	}
	circ, _ := mkTwoParty(tc)
	x := bitsToBig(tc.Inp[:n0])
	y := bitsToBig(tc.Inp[n0:])
	// every third session draws its randomness from a source that returns at most 64 bytes per Read
	short := []int{0, 64, 0}[idx%3]
	if short > 0 {
		res.Class += ":short-reads"
	}
	sr := runWhole(circ, x, y, sessOpts{ot: kind, record: true, randSeed: uint64(seed())<<32 + uint64(idx)*3 + 1, corruptAt: -1, shortRand: short})
	if sr.gErr != nil || sr.eErr != nil || sr.stalled || sr.gPanic != "" || sr.ePanic != "" {
		res.viol("session-failed:"+kind, "whole-circuit session failed: g=%v e=%v stalled=%v", sr.gErr, sr.eErr, sr.stalled)
		return res
	}
	g, _, err := regarble(circ, sr.gRand, short)
	if err != nil {
		res.drift("cannot recompute the garbling from the recorded randomness: %v", err)
		return res
	}
	// cross-check the recomputation: the garbler's own input labels open the transcript after key+tables
	for i := 0; i < n0; i++ {
		lb := labelBytes(circuit.LabelForBit(g.Wires[i], tc.Inp[i] == 1))
		if !containsAt(sr.g2e, lb[:]) {
			res.drift("recomputed garbling does not match the transcript (own input label %d not found)", i)
			return res
		}
	}
	labels := map[[16]byte][2]int{}
	for w := 0; w < circ.NumWires; w++ {
		labels[labelBytes(g.Wires[w].L0)] = [2]int{w, 0}
		labels[labelBytes(g.Wires[w].L1)] = [2]int{w, 1}
	}
	tr.put(secEv{Ev: "sess", Kind: "whole:" + kind, N: circ.NumWires})
	var win [16]byte
	for i := 0; i+16 <= len(sr.g2e); i++ {
		copy(win[:], sr.g2e[i:i+16])
		if wl, ok := labels[win]; ok {
			tr.put(secEv{Ev: "send", Wire: wl[0], Which: wl[1], Off: i})
		}
	}
	// what the garbler handed to OT: exactly the evaluator's input wires, once
	n1 := nin - n0
	if len(sr.otG.sent) != 1 || len(sr.otG.sent[0]) != n1 {
		res.viol("ot-range", "garbler called OT.Send %d times (sizes %v), want once with %d wires", len(sr.otG.sent), otSizes(sr.otG.sent), n1)
	} else {
		for i, w := range sr.otG.sent[0] {
			if !w.L0.Equal(g.Wires[n0+i].L0) || !w.L1.Equal(g.Wires[n0+i].L1) {
				res.viol("ot-range", "OT.Send wire %d is not the evaluator's input wire %d", i, n0+i)
				break
			}
			// the ideal OT releases exactly the chosen label
			tr.put(secEv{Ev: "ot", Wire: n0 + i, Which: tc.Inp[n0+i]})
		}
	}
	pairs, rAt, windows := scanTranscript(sr.g2e, g.R)
	for _, p := range pairs {
		tr.put(secEv{Ev: "diff", Off: p})
	}
	for _, p := range rAt {
		tr.put(secEv{Ev: "rsent", Off: p})
	}
	tr.put(secEv{Ev: "end", N: windows})
	if len(pairs) > 0 {
		res.viol("pair:whole:"+kind, "garbler->evaluator transcript contains two 16-byte values differing by R (first at offset %d of %d bytes)", pairs[0], len(sr.g2e))
	}
	if len(rAt) > 0 {
		res.viol("R-sent:whole:"+kind, "R itself is transmitted at offset %d", rAt[0])
	}
	res.Nontrivial = n1 > 0 && n0 > 0
	res.Sample = map[string]int{"bytes": len(sr.g2e), "windows": windows, "wires": circ.NumWires}
	g.Release()
	return res
}

// c04Deviate: the evaluator's OT range message is altered in transit (offset -> 0, or count changed), as a
// deviating evaluator would send it.  The garbler must refuse, or hand exactly the evaluator's wires to OT.
func c04Deviate(idx int, rng *rand.Rand, kind string) *Result {
	res := &Result{Case: idx, Class: "deviate:" + kind, Nontrivial: true}
	nin := 4 + rng.Intn(5)
	n0 := 1 + rng.Intn(nin-2)
	n1 := nin - n0
	if n1 > n0 {
		// make an OT of n1 wires starting at 0 possible inside the garbler's own range as well
		n0, n1 = n1, n0
	}
	tc := randomCircuit(rng, nin, 6+rng.Intn(10), n0, 2)
	circ, _ := mkTwoParty(tc)
	x := bitsToBig(tc.Inp[:n0])
	y := bitsToBig(tc.Inp[n0:])
	base := runWhole(circ, x, y, sessOpts{ot: kind, record: true, randSeed: uint64(seed())<<32 + uint64(idx)*7 + 11, corruptAt: -1})
	if base.gErr != nil || base.eErr != nil || base.stalled {
		res.viol("session-failed:"+kind, "session failed: %v %v", base.gErr, base.eErr)
		return res
	}
	pat := []byte{0, 0, 0, byte(n0), 0, 0, 0, byte(n1)}
	pos := -1
	for i := 0; i+8 <= len(base.e2g); i++ {
		if string(base.e2g[i:i+8]) == string(pat) {
			pos = i
			break
		}
	}
	if pos < 0 {
		res.drift("OT range message not found in the evaluator's stream")
		return res
	}
	type dev struct {
		off  int
		mask []byte
		what string
	}
	// rng2 rewrites the (offset, count) message to another range
	rng2 := func(off2, cnt2 int, what string) dev {
		return dev{pos + 3, []byte{byte(n0) ^ byte(off2), 0, 0, 0, byte(n1) ^ byte(cnt2)}, what}
	}
	devs := []dev{{pos + 3, []byte{byte(n0)}, "offset->0"}, {pos + 3, []byte{byte(n0) ^ byte(n0-1)}, "offset-1"}, {pos + 7, []byte{1}, "count^1"},
		// ranges that end where the honest one ends, start at 0, or cover everything
		rng2(0, n0+n1, "all-inputs"), rng2(n0-1, n1+1, "one-more-at-the-front"), rng2(0, n0, "garbler-range"),
		rng2(1, n0+n1-1, "all-but-first")}
	for _, d := range devs {
		sr := runWhole(circ, x, y, sessOpts{ot: kind, record: true, randSeed: uint64(seed())<<32 + uint64(idx)*7 + 12, corruptAt: d.off, mask: d.mask, corruptGE: false, timeout: 20e9})
		if len(sr.otG.sent) == 0 {
			continue // refused before OT
		}
		g, _, err := regarble(circ, sr.gRand)
		if err != nil {
			res.drift("cannot recompute the garbling: %v", err)
			return res
		}
		bad := len(sr.otG.sent[0]) != n1
		for i, w := range sr.otG.sent[0] {
			if i < n1 && (!w.L0.Equal(g.Wires[n0+i].L0) || !w.L1.Equal(g.Wires[n0+i].L1)) {
				bad = true
			}
		}
		if bad {
			res.viol("ot-range:deviating-evaluator", "evaluator range message altered (%s, n0=%d n1=%d): the garbler served OT for %d wires that are not the evaluator's input wires (its own input labels become available in both values)", d.what, n0, n1, len(sr.otG.sent[0]))
		}
		g.Release()
	}
	return res
}

// c04Overlap: several sessions with different garbler inputs overlap on ONE shared *circuit.Circuit; the union of the
// transcripts is scanned with every session's R.
func c04Overlap(idx int, rng *rand.Rand, sequential ...bool) *Result {
	res := &Result{Case: idx, Class: "overlap", Nontrivial: true}
	seq := len(sequential) > 0 && sequential[0]
	if seq {
		// the sessions run one after another on the one circuit value: whatever a finished session leaves behind
		// (pooled buffers, cached material) is what the next session starts from
		res.Class = "consecutive-sessions"
	}
	// sync.Pool caches per P: with one P a buffer returned by one session is the next one handed out
	if (idx/2)%2 == 1 || !thorough() {
		old := runtime.GOMAXPROCS(1)
		defer runtime.GOMAXPROCS(old)
	}
	nin := 16
	n0 := 8
	// tables larger than the connection's three 64 KiB write buffers: the garbler stalls while sending to a slow peer
	tc := randomCircuit(rng, nin, 9000, n0, 3)
	for i := range tc.Gates {
		if i%4 != 3 {
			tc.Gates[i].Op = "AND"
			if tc.Gates[i].B == tc.Gates[i].A {
				tc.Gates[i].B = (tc.Gates[i].A + 1) % nin
			}
		}
	}
	circ, _ := mkTwoParty(tc)
	const ns = 4
	srs := make([]*sessResult, ns)
	done := make(chan int, ns)
	for j := 0; j < ns; j++ {
		j := j
		x := big.NewInt(int64((j * 0x5b) & 0xff))
		if j%2 == 1 {
			x = big.NewInt(int64(^(j * 0x5b) & 0xff))
		}
		y := big.NewInt(int64(rng.Intn(256)))
		o := sessOpts{ot: []string{"co", "cot"}[j%2], record: true, randSeed: uint64(seed())<<32 + uint64(idx)*100 + uint64(j) + 31, corruptAt: -1,
			capacity: 4096}
		if seq {
			srs[j] = runWhole(circ, x, y, o)
			done <- j
			continue
		}
		go func() {
			srs[j] = runWhole(circ, x, y, o)
			done <- j
		}()
	}
	for j := 0; j < ns; j++ {
		<-done
	}
	var union []byte
	for _, sr := range srs {
		union = append(union, sr.g2e...)
		union = append(union, make([]byte, 16)...)
	}
	for j, sr := range srs {
		// R as the garbler drew it: the first label after the 32-byte key in its randomness (cross-checked by regarble)
		if len(sr.gRand) >= 48 {
			var d ot.LabelData
			copy(d[:], sr.gRand[32:48])
			var r0 ot.Label
			r0.SetData(&d)
			r0.SetS(true)
			if p0, _, _ := scanTranscript(union, r0); len(p0) > 0 {
				res.viol("pair:overlapping-sessions", "sessions on one shared circuit value (%s): the transcripts together contain two values differing by the offset session %d drew (offset %d)", res.Class, j, p0[0])
			}
		}
		g, _, err := regarble(circ, sr.gRand)
		if err != nil {
			continue
		}
		pairs, rAt, _ := scanTranscript(union, g.R)
		if len(pairs) > 0 {
			res.viol("pair:overlapping-sessions", "sessions overlapping on one shared circuit value: the transcripts together contain two values differing by session %d's R (offset %d)", j, pairs[0])
		}
		if len(rAt) > 0 {
			res.viol("R-sent:overlapping-sessions", "R of session %d is transmitted", j)
		}
		g.Release()
	}
	return res
}

func otSizes(s [][]ot.Wire) []int {
	var r []int
	for _, x := range s {
		r = append(r, len(x))
	}
	return r
}

func containsAt(hay, needle []byte) bool {
	for i := 0; i+len(needle) <= len(hay); i++ {
		if string(hay[i:i+len(needle)]) == string(needle) {
			return true
		}
	}
	return false
}

var c04StreamProgs = []struct {
	src  string
	x, y func(*rand.Rand) []string
}{
	{`package main
func main(a, b uint16) (uint16, bool) {
	if a > b {
		return a - b, true
	}
	return a * b + 3, false
}`, func(r *rand.Rand) []string { return []string{fmt.Sprint(r.Intn(65536))} }, func(r *rand.Rand) []string { return []string{fmt.Sprint(r.Intn(65536))} }},
	{`package main
func main(a, b [4]byte) ([4]byte, uint32) {
	k := uint32(b[0])
	c := a
	for i := 0; i < 4; i++ {
		c[i] = a[i] ^ b[3-i]
	}
	return c, (k*k + 7) >> 2
}`, func(r *rand.Rand) []string { return []string{fmt.Sprintf("0x%08x", r.Uint32())} }, func(r *rand.Rand) []string { return []string{fmt.Sprintf("0x%08x", r.Uint32())} }},
	{`package main
func main(a int9, b int9) int9 {
	var s int9
	for i := 0; i < 3; i++ {
		s = s + a/(b|1) + int9(i)
	}
	return s
}`, func(r *rand.Rand) []string { return []string{fmt.Sprint(r.Intn(200))} }, func(r *rand.Rand) []string { return []string{fmt.Sprint(r.Intn(200))} }},
}

// bitwise programs: many INV, AND and OR gates on shared wires, at several widths
func c04BitProg(rng *rand.Rand) (string, []string, []string) {
	w := []int{8, 16, 32, 64}[rng.Intn(4)]
	bodies := []string{
		"return a & b, (a >> %[2]d) &^ b",
		"return (a | b) &^ (a >> 1), a & (b << %[2]d)",
		"c := a &^ b\n\td := (b &^ a) | (c >> %[2]d)\n\treturn c & d, d | a",
		"return (a ^ b) & (a >> %[2]d), (a &^ b) & (b &^ (a << 1))",
	}
	body := fmt.Sprintf(bodies[rng.Intn(len(bodies))], w, w/2)
	src := fmt.Sprintf("package main\n\nfunc main(a, b uint%[1]d) (uint%[1]d, uint%[1]d) {\n\t%[2]s\n}\n", w, body)
	max := new(big.Int).Lsh(big.NewInt(1), uint(w))
	return src, []string{new(big.Int).Rand(rng, max).String()}, []string{new(big.Int).Rand(rng, max).String()}
}

func c04Stream(idx int, rng *rand.Rand, tr *ndWriter, kind string) *Result {
	p := c04StreamProgs[idx%len(c04StreamProgs)]
	return c04StreamSrc(idx, tr, kind, p.src, p.x(rng), p.y(rng))
}

func c04StreamSrc(idx int, tr *ndWriter, kind, src string, xs, ys []string) *Result {
	res := &Result{Case: idx, Class: "stream:" + kind}
	sr := runStream(src, xs, ys, sessOpts{ot: kind, record: true, randSeed: uint64(seed())<<32 + uint64(idx)*3 + 2, corruptAt: -1})
	if sr.gErr != nil || sr.eErr != nil || sr.stalled || sr.gPanic != "" || sr.ePanic != "" {
		res.viol("session-failed:stream", "streaming session failed: g=%v e=%v stalled=%v panic=%q/%q", sr.gErr, sr.eErr, sr.stalled, sr.gPanic, sr.ePanic)
		return res
	}
	// NewStreaming draws R first from the configured randomness
	if len(sr.gRand) < 16 {
		res.drift("streaming garbler drew %d random bytes", len(sr.gRand))
		return res
	}
	var d ot.LabelData
	copy(d[:], sr.gRand[:16])
	var r ot.Label
	r.SetData(&d)
	r.SetS(true)
	// cross-check with the label pairs handed to OT
	if len(sr.otG.sent) > 0 && len(sr.otG.sent[0]) > 0 {
		x := sr.otG.sent[0][0].L0
		x.Xor(sr.otG.sent[0][0].L1)
		if !x.Equal(r) {
			res.drift("R recomputed from the recorded randomness does not match L0 xor L1 of the OT wires")
			return res
		}
	}
	tr.put(secEv{Ev: "sess", Kind: "stream:" + kind})
	pairs, rAt, windows := scanTranscript(sr.g2e, r)
	for _, q := range pairs {
		tr.put(secEv{Ev: "diff", Off: q})
	}
	for _, q := range rAt {
		tr.put(secEv{Ev: "rsent", Off: q})
	}
	tr.put(secEv{Ev: "end", N: windows})
	if len(pairs) > 0 {
		res.viol("pair:stream", "streaming transcript contains two 16-byte values differing by R (first at offset %d of %d bytes)", pairs[0], len(sr.g2e))
	}
	if len(rAt) > 0 {
		res.viol("R-sent:stream", "R itself is transmitted at offset %d", rAt[0])
	}
	if len(sr.otG.sent) != 1 {
		res.viol("ot-range:stream", "streaming garbler called OT.Send %d times", len(sr.otG.sent))
	}
	res.Nontrivial = true
	res.Sample = map[string]int{"bytes": len(sr.g2e), "windows": windows}
	return res
}

func c04Sha2pc(idx int, rng *rand.Rand, tr *ndWriter) (*Result, error) {
	res := &Result{Case: idx, Class: "sha2pc"}
	curve := elliptic.P256()
	var a, b [32]byte
	rng.Read(a[:])
	rng.Read(b[:])
	dr1 := newDetRand(uint64(seed())<<32 + uint64(idx)*5 + 3)
	m1, gs, err := sha2pc.GarblerRound1(dr1, curve)
	if err != nil {
		return nil, err
	}
	m2, es, err := sha2pc.EvaluatorRound2(newDetRand(uint64(idx)*5+4), curve, m1, b)
	if err != nil {
		return nil, err
	}
	dr3 := newDetRand(uint64(seed())<<32 + uint64(idx)*5 + 5)
	m3, err := sha2pc.GarblerRound3(dr3, curve, gs, a, m2)
	if err != nil {
		return nil, err
	}
	if _, err := sha2pc.EvaluatorRound4(curve, es, m3); err != nil {
		return nil, err
	}
	e1, err := sha2pc.EncodeRound1(curve, m1)
	if err != nil {
		return nil, err
	}
	e3, err := sha2pc.EncodeRound3(m3)
	if err != nil {
		return nil, err
	}
	// GarblerRound3 draws the 32-byte key, then Circuit.Garble draws R first
	var d ot.LabelData
	copy(d[:], dr3.log[32:48])
	var r ot.Label
	r.SetData(&d)
	r.SetS(true)
	// cross-check: the garbler's input labels differ from their siblings by R; use the garbled tables' consistency instead:
	// every GarblerInputs label xor R must NOT be in the transcript unless leaked; we only need R to be right, which we
	// confirm through the first evaluator-wire ciphertext pair being decryptable is out of reach here, so confirm with
	// the hint pairs only to label the finding, not to derive R.
	transcript := append(append([]byte(nil), e1...), e3...)
	tr.put(secEv{Ev: "sess", Kind: "sha2pc"})
	pairs, rAt, windows := scanTranscript(transcript, r)
	for _, q := range pairs {
		tr.put(secEv{Ev: "diff", Off: q, Kind: "sha2pc"})
		_ = q
	}
	for _, q := range rAt {
		tr.put(secEv{Ev: "rsent", Off: q})
	}
	tr.put(secEv{Ev: "end", N: windows})
	if len(pairs) > 0 {
		// classify: are all R-differences inside the OutputHints section of round 3?
		key := "sha2pc:round3:OutputHints"
		hb := labelBytes(m3.OutputHints[0].L0)
		start := -1
		for i := len(e1); i+16 <= len(transcript); i++ {
			if string(transcript[i:i+16]) == string(hb[:]) {
				start = i
				break
			}
		}
		end := start + 32*len(m3.OutputHints)
		for _, q := range allPairs(transcript, r) {
			if start < 0 || q < start || q+16 > end {
				key = "sha2pc:round3:other"
			}
		}
		res.viol(key, "sha2pc round 3 transmits two 16-byte values differing by R (first at offset %d of %d; OutputHints carry L0 and L1 of every output wire)", pairs[0], len(transcript))
	}
	if len(rAt) > 0 {
		res.viol("R-sent:sha2pc", "R itself is transmitted at offset %d", rAt[0])
	}
	// round 3 is repeated for the same session with another garbler input (a retransmission after the input changed,
	// or a session restored from its encoding): everything the garbler sent in BOTH messages, the output hints of
	// the known finding blanked, must still not contain two values differing by the offset of either garbling
	var a2 [32]byte
	for i := range a2 {
		a2[i] = ^a[i]
	}
	dr3b := newDetRand(uint64(seed())<<32 + uint64(idx)*5 + 6)
	if m3b, err := sha2pc.GarblerRound3(dr3b, curve, gs, a2, m2); err == nil {
		if e3b, err := sha2pc.EncodeRound3(m3b); err == nil {
			blank := func(enc []byte, hints []ot.Wire) []byte {
				out := append([]byte(nil), enc...)
				if len(hints) == 0 {
					return out
				}
				hb := labelBytes(hints[0].L0)
				for i := 0; i+16 <= len(out); i++ {
					if string(out[i:i+16]) == string(hb[:]) {
						for j := i; j < i+32*len(hints) && j < len(out); j++ {
							out[j] = byte(j * 7) // not zero: zero windows would pair up with R itself
						}
						break
					}
				}
				return out
			}
			both := append(blank(e3, m3.OutputHints), blank(e3b, m3b.OutputHints)...)
			r2 := r
			if len(dr3b.log) >= 48 {
				var d2 ot.LabelData
				copy(d2[:], dr3b.log[32:48])
				r2.SetData(&d2)
				r2.SetS(true)
			} // else: the second call drew no randomness - it garbled with the offset of the first call
			for _, rr := range []ot.Label{r, r2} {
				if p2, _, _ := scanTranscript(both, rr); len(p2) > 0 {
					res.viol("pair:sha2pc:repeated-round3", "two round-3 messages of one session (garbler inputs a and not-a) together contain two 16-byte values differing by the garbling offset (first at offset %d): both labels of a wire were sent", p2[0])
					break
				}
			}
		}
	}
	res.Nontrivial = true
	res.Sample = map[string]int{"bytes": len(transcript), "windows": windows}
	return res, nil
}

func c04Main(args []string) error {
	if len(args) < 3 || args[0] != "scan" {
		return fmt.Errorf("usage: vh c04 scan trace results n")
	}
	tr, err := newND(args[1])
	if err != nil {
		return err
	}
	defer tr.close()
	out, err := newND(args[2])
	if err != nil {
		return err
	}
	defer out.close()
	n := 12
	if len(args) > 3 {
		fmt.Sscan(args[3], &n)
	}
	rng := rand.New(rand.NewSource(seed()*49979687 + 4))
	kinds := []string{"co", "cot", "cotm", "rsa"}
	idx := 0
	for i := 0; i < n; i++ {
		out.put(c04Whole(idx, rng, tr, kinds[i%4]))
		idx++
	}
	for i := 0; i < (n+1)/2; i++ {
		out.put(c04Stream(idx, rng, tr, kinds[i%3]))
		idx++
	}
	// bitwise programs and TLC-generated programs (Mpcl.tla) in streaming mode
	for i := 0; i < n; i++ {
		src, xs, ys := c04BitProg(rng)
		out.put(c04StreamSrc(idx, tr, kinds[i%3], src, xs, ys))
		idx++
	}
	// input arguments of more than 65536 wires: the garbler's label store spans several pages, the labels of wire i and
	// of wire 65536+i are both transmitted (for different input bits)
	for i, sz := range [][2]int{{8300, 2}, {8200, 8300}} {
		if i == 1 && !thorough() && seed()%2 == 0 {
			continue
		}
		src := fmt.Sprintf("package main\n\nfunc main(a [%d]byte, b [%d]byte) byte {\n\treturn a[0] ^ a[8192] ^ a[%d] ^ b[1] ^ b[%d]\n}\n", sz[0], sz[1], sz[0]-1, sz[1]-1)
		hexOf := func(n int) string {
			buf := make([]byte, n)
			rng.Read(buf)
			return fmt.Sprintf("0x%x", buf)
		}
		r := c04StreamSrc(idx, tr, kinds[i%3], src, []string{hexOf(sz[0])}, []string{hexOf(sz[1])})
		r.Class = "stream-wide-input:" + kinds[i%3]
		out.put(r)
		idx++
	}
	if len(args) > 4 {
		err := readND(args[4], func(raw json.RawMessage) error {
			var mc mpCase
			if err := json.Unmarshal(raw, &mc); err != nil {
				return err
			}
			src := renderMpcl(&mc)
			if _, err := compileMPCL(src, nil); err != nil {
				return nil // the compiler refuses the program: nothing to run
			}
			mx := new(big.Int).Lsh(big.NewInt(1), uint(mc.Ta.width()))
			my := new(big.Int).Lsh(big.NewInt(1), uint(mc.Tb.width()))
			r := c04StreamSrc(idx, tr, kinds[idx%3], src, []string{new(big.Int).Rand(rng, mx).String()}, []string{new(big.Int).Rand(rng, my).String()})
			r.Class = "stream-generated:" + kinds[idx%3]
			out.put(r)
			idx++
			return nil
		})
		if err != nil {
			return err
		}
	}
	for i := 0; i < (n+3)/4; i++ {
		out.put(c04Deviate(idx, rng, kinds[i%3]))
		idx++
		out.put(c04Overlap(idx, rng))
		idx++
		out.put(c04Overlap(idx, rng, true))
		idx++
	}
	ns := 1
	if thorough() {
		ns = 4
	}
	for i := 0; i < ns; i++ {
		r, err := c04Sha2pc(idx, rng, tr)
		if err != nil {
			return err
		}
		out.put(r)
		idx++
	}
	_ = big.NewInt
	return nil
}
