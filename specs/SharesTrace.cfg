SPECIFICATION Spec
INVARIANT SharesOK
POSTCONDITION Accepted
CHECK_DEADLOCK FALSE
