SPECIFICATION PSpec
CONSTANTS
  NIn = 2
  MaxGates = 2
  Ops = {"XOR", "XNOR", "AND", "OR", "INV"}
  FreeS = FALSE
  MaxFaults = 0
  Deviating = FALSE
  RangeRule = "exact"
INVARIANT TwoPartyOK
INVARIANT Secrecy
PROPERTY Completes
CHECK_DEADLOCK FALSE
