----------------------------- MODULE Sha2pcGen -----------------------------
(* every behaviour of Sha2pc.tla with its predicted outcome, for replay     *)
EXTENDS Sha2pc, Json
Emit == ~Running => PrintT(<<"VHCASE", ToJson([acts |-> hist, out |-> out, err |-> err])>>)
=============================================================================
