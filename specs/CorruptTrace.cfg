SPECIFICATION Spec
INVARIANT NeverWrong
INVARIANT ModelAgrees
POSTCONDITION Accepted
CHECK_DEADLOCK FALSE
