----------------------------- MODULE GarbleGen -----------------------------
(* Generator: every circuit/input pair of Garble.tla with the predicted    *)
(* plain value of every wire and the number of rows per gate; replayed on  *)
(* the real Circuit.Garble / Eval / Compute.                               *)
EXTENDS Garble, Json
Case == [nin |-> NIn,
         gates |-> gates,
         inp |-> [i \in 1..NIn |-> inp[i - 1]],
         plain |-> [i \in 1..NWires |-> Plain[i - 1]],
         rows |-> [i \in 1..Len(gates) |-> Len(tab[i])]]
Emit == phase = "done" => PrintT(<<"VHCASE", ToJson(Case)>>)
=============================================================================
