--------------------------------- MODULE Fold ---------------------------------
(***************************************************************************)
(* C12: constant folding equals circuit evaluation.  A case is             *)
(*    (operator, type T, constants x and y of type T, consumer)            *)
(* and the property says: the value the rest of the program sees when the  *)
(* compiler folds `x op y` equals what the compiled circuit computes for   *)
(* `a op b` on run-time inputs a = x, b = y.  The expected value is given  *)
(* by the typed operator semantics of Mpcl.tla (wrap-around, signedness,   *)
(* truncating division, |a| mod |b|, arithmetic >> on signed types).       *)
(* The specification does NOT model compiler/mpa (whose own 32/64/n-bit    *)
(* representation is exactly what must not leak).                          *)
(***************************************************************************)
EXTENDS Mpcl, Json

CONSTANTS FoldWidths, FoldOps, Consumers

VARIABLES cur, emitted
fvars == <<cur, emitted>>

FoldTypes == {UT(w) : w \in FoldWidths} \cup {IT(w) : w \in FoldWidths}
\* every value for narrow types, boundary values otherwise
Vals(t) == LET w == W(t) IN
           IF w <= 4 THEN 0..(Pow2(w) - 1)
           ELSE {0, 1, 2, 3, 7, Pow2(w) - 1, Pow2(w) - 2, Pow2(w - 1), Pow2(w - 1) - 1, Pow2(w - 1) + 1, 5 % Pow2(w), 100 % Pow2(w)}

UnOps == {"neg", "not"}
ShiftOps == {"<<", ">>"}

\* the folded / computed value of `x op y` in type t (y is the shift count for shifts)
OpSem(op, t, x, y) ==
    LET vx == Val(t, x)  vy == Val(t, y) IN
    CASE op \in BinOps -> IF op \in {"/", "%"} THEN BinL(op, vx, SVal(vy)) ELSE Bin(op, vx, vy)
      [] op \in CmpOps -> Cmp(op, vx, vy)
      [] op \in ShiftOps -> Shift(op, vx, y % W(t))
      [] op = "neg" -> Wrap(t, -SVal(vx))

\* what consumes the folded value
Consume(c, v) ==
    CASE c = "ret" -> v
      [] c = "add1" -> IF v.t = BT THEN v ELSE BinL("+", v, 1)
      [] c = "div3" -> IF v.t = BT THEN v ELSE BinL("/", v, 3)
      [] c = "lt2" -> IF v.t = BT THEN v ELSE Cmp("<", v, Wrap(v.t, 2))
      [] c = "shl1" -> IF v.t = BT THEN v ELSE Shift("<<", v, 1)

Cases == {c \in [op : FoldOps, t : FoldTypes, k : Consumers] : TRUE}
FInit == cur \in Cases /\ emitted = FALSE /\ prog = <<>> /\ phase = "fold"
FNext == emitted = FALSE /\ emitted' = TRUE /\ UNCHANGED <<cur, vars>>
FSpec == FInit /\ [][FNext]_<<fvars, vars>>

\* one line per (op, type, consumer): all operand pairs with the expected value (-1: unspecified, e.g. division by zero)
Rows == LET t == cur.t IN
        {<<x, y, IF cur.op \in {"/", "%"} /\ y = 0 THEN -1
                 ELSE IF cur.op \in ShiftOps /\ (y >= W(t) \/ y = 0) THEN -1
                 ELSE Consume(cur.k, OpSem(cur.op, t, x, y)).v>> :
            x \in Vals(t), y \in (IF cur.op \in ShiftOps THEN 0..(W(t) - 1) ELSE IF cur.op = "neg" THEN {0} ELSE Vals(t))}
FEmit == emitted => PrintT(<<"VHCASE", ToJson([op |-> cur.op, t |-> cur.t, k |-> cur.k, rows |-> Rows])>>)
=============================================================================
