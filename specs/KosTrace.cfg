SPECIFICATION Spec
INVARIANT HonestAccepts
INVARIANT Sound
INVARIANT NoSilentAccept
INVARIANT Exact
POSTCONDITION Accepted
CHECK_DEADLOCK FALSE
