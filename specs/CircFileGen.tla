------------------------------ MODULE CircFileGen ------------------------------
(* prints every file of CircFile.tla with the verdict of the modelled parser, for the C14 harness *)
EXTENDS CircFile, Json
ShapesIn == {<<1>>, <<2>>, <<1, 1>>, <<0, 1>>}
ShapesOut == {<<1>>}
Emit == (status \in {"accepted", "rejected", "crashed"}) =>
           PrintT(<<"VHCASE", ToJson([file |-> file, status |-> status, wf |-> WellFormed(file)])>>)
=============================================================================
