SPECIFICATION CatSpec
CONSTRAINT CatEmit
CHECK_DEADLOCK FALSE
