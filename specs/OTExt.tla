-------------------------------- MODULE OTExt --------------------------------
(***************************************************************************)
(* ot/iknp.go: the IKNP OT extension at bit level, with scaled constants.  *)
(*   K          columns (128)           RPB  rows per byte (8)             *)
(*   BPW        bytes per word (8)      ChunkRows rows per chunk (512)     *)
(* Per column i the receiver holds two PRG streams g0_i, g1_i and the      *)
(* sender holds g_{Delta_i}.  A batch of n rows is processed in chunks:    *)
(*   receiver: byteRows = ceil(rows/RPB); u_i = g0_i xor g1_i xor x        *)
(*             (x = the chunk's choice bits, byte-packed); t = g0          *)
(*   sender:   byteRows = len(chunk)/K;   q_i = g_{Delta_i} xor Delta_i*u_i*)
(* Every stream is consumed byteRows bytes per chunk on BOTH sides, also   *)
(* in the packed-bit form, where only column 0 is output.                  *)
(* PRG streams are fixed arbitrary bit patterns (the correlation must hold *)
(* for any streams); Delta and the choice vectors are nondeterministic.    *)
(*                                                                         *)
(* Deviation switches (vacuity guards / pre-fix behaviour):                *)
(*   BitsTailApplied  FALSE: ReceiveBits applies only byteRows/BPW whole   *)
(*                    choice words (tree before the fix)                   *)
(*   SendBitsAllCols  FALSE: SendBits advances only the column-0 stream    *)
(*   ClearChoiceBuf   FALSE: choice bytes of earlier chunks are OR-ed in   *)
(***************************************************************************)
EXTENDS Integers, Sequences, FiniteSets, TLC

CONSTANTS K, RPB, BPW, ChunkRows, MaxN, MaxBatches,
          BitsTailApplied, SendBitsAllCols, ClearChoiceBuf

Col == 0..(K - 1)
Bit == {0, 1}
Xor(a, b) == (a + b) % 2
CeilDiv(a, b) == (a + b - 1) \div b
Min(a, b) == IF a < b THEN a ELSE b

\* arbitrary fixed PRG streams: bit `pos` of stream (which, column)
PRG(which, i, pos) == ((pos * 5 + i * 3 + which * 7 + (pos \div 3) * (i + 1) + (pos * pos) \div 7) % 11) % 2

VARIABLES delta,     \* column -> bit
          curS,      \* sender stream cursor per column (in bits)
          curR,      \* receiver cursor per column (both of its streams advance together)
          batch,     \* [n, x, mode, ofs] or NoBatch
          qOut, tOut,\* outputs of the current batch: row -> [Col -> Bit]
          stale,     \* choice bytes left in the receiver's buffer by earlier chunks (byte index -> bits)
          nbatches,
          bad

vars == <<delta, curS, curR, batch, qOut, tOut, stale, nbatches, bad>>
NoBatch == [n |-> 0, x |-> <<>>, mode |-> "none", ofs |-> 0]

Init == /\ delta \in [Col -> Bit]
        /\ curS = [i \in Col |-> 0] /\ curR = [i \in Col |-> 0]
        /\ batch = NoBatch /\ qOut = <<>> /\ tOut = <<>> /\ stale = <<>>
        /\ nbatches = 0 /\ bad = "no"

Start == /\ batch.mode = "none" /\ nbatches < MaxBatches
         /\ \E n \in 1..MaxN : \E x \in [0..(n - 1) -> Bit] : \E m \in {"labels", "bits"} :
              batch' = [n |-> n, x |-> x, mode |-> m, ofs |-> 0]
         /\ qOut' = <<>> /\ tOut' = <<>> /\ stale' = <<>>
         /\ UNCHANGED <<delta, curS, curR, nbatches, bad>>

\* choice bit the receiver XORs into row r (r relative to the chunk start) of every column
ChoiceBit(ofs, rows, byteRows, r, mode) ==
    LET row == ofs + r
        inBatch == row < batch.n
        \* packed-bit form: only whole words of the chunk's byteRows are applied unless the tail fix is in
        wordsApplied == byteRows \div BPW
        applied == IF mode = "bits" /\ ~BitsTailApplied THEN r < wordsApplied * BPW * RPB ELSE TRUE
        own == IF inBatch /\ applied THEN batch.x[row] ELSE 0
        \* label form with a buffer that is not cleared: bits of the same chunk offset of earlier chunks are OR-ed in
        old == IF mode = "labels" /\ ~ClearChoiceBuf /\ r \in DOMAIN stale THEN stale[r] ELSE 0
    IN IF own + old > 0 THEN 1 ELSE 0

\* one chunk, receiver then sender
Chunk ==
    /\ batch.mode # "none" /\ batch.ofs < batch.n
    /\ LET ofs == batch.ofs
           rows == Min(ChunkRows, batch.n - ofs)
           byteRows == CeilDiv(rows, RPB)
           bits == byteRows * RPB
           xb == [r \in 0..(bits - 1) |-> ChoiceBit(ofs, rows, byteRows, r, batch.mode)]
           g0 == [i \in Col |-> [r \in 0..(bits - 1) |-> PRG(0, i, curR[i] + r)]]
           g1 == [i \in Col |-> [r \in 0..(bits - 1) |-> PRG(1, i, curR[i] + r)]]
           u == [i \in Col |-> [r \in 0..(bits - 1) |-> Xor(Xor(g0[i][r], g1[i][r]), xb[r])]]
           \* the sender's own stream is the receiver's g_{Delta_i}, read at the SENDER's cursor
           gs == [i \in Col |-> [r \in 0..(bits - 1) |-> PRG(delta[i], i, curS[i] + r)]]
           q == [i \in Col |-> [r \in 0..(bits - 1) |-> Xor(gs[i][r], delta[i] * u[i][r])]]
           newT == [r \in 0..(rows - 1) |-> [i \in Col |-> g0[i][r]]]
           newQ == [r \in 0..(rows - 1) |-> [i \in Col |-> q[i][r]]]
       IN /\ tOut' = tOut \o [k \in 1..rows |-> newT[k - 1]]
          /\ qOut' = qOut \o [k \in 1..rows |-> newQ[k - 1]]
          /\ curR' = [i \in Col |-> curR[i] + bits]
          /\ curS' = [i \in Col |-> IF batch.mode = "bits" /\ ~SendBitsAllCols /\ i # 0 THEN curS[i] ELSE curS[i] + bits]
          /\ stale' = [r \in 0..(bits - 1) |-> IF xb[r] = 1 \/ (r \in DOMAIN stale /\ stale[r] = 1) THEN 1 ELSE 0]
          /\ batch' = [batch EXCEPT !.ofs = ofs + rows]
    /\ UNCHANGED <<delta, nbatches, bad>>

\* received_j = sent_j xor choice_j * Delta, on the form the batch asked for
RowOK(j) == IF batch.mode = "labels"
            THEN \A i \in Col : tOut[j + 1][i] = Xor(qOut[j + 1][i], batch.x[j] * delta[i])
            ELSE tOut[j + 1][0] = Xor(qOut[j + 1][0], batch.x[j] * delta[0])

Finish == /\ batch.mode # "none" /\ batch.ofs >= batch.n
          /\ bad' = IF \A j \in 0..(batch.n - 1) : RowOK(j) THEN bad ELSE "correlation"
          /\ batch' = NoBatch /\ nbatches' = nbatches + 1
          /\ UNCHANGED <<delta, curS, curR, qOut, tOut, stale>>

Next == Start \/ Chunk \/ Finish
Spec == Init /\ [][Next]_vars

\* sender and receiver PRG streams stay in lock step
Lockstep == batch.mode = "none" => \A i \in Col : curS[i] = curR[i]
Correlation == bad = "no"
Safety == Correlation /\ Lockstep

(***************************************************************************)
(* Size level, real constants: number and byte size of the chunk messages  *)
(* of a batch of n rows (used to predict what crosses the connection).     *)
(***************************************************************************)
RECURSIVE ChunkSizes(_, _, _, _)
ChunkSizes(n, k, rpb, chunkRows) ==
    IF n <= 0 THEN <<>>
    ELSE LET rows == Min(chunkRows, n) IN <<k * CeilDiv(rows, rpb)>> \o ChunkSizes(n - rows, k, rpb, chunkRows)
=============================================================================
