------------------------------ MODULE StreamGen ------------------------------
(* Generator: every abstract SSA program of Stream.tla (liveness / aliasing   *)
(* pattern) is printed once; the harness renders it as an MPCL program        *)
(* (arith = multiplication, alias = constant shift, sizes 1/2 = uint8/uint16)  *)
(* and runs it in streaming and in whole-circuit mode.                         *)
EXTENDS Stream, Json
Emit == (phase = "run" /\ pc = 1) =>
          PrintT(<<"VHCASE", ToJson([steps |-> prog, rets |-> rets])>>)
=============================================================================
