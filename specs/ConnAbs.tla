------------------------------ MODULE ConnAbs ------------------------------
(* The property C11 itself, without any implementation detail: a typed,   *)
(* ordered, lossless byte stream with counters.  Its trace specification  *)
(* is deterministic (every variable is updated from logged fields), so    *)
(* the invariants are evaluated only on states the implementation had.    *)
(* A rejection here is a property violation; a rejection only at the      *)
(* implementation-shaped level (ConnTrace) is model drift.                *)
EXTENDS Integers, Sequences, TLC, Json, TLCExt

TraceLog == ndJsonDeserialize("conn_trace.ndjson")

Fixed(k) == CASE k = "byte" -> 1 [] k = "u16" -> 2 [] k = "u32" -> 4
              [] k = "label" -> 16 [] k = "data" -> 4 [] k = "sizes" -> 4
              [] k = "flush" -> 0
MsgSize(k, n) == Fixed(k) + (IF k = "sizes" THEN 4 * n ELSE n)

VARIABLES l,
    accepted,   \* bytes of typed sends that have returned
    pending,    \* size of the typed send in progress
    wire,       \* bytes handed to the transport
    taken,      \* bytes the receiver read from the transport
    consumed,   \* bytes of typed receives that have returned
    msgs,       \* typed messages sent, not yet received
    sentStat, recvdStat, closed, bad

vars == <<l, accepted, pending, wire, taken, consumed, msgs, sentStat, recvdStat, closed, bad>>
Ev == TraceLog[l]

Init == l = 1 /\ accepted = 0 /\ pending = 0 /\ wire = 0 /\ taken = 0 /\ consumed = 0
        /\ msgs = <<>> /\ sentStat = 0 /\ recvdStat = 0 /\ closed = FALSE /\ bad = "no"

Step(e) == l <= Len(TraceLog) /\ Ev.ev = e /\ l' = l + 1

Send == /\ Step("send")
        /\ pending' = MsgSize(Ev.k, Ev.a)
        /\ msgs' = IF Ev.k = "flush" THEN msgs ELSE Append(msgs, [k |-> Ev.k, len |-> Ev.a])
        /\ UNCHANGED <<accepted, wire, taken, consumed, sentStat, recvdStat, closed, bad>>
SendRet == /\ Step("sendret")
           /\ accepted' = accepted + pending /\ pending' = 0
           /\ sentStat' = Ev.b
           \* Stats.Sent is sampled by the sending goroutine itself: everything the
           \* transport has seen was counted, and nothing is counted that was not sent
           /\ bad' = IF wire <= Ev.b /\ Ev.b <= accepted + pending THEN bad ELSE "sent-counter"
           /\ UNCHANGED <<wire, taken, consumed, msgs, recvdStat, closed>>
Write == /\ Step("write")
         /\ wire' = wire + Ev.a
         /\ UNCHANGED <<accepted, pending, taken, consumed, msgs, sentStat, recvdStat, closed, bad>>
Read == /\ Step("read")
        /\ taken' = taken + Ev.a
        /\ UNCHANGED <<accepted, pending, wire, consumed, msgs, sentStat, recvdStat, closed, bad>>
Recv == /\ Step("recv")
        /\ bad' = IF Ev.ok = 0 THEN "value" ELSE bad   \* harness: expected call issued
        /\ UNCHANGED <<accepted, pending, wire, taken, consumed, msgs, sentStat, recvdStat, closed>>
\* harness logs whether the received value equals the value sent (ok) and its length
RecvRet == /\ Step("recvret")
           /\ msgs # <<>>
           /\ consumed' = consumed + MsgSize(Head(msgs).k, Head(msgs).len)
           /\ msgs' = Tail(msgs)
           /\ recvdStat' = Ev.c
           /\ bad' = IF Ev.ok = 0 THEN "value"
                     ELSE IF Ev.c # taken THEN "recvd-counter" ELSE bad
           /\ UNCHANGED <<accepted, pending, wire, taken, sentStat, closed>>
Close == Step("close") /\ UNCHANGED <<accepted, pending, wire, taken, consumed, msgs, sentStat, recvdStat, closed, bad>>
Closed == /\ Step("closed") /\ closed' = TRUE /\ sentStat' = Ev.b
          /\ UNCHANGED <<accepted, pending, wire, taken, consumed, msgs, recvdStat, bad>>
Reset == /\ Step("reset")
         /\ accepted' = 0 /\ pending' = 0 /\ wire' = 0 /\ taken' = 0 /\ consumed' = 0
         /\ msgs' = <<>> /\ sentStat' = 0 /\ recvdStat' = 0 /\ closed' = FALSE /\ bad' = "no"

Next == Send \/ SendRet \/ Write \/ Read \/ Recv \/ RecvRet \/ Close \/ Closed \/ Reset
Spec == Init /\ [][Next]_vars

\* ---- the property
NoInvention   == wire <= accepted + pending            \* transport never gets bytes nobody sent
Causal        == taken <= wire /\ consumed <= taken     \* nothing is received before it is written
ValuesOK      == bad = "no"                             \* same values, same order (harness compares)
SentCounter   == sentStat <= accepted + pending
RecvCounter   == recvdStat <= taken
CloseDelivers == closed => (wire = accepted /\ sentStat = wire)
Property == NoInvention /\ Causal /\ ValuesOK /\ SentCounter /\ RecvCounter /\ CloseDelivers

Accepted == IF TLCGet("stats").diameter - 1 = Len(TraceLog) THEN TRUE
            ELSE Print(<<"VHREJECT", TLCGet("stats").diameter, 0>>, FALSE)
=============================================================================
