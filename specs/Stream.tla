------------------------------- MODULE Stream -------------------------------
(***************************************************************************)
(* Streaming mode, allocator/GC layer: compiler/ssa/program.go (GC),       *)
(* compiler/ssa/wire_allocator.go and the id handling of                   *)
(* compiler/ssa/streamer.go.                                               *)
(*                                                                         *)
(* A program is a sequence of SSA steps over values; value 1 and 2 are the *)
(* two parties' inputs.  Step kinds:                                       *)
(*   "arith"  - a circuit: reads its inputs' wires, WRITES the output's    *)
(*   "alias"  - mov/smov/slice/lshift/rshift/srshift: the output shares    *)
(*              the wire ids of its input (nothing is written)             *)
(*   "concat" - concat/amov: the output shares the ids of two inputs       *)
(* The last step returns some values.  TLC's states are the programs.      *)
(*                                                                         *)
(* PlaceGC is Program.GC() transcribed (backward liveness, alias map).     *)
(* TrackedOps is the set of step kinds GC treats as aliasing; Transitive   *)
(* says whether an alias of an alias keeps the original alive.  The tree   *)
(* after commit 57ef535 has TrackedOps = {"alias","concat"}, Transitive.   *)
(*                                                                         *)
(* Wire ids are abstracted to blocks (one block per value, LIFO free lists *)
(* per size, as WireAllocator.freeIDs); ver[b] counts how often block b    *)
(* was written, and every value remembers the version it refers to.        *)
(***************************************************************************)
EXTENDS Integers, Sequences, FiniteSets, TLC

CONSTANTS MaxSteps,    \* number of steps before the return
          Sizes,       \* value sizes (each size has its own free list)
          StepKinds,   \* subset of {"arith", "alias", "concat"} that AddStep may use
          TrackedOps,  \* subset of {"alias", "concat"}
          Transitive   \* BOOLEAN

VARIABLES prog,    \* sequence of [op, ins, size]; value of step i is i + 2
          rets,    \* values returned
          phase,   \* "build" | "run" | "done"
          sched,   \* steps with gc instructions placed: sequence of [k, a]
          pc,
          own,     \* value -> its own block
          refs,    \* value -> set of <<block, version>> it refers to
          ver,     \* block -> number of writes
          free,    \* size -> stack of free blocks
          nextb,   \* next fresh block
          broken   \* a step read a block that was rewritten since the value was made

vars == <<prog, rets, phase, sched, pc, own, refs, ver, free, nextb, broken>>

NVals == 2 + Len(prog)
ValSize(v) == IF v <= 2 THEN 1 ELSE prog[v - 2].size
Ins(i) == prog[i].ins
SeqToSet(s) == {s[k] : k \in 1..Len(s)}

Init == /\ prog = <<>> /\ rets = <<>> /\ phase = "build" /\ sched = <<>> /\ pc = 1
        /\ own = <<>> /\ refs = <<>> /\ ver = <<>> /\ free = [s \in Sizes |-> <<>>]
        /\ nextb = 1 /\ broken = FALSE

AddStep ==
    /\ phase = "build" /\ Len(prog) < MaxSteps
    /\ \/ \E a \in 1..NVals : \E b \in 1..NVals : \E s \in Sizes :
             "arith" \in StepKinds /\ prog' = Append(prog, [op |-> "arith", ins |-> <<a, b>>, size |-> s])
       \/ \E a \in 1..NVals :
             "alias" \in StepKinds /\ prog' = Append(prog, [op |-> "alias", ins |-> <<a>>, size |-> ValSize(a)])
       \/ \E a \in 1..NVals : \E b \in 1..NVals :
             /\ "concat" \in StepKinds
             /\ ValSize(a) + ValSize(b) \in Sizes
             /\ prog' = Append(prog, [op |-> "concat", ins |-> <<a, b>>, size |-> ValSize(a) + ValSize(b)])
    /\ UNCHANGED <<rets, phase, sched, pc, own, refs, ver, free, nextb, broken>>

(***************************************************************************)
(* Program.GC(), transcribed                                               *)
(***************************************************************************)
Aliases(v) == {i + 2 : i \in {j \in 1..Len(prog) : prog[j].op \in TrackedOps /\ v \in SeqToSet(prog[j].ins)}}

RECURSIVE AliasLive(_, _, _)
AliasLive(v, L, depth) ==
    \E a \in Aliases(v) : a \in L \/ (Transitive /\ depth > 0 /\ AliasLive(a, L, depth - 1))

\* inputs of one step processed left to right: returns <<gcs emitted, live set>>
RECURSIVE StepIns(_, _, _)
StepIns(ins, L, gcs) ==
    IF ins = <<>> THEN <<gcs, L>>
    ELSE LET v == Head(ins)
             emit == v \notin L /\ ~AliasLive(v, L, MaxSteps)
         IN StepIns(Tail(ins), L \cup {v}, IF emit THEN Append(gcs, v) ELSE gcs)

\* backward pass over steps i..1 with live set L; result is in REVERSE order
RECURSIVE Backward(_, _)
Backward(i, L) ==
    IF i = 0 THEN <<>>
    ELSE LET r == StepIns(Ins(i), L, <<>>)
             gcs == [k \in 1..Len(r[1]) |-> [k |-> "gc", a |-> r[1][k]]]
         IN gcs \o <<[k |-> "step", a |-> i]>> \o Backward(i - 1, r[2] \ {i + 2})

Reverse(s) == [k \in 1..Len(s) |-> s[Len(s) + 1 - k]]
\* the return step comes last; its inputs are live at the end and are never collected by it
PlaceGC == Reverse(Backward(Len(prog), SeqToSet(rets))) \o <<[k |-> "ret", a |-> 0]>>

Start ==
    /\ phase = "build" /\ Len(prog) >= 1
    /\ UNCHANGED <<prog, free, broken>>
    /\ \E R \in (SUBSET (1..NVals)) \ {{}} :
          /\ Cardinality(R) <= 2
          /\ rets' = [k \in 1..Cardinality(R) |->
                        CHOOSE v \in R : Cardinality({w \in R : w < v}) = k - 1]
    /\ phase' = "run" /\ pc' = 1
    /\ sched' = PlaceGC'
    \* the two input values own blocks 1 and 2, written once
    /\ own' = (1 :> 1 @@ 2 :> 2)
    /\ refs' = (1 :> {<<1, 1>>} @@ 2 :> {<<2, 1>>})
    /\ ver' = (1 :> 1 @@ 2 :> 1)
    /\ nextb' = 3

Intact(v) == \A r \in refs[v] : ver[r[1]] = r[2]

\* WireAllocator.newIDs: pop the free list of that size, else fresh ids
AllocBlock(s) == IF free[s] # <<>> THEN free[s][Len(free[s])] ELSE nextb

Exec ==
    /\ phase = "run" /\ pc <= Len(sched)
    /\ LET e == sched[pc] IN
       CASE e.k = "step" ->
              LET st == prog[e.a]
                  out == e.a + 2
                  b == AllocBlock(st.size)
                  popped == free[st.size] # <<>>
                  insOK == \A k \in 1..Len(st.ins) : st.ins[k] \in DOMAIN refs /\ Intact(st.ins[k])
              IN /\ free' = IF popped THEN [free EXCEPT ![st.size] = SubSeq(@, 1, Len(@) - 1)] ELSE free
                 /\ nextb' = IF popped THEN nextb ELSE nextb + 1
                 /\ own' = own @@ (out :> b)
                 /\ broken' = (broken \/ ~insOK)
                 /\ IF st.op = "arith"
                    THEN /\ ver' = [x \in DOMAIN ver \cup {b} |-> IF x = b THEN (IF b \in DOMAIN ver THEN ver[b] + 1 ELSE 1) ELSE ver[x]]
                         /\ refs' = refs @@ (out :> {<<b, ver'[b]>>})
                    ELSE /\ ver' = [x \in DOMAIN ver \cup {b} |-> IF x \in DOMAIN ver THEN ver[x] ELSE 0]
                         /\ refs' = refs @@ (out :> UNION {IF st.ins[k] \in DOMAIN refs THEN refs[st.ins[k]] ELSE {} : k \in 1..Len(st.ins)})
         [] e.k = "gc" ->
              \* GCWires: the value's own id block goes back on the free list of its size
              /\ free' = [free EXCEPT ![ValSize(e.a)] = Append(@, own[e.a])]
              /\ UNCHANGED <<nextb, own, refs, ver, broken>>
         [] e.k = "ret" ->
              /\ broken' = (broken \/ \E k \in 1..Len(rets) : ~Intact(rets[k]))
              /\ UNCHANGED <<free, nextb, own, refs, ver>>
    /\ pc' = pc + 1
    /\ UNCHANGED <<prog, rets, phase, sched>>

Finish == /\ phase = "run" /\ pc > Len(sched) /\ phase' = "done"
          /\ UNCHANGED <<prog, rets, sched, pc, own, refs, ver, free, nextb, broken>>

Next == AddStep \/ Start \/ Exec \/ Finish
Spec == Init /\ [][Next]_vars

(***************************************************************************)
(* Properties                                                              *)
(***************************************************************************)
\* every read sees the write it was meant to see: no live wire id was recycled and overwritten
NoClobber == ~broken
\* a block on a free list is not referred to by any value that a later step still reads
LaterRead == IF phase # "run" THEN {}
             ELSE UNION {IF sched[j].k = "step" THEN SeqToSet(prog[sched[j].a].ins)
                         ELSE IF sched[j].k = "ret" THEN SeqToSet(rets) ELSE {} : j \in pc..Len(sched)}
OnFree == UNION {SeqToSet(free[s]) : s \in Sizes}
NoLiveOnFree == \A v \in LaterRead \cap DOMAIN refs : \A r \in refs[v] : r[1] \notin OnFree
\* gc is only emitted for values that exist and each value at most once
GCSane == phase = "run" =>
            \A j \in 1..Len(sched) : sched[j].k = "gc" =>
               /\ \A j2 \in 1..Len(sched) : (sched[j2].k = "gc" /\ sched[j2].a = sched[j].a) => j2 = j
Safety == NoClobber /\ NoLiveOnFree /\ GCSane
=============================================================================
