-------------------------------- MODULE GmwNet --------------------------------
(***************************************************************************)
(* gmw/network.go: formation of the GMW network (CreateNetwork /           *)
(* JoinNetwork / Connect).  Every pair of parties ends up with TWO         *)
(* connections, "online" (the protocol) and "offline" (triple dealing).    *)
(*                                                                         *)
(* One action per blocking point of the code:                              *)
(*   leader  main : LStart (needOnline = needOffline = N-1, accept loop    *)
(*                  for online connections), LPhase2 (loop done: start the *)
(*                  loop again for the offline ones, send every joiner the *)
(*                  list of the others), LDone (second loop done)          *)
(*   joiner  main : Join (TCP connection to the leader, nothing sent yet), *)
(*                  JHello (magic, id, sizes on that connection), JList    *)
(*                  (leader's reply and the list; need* = number of lower  *)
(*                  joiners), JOffL (offline connection to the leader,     *)
(*                  accept loop started), JDialOn(k) / JReply(k) /         *)
(*                  JDialOff(k) for every higher joiner k, JDone           *)
(*   accept loop  : Take (Accept: next connection of the backlog), Magic   *)
(*                  (read the magic - blocks until the dialer has sent it),*)
(*                  Handle (online: register the peer, answer with the own *)
(*                  sizes; offline: attach to the registered peer)         *)
(* The accept loop of a party is ONE goroutine: while it waits for the     *)
(* magic of a connection whose owner has not called Connect yet, every     *)
(* connection behind it in the backlog waits, too.                         *)
(***************************************************************************)
EXTENDS Integers, Sequences, FiniteSets, TLC

CONSTANTS N,            \* parties 0..N-1, 0 is the leader
          OfflineFirst, \* a joiner dials the offline connection to a higher joiner BEFORE the online one (harmless:
                        \* the acceptor knows the dialer from the leader's list; TLC confirms)
          ListEarly     \* deviation: the leader names the others to a joiner as soon as that joiner's online
                        \* connection is handled, instead of after all of them (rejected: ListComplete)

Party == 0..(N - 1)
Joiner == 1..(N - 1)
None == <<-1, -1, "none">>

VARIABLES pc,        \* main thread per party
          needOn, needOff,
          on, off,   \* on[p][q] / off[p][q]: p holds its end of the online / offline connection with q
          known,     \* parties p has in its peer table (peersByID)
          backlog,   \* listener queue of p: sequence of <<dialer, acceptor, kind>>
          sent,      \* connections whose dialer has written its magic
          replied,   \* online connections whose acceptor has answered
          list,      \* list[j]: the joiners the leader named to j (or {-1})
          loop,      \* accept loop per party: "off" | "take" | "magic" | "handle" | "done"
          cur,       \* connection the accept loop is handling
          errs

vars == <<pc, needOn, needOff, on, off, known, backlog, sent, replied, list, loop, cur, errs>>

Init ==
    /\ pc = [p \in Party |-> <<"init">>]
    /\ needOn = [p \in Party |-> 0] /\ needOff = [p \in Party |-> 0]
    /\ on = [p \in Party |-> {}] /\ off = [p \in Party |-> {}]
    /\ known = [p \in Party |-> {}]
    /\ backlog = [p \in Party |-> <<>>]
    /\ sent = {} /\ replied = {}
    /\ list = [p \in Party |-> {-1}]
    /\ loop = [p \in Party |-> "off"] /\ cur = [p \in Party |-> None]
    /\ errs = {}

Higher(j) == {k \in Joiner : k > j}
Min(S) == CHOOSE x \in S : \A y \in S : x <= y

(***************************************************************************)
(* Leader                                                                  *)
(***************************************************************************)
LStart == /\ pc[0] = <<"init">>
          /\ needOn' = [needOn EXCEPT ![0] = N - 1] /\ needOff' = [needOff EXCEPT ![0] = N - 1]
          /\ loop' = [loop EXCEPT ![0] = "take"]       \* accept(online = TRUE, offline = FALSE)
          /\ pc' = [pc EXCEPT ![0] = <<"phase1">>]
          /\ UNCHANGED <<on, off, known, backlog, sent, replied, list, cur, errs>>

\* the loop condition: (online /\ needOnline > 0) \/ (offline /\ needOffline > 0)
LoopWanted(p) == IF p = 0 /\ pc[0] = <<"phase1">> THEN needOn[0] > 0
                 ELSE needOn[p] > 0 \/ needOff[p] > 0

LPhase2 == /\ pc[0] = <<"phase1">> /\ loop[0] = "done"
           /\ loop' = [loop EXCEPT ![0] = "take"]      \* accept(TRUE, TRUE)
           /\ list' = [q \in Party |-> IF q \in Joiner /\ list[q] = {-1} THEN known[0] \ {q} ELSE list[q]]
           /\ pc' = [pc EXCEPT ![0] = <<"phase2">>]
           /\ UNCHANGED <<needOn, needOff, on, off, known, backlog, sent, replied, cur, errs>>

LDone == /\ pc[0] = <<"phase2">> /\ loop[0] = "done"
         /\ pc' = [pc EXCEPT ![0] = <<"done">>]
         /\ UNCHANGED <<needOn, needOff, on, off, known, backlog, sent, replied, list, loop, cur, errs>>

(***************************************************************************)
(* Joiner                                                                  *)
(***************************************************************************)
Join(j) == /\ pc[j] = <<"init">> /\ pc[0] # <<"init">>
           /\ backlog' = [backlog EXCEPT ![0] = Append(@, <<j, 0, "on">>)]
           /\ known' = [known EXCEPT ![j] = {0}]
           /\ on' = [on EXCEPT ![j] = {0}]
           /\ pc' = [pc EXCEPT ![j] = <<"joined">>]
           /\ UNCHANGED <<needOn, needOff, off, sent, replied, list, loop, cur, errs>>

JHello(j) == /\ pc[j] = <<"joined">>
             /\ sent' = sent \cup {<<j, 0, "on">>}
             /\ pc' = [pc EXCEPT ![j] = <<"hello">>]
             /\ UNCHANGED <<needOn, needOff, on, off, known, backlog, replied, list, loop, cur, errs>>

\* leader's input sizes (the reply of its accept loop), then the list
JList(j) == /\ pc[j] = <<"hello">> /\ <<j, 0, "on">> \in replied /\ list[j] # {-1}
            /\ known' = [known EXCEPT ![j] = @ \cup list[j]]
            /\ needOn' = [needOn EXCEPT ![j] = Cardinality({i \in list[j] : i < j})]
            /\ needOff' = [needOff EXCEPT ![j] = Cardinality({i \in list[j] : i < j})]
            /\ pc' = [pc EXCEPT ![j] = <<"list">>]
            /\ UNCHANGED <<on, off, backlog, sent, replied, list, loop, cur, errs>>

JOffL(j) == /\ pc[j] = <<"list">>
            /\ backlog' = [backlog EXCEPT ![0] = Append(@, <<j, 0, "off">>)]
            /\ sent' = sent \cup {<<j, 0, "off">>}
            /\ off' = [off EXCEPT ![j] = @ \cup {0}]
            /\ loop' = [loop EXCEPT ![j] = IF needOn[j] > 0 \/ needOff[j] > 0 THEN "take" ELSE "done"]
            /\ pc' = [pc EXCEPT ![j] = IF Higher(j) = {} THEN <<"wait">> ELSE <<"dial", Min(Higher(j)), IF OfflineFirst THEN "off" ELSE "on">>]
            /\ UNCHANGED <<needOn, needOff, on, known, replied, list, cur, errs>>

NextDial(j, k) == IF Higher(j) \ (1..k) = {} THEN <<"wait">>
                  ELSE <<"dial", Min(Higher(j) \ (1..k)), IF OfflineFirst THEN "off" ELSE "on">>

\* dialOnline: connect, magic, id, sizes, flush - then wait for the peer's sizes
JDialOn(j) == /\ pc[j][1] = "dial" /\ pc[j][3] = "on"
              /\ LET k == pc[j][2] IN
                 /\ backlog' = [backlog EXCEPT ![k] = Append(@, <<j, k, "on">>)]
                 /\ sent' = sent \cup {<<j, k, "on">>}
                 /\ pc' = [pc EXCEPT ![j] = <<"reply", k>>]
              /\ UNCHANGED <<needOn, needOff, on, off, known, replied, list, loop, cur, errs>>

JReply(j) == /\ pc[j][1] = "reply" /\ <<j, pc[j][2], "on">> \in replied
             /\ LET k == pc[j][2] IN
                /\ on' = [on EXCEPT ![j] = @ \cup {k}]
                /\ pc' = [pc EXCEPT ![j] = IF OfflineFirst THEN NextDial(j, k) ELSE <<"dial", k, "off">>]
             /\ UNCHANGED <<needOn, needOff, off, known, backlog, sent, replied, list, loop, cur, errs>>

\* dialOffline: connect, magic, id, flush (nothing is awaited)
JDialOff(j) == /\ pc[j][1] = "dial" /\ pc[j][3] = "off"
               /\ LET k == pc[j][2] IN
                  /\ backlog' = [backlog EXCEPT ![k] = Append(@, <<j, k, "off">>)]
                  /\ sent' = sent \cup {<<j, k, "off">>}
                  /\ off' = [off EXCEPT ![j] = @ \cup {k}]
                  /\ pc' = [pc EXCEPT ![j] = IF OfflineFirst THEN <<"dial", k, "on">> ELSE NextDial(j, k)]
               /\ UNCHANGED <<needOn, needOff, on, known, replied, list, loop, cur, errs>>

JDone(j) == /\ pc[j] = <<"wait">> /\ loop[j] = "done"
            /\ pc' = [pc EXCEPT ![j] = <<"done">>]
            /\ UNCHANGED <<needOn, needOff, on, off, known, backlog, sent, replied, list, loop, cur, errs>>

(***************************************************************************)
(* Accept loop (one goroutine per party)                                   *)
(***************************************************************************)
Take(p) == /\ loop[p] = "take"
           /\ IF ~LoopWanted(p)
              THEN loop' = [loop EXCEPT ![p] = "done"] /\ UNCHANGED <<backlog, cur>>
              ELSE /\ backlog[p] # <<>>
                   /\ cur' = [cur EXCEPT ![p] = Head(backlog[p])]
                   /\ backlog' = [backlog EXCEPT ![p] = Tail(@)]
                   /\ loop' = [loop EXCEPT ![p] = "magic"]
           /\ UNCHANGED <<pc, needOn, needOff, on, off, known, sent, replied, list, errs>>

Magic(p) == /\ loop[p] = "magic" /\ cur[p] \in sent
            /\ loop' = [loop EXCEPT ![p] = "handle"]
            /\ UNCHANGED <<pc, needOn, needOff, on, off, known, backlog, sent, replied, list, cur, errs>>

Handle(p) ==
    /\ loop[p] = "handle"
    /\ LET from == cur[p][1]  kind == cur[p][3] IN
       IF kind = "on"
       THEN IF needOn[p] = 0
            THEN /\ errs' = errs \cup {<<"unexpected online connection", p, from>>}
                 /\ UNCHANGED <<needOn, needOff, on, off, known, replied, list>>
            ELSE /\ needOn' = [needOn EXCEPT ![p] = @ - 1]
                 /\ IF from \in on[p]
                    THEN errs' = errs \cup {<<"peer already connected", p, from>>} /\ UNCHANGED <<on, known, replied, list>>
                    ELSE /\ on' = [on EXCEPT ![p] = @ \cup {from}]
                         /\ known' = [known EXCEPT ![p] = @ \cup {from}]
                         /\ replied' = replied \cup {cur[p]}
                         /\ list' = IF ListEarly /\ p = 0 THEN [list EXCEPT ![from] = known'[0] \ {from}] ELSE list
                         /\ UNCHANGED errs
                 /\ UNCHANGED <<needOff, off>>
       ELSE IF needOff[p] = 0
            THEN /\ errs' = errs \cup {<<"unexpected offline connection", p, from>>}
                 /\ UNCHANGED <<needOn, needOff, on, off, known, replied, list>>
            ELSE /\ needOff' = [needOff EXCEPT ![p] = @ - 1]
                 /\ IF from \notin known[p]
                    THEN errs' = errs \cup {<<"invalid offline peer ID", p, from>>} /\ UNCHANGED off
                    ELSE off' = [off EXCEPT ![p] = @ \cup {from}] /\ UNCHANGED errs
                 /\ UNCHANGED <<needOn, on, known, replied, list>>
    /\ loop' = [loop EXCEPT ![p] = "take"]
    /\ cur' = [cur EXCEPT ![p] = None]
    /\ UNCHANGED <<pc, backlog, sent>>

Main(p) == IF p = 0 THEN LStart \/ LPhase2 \/ LDone
           ELSE Join(p) \/ JHello(p) \/ JList(p) \/ JOffL(p) \/ JDialOn(p) \/ JReply(p) \/ JDialOff(p) \/ JDone(p)
Acc(p) == Take(p) \/ Magic(p) \/ Handle(p)
Next == \E p \in Party : Main(p) \/ Acc(p)
Spec == Init /\ [][Next]_vars /\ \A p \in Party : WF_vars(Main(p)) /\ WF_vars(Acc(p))

(***************************************************************************)
(* Properties                                                              *)
(***************************************************************************)
Returned(p) == pc[p] = <<"done">>
\* when Connect has returned at p, p holds both connections with every other party
Complete == \A p \in Party : Returned(p) => (on[p] = Party \ {p} /\ off[p] = Party \ {p})
NoError == errs = {}
\* the list the leader sends names every other joiner
ListComplete == \A j \in Joiner : list[j] # {-1} => list[j] = Joiner \ {j}
Safety == Complete /\ NoError /\ ListComplete
Terminates == <>[](\A p \in Party : Returned(p))
=============================================================================
