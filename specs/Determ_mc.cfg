SPECIFICATION Spec
CONSTANTS
  Progs = {"mul", "libs"}
  SizeIds = {"s16", "s32"}
  ValIds = {"default"}
  MaxOps = 3
  Procs = {1, 2}
  Orders = {1, 2}
  LeakMemo = FALSE
  LeakCache = FALSE
  LeakOrder = FALSE
  LeakScratch = FALSE
INVARIANT Deterministic
CHECK_DEADLOCK FALSE
