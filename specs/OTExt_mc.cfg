SPECIFICATION Spec
CONSTANTS
  K = 2
  RPB = 2
  BPW = 2
  ChunkRows = 8
  MaxN = 10
  MaxBatches = 1
  BitsTailApplied = FALSE
  SendBitsAllCols = TRUE
  ClearChoiceBuf = TRUE
INVARIANT Safety
CHECK_DEADLOCK FALSE
