------------------------------ MODULE KosTrace ------------------------------
(* C15 on real executions behind a tampering ot.IO: one event per run with   *)
(* the flipped coordinate, whether Delta selects that column, whether the    *)
(* row is used, whether the sender accepted and whether the outputs still    *)
(* satisfy the correlation for the receiver's original choices.  The         *)
(* outcome must be the one Kos.tla's Exact/Sound/HonestAccepts fix.          *)
EXTENDS Integers, Sequences, TLC, Json, TLCExt
TraceLog == ndJsonDeserialize("kos_trace.ndjson")
VARIABLES l, last
vars == <<l, last>>
None == [where |-> "none", deltacol |-> 0, used |-> 1, accepted |-> 1, corrok |-> 1]
Init == l = 1 /\ last = None
Run == l <= Len(TraceLog) /\ last' = TraceLog[l] /\ l' = l + 1
Spec == Init /\ [][Run]_vars

HonestAccepts == last.where = "none" => last.accepted = 1
Sound == last.accepted = 1 => last.corrok = 1
NoSilentAccept == (last.where \in {"payload", "check", "response"} /\ last.deltacol = 1 /\ last.used = 1) => last.accepted = 0
\* implementation-shaped: a flip Delta does not select (or in a padding row) changes nothing
Exact == (last.where \in {"payload", "check"} /\ (last.deltacol = 0 \/ last.used = 0)) => last.accepted = 1
Accepted == IF TLCGet("stats").diameter - 1 = Len(TraceLog) THEN TRUE
            ELSE Print(<<"VHREJECT", TLCGet("stats").diameter, 0>>, FALSE)
=============================================================================
