-------------------------------- MODULE IOEnc --------------------------------
(***************************************************************************)
(* C13: the encoding of input and output values (circuit/ioarg.go,         *)
(* result.go, types.Info.InstantiateWithSizes).                            *)
(*                                                                         *)
(* An argument is a sequence of members (one member: a plain argument;     *)
(* several: IOArg.Compound, e.g. the fields of a struct or the parameters  *)
(* of one party).  A member is a boolean, an intN / uintN, or an array /   *)
(* slice of such integers.  Values are bit sequences, least significant    *)
(* bit first, so that no width limit of TLC's integers applies: the spec   *)
(* is about WHERE bits go.                                                 *)
(*                                                                         *)
(*   Wires(ts, vs)   the bits on the argument's wires: members in          *)
(*                   declaration order, array elements in index order,     *)
(*                   every element little-endian two's complement; array   *)
(*                   elements a short literal does not give are zero.      *)
(*                                                                         *)
(* States are the cases (AddMember grows the argument); the invariants     *)
(* state what the layout guarantees: decoding inverts encoding, no         *)
(* member's value reaches another member's bits, the textual and the       *)
(* typed reading of a number agree, the size inferred from a spelling is   *)
(* enough to hold what is written.  The generator (IOEncGen.tla) prints    *)
(* each case with its wires; the harness drives IOArg.Parse, IOArg.Set,    *)
(* InputSizes / InstantiateWithSizes and mpc.Result with it.               *)
(***************************************************************************)
EXTENDS Integers, Sequences, FiniteSets, TLC

CONSTANTS MaxMembers,     \* members per argument
          ScalarWidths,   \* widths of intN / uintN members
          ElWidths,       \* element widths of arrays and slices
          Counts          \* array sizes

Bit == {0, 1}
Zeros(n) == [i \in 1..n |-> 0]
Ones(n) == [i \in 1..n |-> 1]
RECURSIVE Concat(_)
Concat(ss) == IF ss = <<>> THEN <<>> ELSE Head(ss) \o Concat(Tail(ss))
Pow2(n) == 2 ^ n

(***************************************************************************)
(* Types and values                                                        *)
(***************************************************************************)
IsArr(t) == t.k \in {"a", "s"}
ScalarT == [k : {"u", "i"}, w : ScalarWidths] \cup {[k |-> "b", w |-> 1]}
ArrayT == [k : {"a", "s"}, ek : {"u", "i"}, w : ElWidths, n : Counts]
MemberT == ScalarT \cup ArrayT
Bits(t) == IF IsArr(t) THEN t.w * t.n ELSE t.w

\* all bit patterns of narrow types, boundary patterns otherwise
Alt(w) == [i \in 1..w |-> i % 2]
Pats(w) == IF w <= 3 THEN [1..w -> Bit]
           ELSE {Zeros(w), Ones(w), [i \in 1..w |-> IF i = 1 THEN 1 ELSE 0], [i \in 1..w |-> IF i = w THEN 1 ELSE 0],
                 [i \in 1..w |-> IF i = w THEN 0 ELSE 1], Alt(w)}
\* a scalar's value is a bit sequence; an array's value is the sequence of the elements given
\* (a slice takes its size from the literal, an array literal may be short)
ValsOf(t) == IF IsArr(t)
             THEN UNION {[1..m -> Pats(t.w)] : m \in (IF t.k = "s" THEN {t.n} ELSE 0..t.n)}
             ELSE Pats(t.w)

VARIABLES ts, vs
vars == <<ts, vs>>

(***************************************************************************)
(* Layout                                                                  *)
(***************************************************************************)
Layout(t, v) == IF IsArr(t) THEN Concat(v) \o Zeros((t.n - Len(v)) * t.w) ELSE v
Wires(tt, vv) == Concat([i \in 1..Len(tt) |-> Layout(tt[i], vv[i])])
RECURSIVE SumBits(_, _)
SumBits(tt, n) == IF n = 0 THEN 0 ELSE Bits(tt[n]) + SumBits(tt, n - 1)
Offset(tt, i) == SumBits(tt, i - 1)
\* what a member's wires decode to: the bits of a scalar, all n elements of an array
FullVal(t, v) == IF IsArr(t) THEN [e \in 1..t.n |-> IF e <= Len(v) THEN v[e] ELSE Zeros(t.w)] ELSE v
Decode(tt, wires, i) ==
    LET t == tt[i]
        b == SubSeq(wires, Offset(tt, i) + 1, Offset(tt, i) + Bits(t))
    IN IF IsArr(t) THEN [e \in 1..t.n |-> SubSeq(b, (e - 1) * t.w + 1, e * t.w)] ELSE b

(***************************************************************************)
(* Numbers (narrow widths only: TLC integers)                              *)
(***************************************************************************)
RECURSIVE UVal(_)
UVal(b) == IF b = <<>> THEN 0 ELSE Head(b) + 2 * UVal(Tail(b))
\* the typed value of a bit pattern
TVal(kind, b) == IF kind = "i" /\ Len(b) > 0 /\ b[Len(b)] = 1 THEN UVal(b) - Pow2(Len(b)) ELSE UVal(b)
\* the w low bits of the two's complement representation of integer n (n may be negative): what a
\* textual number denotes on w wires
NumBits(n, w) == [i \in 1..w |-> ((n \div Pow2(i - 1)) % 2)]
RECURSIVE BitLen(_)
BitLen(n) == IF n = 0 THEN 0 ELSE 1 + BitLen(n \div 2)
\* bits a spelling of the number needs so that reading the wires back as the member's type gives the
\* number again: the inferred size of an unsized argument must not be smaller
NeedBits(kind, n) == IF n >= 0 THEN (IF kind = "i" THEN BitLen(n) + 1 ELSE BitLen(n))
                     ELSE BitLen(-n - 1) + 1

(***************************************************************************)
(* Cases                                                                   *)
(***************************************************************************)
Init == ts = <<>> /\ vs = <<>>
AddMember == /\ Len(ts) < MaxMembers
             /\ \E t \in MemberT : \E v \in ValsOf(t) :
                   /\ ts' = Append(ts, t)
                   /\ vs' = Append(vs, v)
Next == AddMember
Spec == Init /\ [][Next]_vars

(***************************************************************************)
(* What the layout guarantees                                              *)
(***************************************************************************)
TotalBits == Len(Wires(ts, vs)) = SumBits(ts, Len(ts))
RoundTrip == \A i \in 1..Len(ts) : Decode(ts, Wires(ts, vs), i) = FullVal(ts[i], vs[i])
\* replacing one member's value leaves every other member's wires alone
NonInterference ==
    \A i \in 1..Len(ts) : \A v \in ValsOf(ts[i]) :
        LET w2 == Wires(ts, [vs EXCEPT ![i] = v]) IN
        \A j \in 1..Len(ts) : j # i => Decode(ts, w2, j) = Decode(ts, Wires(ts, vs), j)
\* the textual and the typed reading of a number agree
NumbersAgree ==
    \A i \in 1..Len(ts) :
        LET t == ts[i] IN
        (~IsArr(t) /\ t.k # "b" /\ t.w <= 12) => NumBits(TVal(t.k, vs[i]), t.w) = vs[i]
\* a number spelled in NeedBits bits is read back as itself
SizesSuffice ==
    \A i \in 1..Len(ts) :
        LET t == ts[i] IN
        (~IsArr(t) /\ t.k # "b" /\ t.w <= 12) =>
            LET n == TVal(t.k, vs[i])  s == NeedBits(t.k, n) IN
            /\ s <= t.w
            /\ (s >= 1 => TVal(t.k, NumBits(n, s)) = n)
(***************************************************************************)
(* String results (result.go, TString): a string of k characters occupies  *)
(* 8k wires, character i in bits 8i .. 8i+7, least significant bit first.  *)
(* StrWires / StrChars are the two directions; a result of fewer set bits  *)
(* than 8k still has k characters (trailing zero characters are kept).     *)
(***************************************************************************)
ByteBits(c) == [i \in 1..8 |-> (c \div Pow2(i - 1)) % 2]
BitsByte(b) == LET RECURSIVE V(_)
                   V(i) == IF i > 8 THEN 0 ELSE b[i] * Pow2(i - 1) + V(i + 1)
               IN V(1)
StrWires(chars) == Concat([i \in 1..Len(chars) |-> ByteBits(chars[i])])
StrChars(bits) == [i \in 1..(Len(bits) \div 8) |-> BitsByte(SubSeq(bits, 8 * (i - 1) + 1, 8 * i))]
StrCases == UNION {[1..k -> {0, 1, 65, 128, 255}] : k \in 0..2}
StringsRoundTrip == \A cs \in StrCases : StrChars(StrWires(cs)) = cs /\ Len(StrWires(cs)) = 8 * Len(cs)

Safety == TotalBits /\ RoundTrip /\ NonInterference /\ NumbersAgree /\ SizesSuffice /\ StringsRoundTrip
=============================================================================
