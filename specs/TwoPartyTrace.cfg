SPECIFICATION TraceSpec
CONSTANTS
  NIn = 2
  MaxGates = 100
  Ops = {"XOR", "XNOR", "AND", "OR", "INV"}
  FreeS = FALSE
  MaxFaults = 0
  Deviating = FALSE
  RangeRule = "exact"
CONSTRAINT HighWater
INVARIANT TwoPartyOK
INVARIANT Secrecy
POSTCONDITION TraceAccepted
CHECK_DEADLOCK FALSE
