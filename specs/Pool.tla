-------------------------------- MODULE Pool --------------------------------
(***************************************************************************)
(* circuit/garble.go: the lazily created per-circuit sync.Pool of garbling *)
(* scratch buffers (garbleScratchPool), Circuit.Garble and                 *)
(* Garbled.Release, run by several goroutines on ONE shared circuit.       *)
(*                                                                         *)
(* One action per atomic step of the code:                                 *)
(*   Load, Build+CAS, ReLoad        - garbleScratchPool                    *)
(*   Get, FillBegin, FillEnd        - Garble (the fill is not atomic)      *)
(*   Release                        - Put, then forget the scratch         *)
(*   Drop                           - the runtime may empty a sync.Pool    *)
(* Constants select the as-coded behaviour or a deviation (used as        *)
(* vacuity guards: each deviation must violate an invariant):              *)
(*   UseCAS         TRUE: CompareAndSwap(nil,p); FALSE: Store(p)           *)
(*   ReleaseClears  TRUE: Release forgets the scratch (second call no-op)  *)
(*   PutOnReturn    TRUE: Garble also returns the scratch to the pool      *)
(*   FailPuts       number of Puts on Garble's error paths (the randomness *)
(*                  source fails after Get): 1 as coded, 2 is the deviation*)
(*                  "deferred Put plus one leftover explicit Put"          *)
(*   UseAfterRelease  FALSE as coded: a holder (circuit.Garbler decoding   *)
(*                  the result labels, Eval) reads its garbling only while *)
(*                  it has not released it; TRUE is the deviation "release *)
(*                  the scratch early and keep a slice of it"              *)
(***************************************************************************)
EXTENDS Integers, Sequences, FiniteSets, TLC

CONSTANTS Procs, MaxOps, UseCAS, ReleaseClears, PutOnReturn, FailPuts, UseAfterRelease

VARIABLES poolPtr,   \* 0 = nil, else pool id
          pooled,    \* pool id -> bag of buffers: buffer -> count
          npools, nbufs, nhandles,
          pc,        \* per goroutine
          lp,        \* pool the goroutine will use
          cur,       \* handle being created / buffer obtained
          handles,   \* handle id -> [buf, pool, held]  held: the handle still references its scratch
          live,      \* handles handed to the caller and not yet released by it
          writing,   \* buffer -> set of handles currently filling it
          content,   \* buffer -> handle whose garbling it holds
          ops,       \* operations started per goroutine
          bad        \* a live garbling was overwritten / a buffer written by two fills at once

vars == <<poolPtr, pooled, npools, nbufs, nhandles, pc, lp, cur, handles, live, writing, content, ops, bad>>

Init == /\ poolPtr = 0 /\ pooled = <<>> /\ npools = 0 /\ nbufs = 0 /\ nhandles = 0
        /\ pc = [p \in Procs |-> "idle"] /\ lp = [p \in Procs |-> 0] /\ cur = [p \in Procs |-> 0]
        /\ handles = <<>> /\ live = {} /\ writing = <<>> /\ content = <<>>
        /\ ops = [p \in Procs |-> 0] /\ bad = "no"

BagAdd(b, x) == IF x \in DOMAIN b THEN [b EXCEPT ![x] = @ + 1] ELSE b @@ (x :> 1)
BagDel(b, x) == [b EXCEPT ![x] = @ - 1]
InBag(b) == {x \in DOMAIN b : b[x] > 0}

\* ---- garbleScratchPool
StartGarble(p) == /\ pc[p] = "idle" /\ ops[p] < MaxOps
                  /\ ops' = [ops EXCEPT ![p] = @ + 1]
                  /\ pc' = [pc EXCEPT ![p] = "load"]
                  /\ UNCHANGED <<poolPtr, pooled, npools, nbufs, nhandles, lp, cur, handles, live, writing, content, bad>>

Load(p) == /\ pc[p] = "load"
           /\ IF poolPtr # 0
              THEN lp' = [lp EXCEPT ![p] = poolPtr] /\ pc' = [pc EXCEPT ![p] = "get"]
              ELSE lp' = lp /\ pc' = [pc EXCEPT ![p] = "cas"]
           /\ UNCHANGED <<poolPtr, pooled, npools, nbufs, nhandles, cur, handles, live, writing, content, ops, bad>>

\* build a pool and publish it
Cas(p) == /\ pc[p] = "cas"
          /\ npools' = npools + 1
          /\ pooled' = pooled @@ (npools' :> <<>>)
          /\ IF UseCAS
             THEN IF poolPtr = 0
                  THEN poolPtr' = npools' /\ lp' = [lp EXCEPT ![p] = npools']
                  ELSE poolPtr' = poolPtr /\ lp' = [lp EXCEPT ![p] = poolPtr]      \* lost the race: re-Load
             ELSE poolPtr' = npools' /\ lp' = [lp EXCEPT ![p] = npools']           \* Store: last writer wins
          /\ pc' = [pc EXCEPT ![p] = "get"]
          /\ UNCHANGED <<nbufs, nhandles, cur, handles, live, writing, content, ops, bad>>

\* pool.Get(): any pooled buffer, or a new one (sync.Pool may always fall back to New)
Get(p) == /\ pc[p] = "get"
          /\ \/ \E b \in InBag(pooled[lp[p]]) :
                  /\ pooled' = [pooled EXCEPT ![lp[p]] = BagDel(@, b)]
                  /\ cur' = [cur EXCEPT ![p] = b] /\ nbufs' = nbufs
             \/ /\ nbufs' = nbufs + 1 /\ cur' = [cur EXCEPT ![p] = nbufs'] /\ pooled' = pooled
          /\ pc' = [pc EXCEPT ![p] = "fill"]
          /\ UNCHANGED <<poolPtr, npools, nhandles, lp, handles, live, writing, content, ops, bad>>

\* Garble fails after Get (io error while drawing R or the input labels): the scratch goes back to the pool
RECURSIVE BagAddN(_, _, _)
BagAddN(b, x, n) == IF n = 0 THEN b ELSE BagAddN(BagAdd(b, x), x, n - 1)
GarbleFails(p) ==
    /\ pc[p] = "fill"
    /\ pooled' = [pooled EXCEPT ![lp[p]] = BagAddN(@, cur[p], FailPuts)]
    /\ pc' = [pc EXCEPT ![p] = "idle"]
    /\ UNCHANGED <<poolPtr, npools, nbufs, nhandles, lp, cur, handles, live, writing, content, ops, bad>>

WritersOf(b) == IF b \in DOMAIN writing THEN writing[b] ELSE {}

FillBegin(p) ==
    /\ pc[p] = "fill"
    /\ nhandles' = nhandles + 1
    /\ LET b == cur[p] h == nhandles' IN
       /\ writing' = [x \in DOMAIN writing \cup {b} |-> IF x = b THEN WritersOf(b) \cup {h} ELSE writing[x]]
       /\ handles' = handles @@ (h :> [buf |-> b, pool |-> lp[p], held |-> TRUE, proc |-> p])
       \* overwriting a buffer that a live garbling still uses, or that someone else is filling
       /\ bad' = IF \E h2 \in live : handles[h2].buf = b /\ handles[h2].held THEN "live-garbling-overwritten"
                 ELSE IF WritersOf(b) # {} THEN "concurrent-fill" ELSE bad
       /\ content' = [x \in DOMAIN content \cup {b} |-> IF x = b THEN h ELSE content[x]]
    /\ pc' = [pc EXCEPT ![p] = "fillend"]
    /\ UNCHANGED <<poolPtr, pooled, npools, nbufs, lp, cur, live, ops>>

FillEnd(p) ==
    /\ pc[p] = "fillend"
    /\ LET h == CHOOSE h \in DOMAIN handles : handles[h].proc = p /\ h \in WritersOf(cur[p]) IN
       /\ writing' = [writing EXCEPT ![cur[p]] = @ \ {h}]
       /\ live' = live \cup {h}
       /\ pooled' = IF PutOnReturn THEN [pooled EXCEPT ![lp[p]] = BagAdd(@, cur[p])] ELSE pooled
    /\ pc' = [pc EXCEPT ![p] = "idle"]
    /\ UNCHANGED <<poolPtr, npools, nbufs, nhandles, lp, cur, handles, content, ops, bad>>

\* Garbled.Release by the goroutine that made the garbling; calling it again is allowed
Release(p) ==
    /\ pc[p] = "idle" /\ ops[p] < MaxOps
    /\ \E h \in DOMAIN handles :
         /\ handles[h].proc = p
         /\ ops' = [ops EXCEPT ![p] = @ + 1]
         /\ live' = live \ {h}
         /\ IF handles[h].held
            THEN /\ pooled' = [pooled EXCEPT ![handles[h].pool] = BagAdd(@, handles[h].buf)]
                 /\ handles' = IF ReleaseClears THEN [handles EXCEPT ![h].held = FALSE] ELSE handles
            ELSE UNCHANGED <<pooled, handles>>
    /\ UNCHANGED <<poolPtr, npools, nbufs, nhandles, pc, lp, cur, writing, content, bad>>

\* the holder reads its garbling: the session decodes the result labels against its output wires, Eval reads the
\* tables.  What it reads must be its own garbling, complete.
Use(p) ==
    /\ pc[p] = "idle"
    /\ \E h \in DOMAIN handles :
         /\ handles[h].proc = p
         /\ h \in live \/ (UseAfterRelease /\ h \notin WritersOf(handles[h].buf))
         /\ bad' = IF content[handles[h].buf] # h \/ WritersOf(handles[h].buf) # {} THEN "stale-use" ELSE bad
    /\ UNCHANGED <<poolPtr, pooled, npools, nbufs, nhandles, pc, lp, cur, handles, live, writing, content, ops>>

\* the runtime drops pooled buffers at any time
Drop == /\ \E q \in DOMAIN pooled : \E b \in InBag(pooled[q]) :
             pooled' = [pooled EXCEPT ![q] = BagDel(@, b)]
        /\ UNCHANGED <<poolPtr, npools, nbufs, nhandles, pc, lp, cur, handles, live, writing, content, ops, bad>>

Next == Drop \/ \E p \in Procs : StartGarble(p) \/ Load(p) \/ Cas(p) \/ Get(p) \/ GarbleFails(p) \/ FillBegin(p) \/ FillEnd(p) \/ Release(p) \/ Use(p)
Spec == Init /\ [][Next]_vars

(***************************************************************************)
(* Properties                                                              *)
(***************************************************************************)
\* a garbling stays valid until it is released: its buffer holds its own labels
StableUntilRelease == \A h \in live : content[handles[h].buf] = h
\* a buffer is used by at most one live garbling and is not in the pool while used
Exclusive == /\ \A h1 \in live : \A h2 \in live : handles[h1].buf = handles[h2].buf => h1 = h2
             /\ \A h \in live : \A q \in DOMAIN pooled : handles[h].buf \notin InBag(pooled[q])
\* no buffer is ever in a pool twice (the next two Gets would share it)
NoDoublePut == \A q \in DOMAIN pooled : \A b \in DOMAIN pooled[q] : pooled[q][b] <= 1
NoOverwrite == bad = "no"
\* once published the pool pointer never changes: every goroutine uses the same pool
OnePool == \A p \in Procs : (pc[p] \in {"get", "fill", "fillend"} /\ lp[p] # 0 /\ UseCAS) => lp[p] = poolPtr
Safety == StableUntilRelease /\ Exclusive /\ NoDoublePut /\ NoOverwrite /\ OnePool
=============================================================================
