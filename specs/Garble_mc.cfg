SPECIFICATION Spec
CONSTANTS
  NIn = 2
  MaxGates = 1
  Ops = {"XOR", "XNOR", "AND", "OR", "INV"}
  FreeS = TRUE
INVARIANT Safety
CHECK_DEADLOCK FALSE
