SPECIFICATION Spec
CONSTANTS
  KB = 3
  Rows = 2
  PadRows = 1
  CheckBothHalves = TRUE
INVARIANT Safety
CHECK_DEADLOCK FALSE
