SPECIFICATION GSpec
CONSTANTS
  Progs = {"mul"}
  SizeIds = {"s16", "s32", "s64"}
  ValIds = {"default"}
  MaxOps = 5
  Procs = {1, 2, 3}
  Orders = {1}
  LeakMemo = FALSE
  LeakCache = FALSE
  LeakOrder = FALSE
  LeakScratch = FALSE
CONSTRAINT Emit
CHECK_DEADLOCK FALSE
