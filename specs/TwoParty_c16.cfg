SPECIFICATION PSpec
CONSTANTS
  NIn = 2
  MaxGates = 1
  Ops = {"XOR", "XNOR", "AND", "OR", "INV"}
  FreeS = TRUE
  MaxFaults = 1
  Deviating = FALSE
  RangeRule = "exact"
INVARIANT NeverWrong
INVARIANT Secrecy
CHECK_DEADLOCK FALSE
