SPECIFICATION Spec
CONSTRAINT Emit
POSTCONDITION Accepted
CHECK_DEADLOCK FALSE
