------------------------------- MODULE IOEncGen -------------------------------
(* prints cases of IOEnc.tla (members, values, wires) for the C13 harness: a case is closed when it has *)
(* the number of members drawn at the start, so that a simulated behaviour yields exactly one case.     *)
EXTENDS IOEnc, Json
VARIABLES target, closed
GInit == Init /\ target \in 1..MaxMembers /\ closed = FALSE
GNext == \/ Len(ts) < target /\ AddMember /\ UNCHANGED <<target, closed>>
         \/ Len(ts) = target /\ ~closed /\ closed' = TRUE /\ UNCHANGED <<ts, vs, target>>
GSpec == GInit /\ [][GNext]_<<vars, target, closed>>
Emit == closed => PrintT(<<"VHCASE", ToJson([ts |-> ts, vs |-> vs, wires |-> Wires(ts, vs)])>>)
=============================================================================
