------------------------------ MODULE MeshGen ------------------------------
(* Generator: behaviours of Mesh as action sequences that the Go harness   *)
(* replays on real p2p.Create/Join/Connect through the `verif` gates.      *)
EXTENDS Mesh, Json

VARIABLE hist
E(p, act, a, b) == [p |-> p, act |-> act, a |-> a, b |-> b]
Rec(e) == hist' = Append(hist, e)

GenNext ==
    \/ Create /\ Rec(E(0, "Create", 0, 0))
    \/ LStart /\ Rec(E(0, "LStart", 0, 0))
    \/ SendList /\ Rec(E(0, "SendList", Cardinality(peers[0]), 0))
    \/ \E p \in Party : \E c \in ConnIx : Wait(p, c) /\ Rec(E(p, "Wait", c, 0))
    \/ \E j \in Joiner :
         \/ Join(j) /\ Rec(E(j, "Join", 0, 0))
         \/ Hello(j) /\ Rec(E(j, "Hello", 0, 0))
         \/ RecvList(j) /\ Rec(E(j, "RecvList", 0, 0))
         \/ Dial(j) /\ Rec(E(j, "Dial", DialTarget(j), pc[j][2]))
    \/ \E p \in Party :
         \/ Accept(p) /\ Rec(E(p, "Accept", 0, 0))
         \/ ReadHello(p) /\ Rec(E(p, "ReadHello", 0, 0))
         \/ AFirst(p) /\ Rec(E(p, "AFirst", acur[p][1], acur[p][3]))
         \/ ASecond(p) /\ Rec(E(p, "ASecond", acur[p][1], acur[p][3]))

GenInit == Init /\ hist = <<>>
GenSpec == GenInit /\ [][GenNext]_<<vars, hist>>

Quiet == AllReturned /\ \A p \in Party : apc[p] = "accept.pre" /\ backlog[p] = <<>>
Emit == Quiet => PrintT(<<"VHCASE", ToJson([n |-> N, c |-> C, acts |-> hist])>>)
=============================================================================
