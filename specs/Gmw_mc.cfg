SPECIFICATION Spec
CONSTANT P = 2
INVARIANT Safety
CHECK_DEADLOCK FALSE
