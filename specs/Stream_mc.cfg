SPECIFICATION Spec
CONSTANTS
  MaxSteps = 3
  Sizes = {1, 2}
  StepKinds = {"arith", "alias", "concat"}
  TrackedOps = {"alias", "concat"}
  Transitive = TRUE
INVARIANT Safety
CHECK_DEADLOCK FALSE
