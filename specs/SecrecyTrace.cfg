SPECIFICATION Spec
INVARIANT Secrecy
POSTCONDITION Accepted
CHECK_DEADLOCK FALSE
