SPECIFICATION Spec
CONSTRAINT Verdict
POSTCONDITION Accepted
CHECK_DEADLOCK FALSE
