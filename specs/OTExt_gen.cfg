SPECIFICATION GenSpec
CONSTANTS
  K = 2
  RPB = 2
  BPW = 2
  ChunkRows = 8
  MaxN = 1
  MaxBatches = 1
  BitsTailApplied = TRUE
  SendBitsAllCols = TRUE
  ClearChoiceBuf = TRUE
  GenSizes = {1, 7, 8, 9, 63, 64, 65, 127, 128, 129, 130, 200, 511, 512, 513, 1000, 1023, 1024, 1025, 1536, 2049}
  GenModes = {"labels", "bits", "labelsm"}
  GenLen = 1
  RealChunkRows = 512
CONSTRAINT Emit
CHECK_DEADLOCK FALSE
