----------------------------- MODULE StreamWire -----------------------------
(***************************************************************************)
(* Streaming mode, wire-protocol layer: what circuit/stream_garble.go      *)
(* (Streaming.Garble, garbleGate) puts on the connection for one streamed  *)
(* circuit and how circuit/stream_evaluator.go (StreamEvaluator, StreamEval)*)
(* reads it back.                                                           *)
(*                                                                         *)
(* The garbler streams a sequence of circuits.  A circuit has NumWires     *)
(* local wires: the first Len(in) are mapped to the permanent wire ids     *)
(* in[..], the last Len(out) to the permanent ids out[..], the ones in     *)
(* between are temporaries that live in a per-circuit array.  For every    *)
(* gate the garbler sends an op byte (operator, three "is temporary"       *)
(* flags, one "16-bit ids" flag), two or three wire indices and 0..3 table *)
(* rows.  The evaluator keeps a paged store of permanent labels that grows *)
(* to the declared size (maxID+1) and a temporary array that grows to the  *)
(* declared NumWires and is NOT cleared between circuits.                  *)
(*                                                                         *)
(* Labels are abstracted to tokens: <<0, id>> for a program input,         *)
(* <<k, w>> for the output of the gate writing local wire w of the k-th    *)
(* circuit.  The evaluator is right when every gate reads the tokens the   *)
(* garbler read.                                                            *)
(*                                                                         *)
(* Page is the scaled 0x10000: ids < Page fit the short encoding and the   *)
(* permanent store grows in pages of that size.                             *)
(***************************************************************************)
EXTENDS Integers, Sequences, FiniteSets, TLC

CONSTANTS Page, IdSet, Ops, MaxGates, MaxCircs, NIn,
          FlagRule,   \* "abc" (as coded: short ids iff a, b and c fit) | "ac" (deviation)
          DeclRule    \* "numwires" (as coded: the temporary array is sized by the circuit's NumWires, because
                      \* temporaries are indexed by their local wire number) | "tmpcount" (deviation: sized by
                      \* the number of temporaries)

VARIABLES circs, cur, phase, k, g, open, gperm, gtmp, eperm, etmp, epages, etcap, bad

vars == <<circs, cur, phase, k, g, open, gperm, gtmp, eperm, etmp, epages, etcap, bad>>

None == <<-1, -1>>
NoCirc == [in |-> <<>>, out |-> <<>>, ntmp |-> 0, gates |-> <<>>]
Rows(op) == CASE op = "AND" -> 2 [] op = "OR" -> 3 [] op = "INV" -> 1 [] OTHER -> 0
Max(S) == CHOOSE x \in S : \A y \in S : y <= x
SeqSet(s) == {s[i] : i \in 1..Len(s)}

NumWires(c) == Len(c.in) + c.ntmp + Len(c.out)
FirstTmp(c) == Len(c.in)
FirstOut(c) == NumWires(c) - Len(c.out)

(***************************************************************************)
(* Streaming.Get / Set: classification of a local wire                     *)
(***************************************************************************)
Cls(c, w) == IF w < FirstTmp(c) THEN [idx |-> c.in[w + 1], tmp |-> FALSE]
             ELSE IF w >= FirstOut(c) THEN [idx |-> c.out[w - FirstOut(c) + 1], tmp |-> FALSE]
             ELSE [idx |-> w, tmp |-> TRUE]

(***************************************************************************)
(* garbleGate: the message for one gate                                    *)
(***************************************************************************)
Enc(c, gt) ==
    LET a == Cls(c, gt.i0)
        b == IF gt.op = "INV" THEN [idx |-> 0, tmp |-> FALSE] ELSE Cls(c, gt.i1)
        o == Cls(c, gt.o)
        short == IF FlagRule = "abc" THEN a.idx < Page /\ b.idx < Page /\ o.idx < Page
                 ELSE a.idx < Page /\ o.idx < Page
        F(x) == IF short THEN x % Page ELSE x      \* PutUint16 keeps the low 16 bits
    IN [op |-> gt.op, aT |-> a.tmp, bT |-> b.tmp, cT |-> o.tmp, short |-> short,
        a |-> F(a.idx), b |-> F(b.idx), c |-> F(o.idx), rows |-> Rows(gt.op)]

\* prog.garble: what is declared before the gates
Declared(c) == LET m == Max(SeqSet(c.in) \cup SeqSet(c.out))
               IN [ngates |-> Len(c.gates), ntmpw |-> IF DeclRule = "numwires" THEN NumWires(c) ELSE c.ntmp,
                   nwires |-> m + 1]

(***************************************************************************)
(* well-formed circuits, as circuits.Compiler.Compile emits them           *)
(***************************************************************************)
Written(c, n) == {c.gates[j].o : j \in 1..n}
GateOK(c, j) ==
    LET gt == c.gates[j]
        avail == (0..(FirstTmp(c) - 1)) \cup Written(c, j - 1)
    IN /\ gt.i0 \in avail /\ (gt.op # "INV" => gt.i1 \in avail)
       /\ gt.o \in (FirstTmp(c)..(NumWires(c) - 1)) \ Written(c, j - 1)
CircOK(c) == /\ \A j \in 1..Len(c.gates) : GateOK(c, j)
             /\ (FirstOut(c)..(NumWires(c) - 1)) \subseteq Written(c, Len(c.gates))

Defined == {i \in DOMAIN gperm : gperm[i] # None}

Init == /\ circs = <<>> /\ cur = NoCirc /\ phase = "build" /\ k = 1 /\ g = 1 /\ open = FALSE
        /\ gperm = [i \in IdSet |-> IF i < NIn THEN <<0, i>> ELSE None]
        /\ eperm = [i \in IdSet |-> IF i < NIn THEN <<0, i>> ELSE None]
        /\ gtmp = <<>> /\ etmp = <<>>
        /\ epages = (NIn + 1) \div Page + 1     \* NewStreamEval: ensureWires(numInputs + numOutputs), one output
        /\ etcap = 0 /\ bad = {}

(***************************************************************************)
(* The program is built one circuit and one gate at a time (TLC's states   *)
(* are the programs).  A circuit's inputs are ids that hold a label when   *)
(* it runs; its output is any id (fresh or recycled) that is not among its *)
(* own inputs (the allocator never hands out a live id).                   *)
(***************************************************************************)
\* ids defined after the circuits built so far
DefAfter == (0..(NIn - 1)) \cup UNION {SeqSet(circs[j].out) : j \in 1..Len(circs)}
Building == <<phase, k, g, open, gperm, gtmp, eperm, etmp, epages, etcap, bad>>

NewCirc ==
    /\ phase = "build" /\ cur = NoCirc /\ Len(circs) < MaxCircs
    /\ \E nin \in 1..2 : \E ntmp \in 0..1 :
       \E in \in [1..nin -> DefAfter \cap IdSet] : \E o1 \in IdSet \ {in[i] : i \in 1..nin} :
          cur' = [in |-> in, out |-> <<o1>>, ntmp |-> ntmp, gates |-> <<>>]
    /\ UNCHANGED <<circs>> /\ UNCHANGED Building

AddGate ==
    /\ phase = "build" /\ cur # NoCirc /\ Len(cur.gates) < MaxGates
    /\ \E op \in Ops : \E i0 \in 0..(NumWires(cur) - 1) : \E i1 \in 0..(NumWires(cur) - 1) :
       \E o \in 0..(NumWires(cur) - 1) :
          LET c == [cur EXCEPT !.gates = Append(@, [op |-> op, i0 |-> i0, i1 |-> i1, o |-> o])]
          IN /\ GateOK(c, Len(c.gates))
             /\ (op = "INV" => i1 = 0)
             /\ cur' = c
    /\ UNCHANGED <<circs>> /\ UNCHANGED Building

CloseCirc ==
    /\ phase = "build" /\ cur # NoCirc /\ CircOK(cur) /\ Len(cur.gates) >= 1
    /\ circs' = Append(circs, cur) /\ cur' = NoCirc
    /\ UNCHANGED Building

Start == /\ phase = "build" /\ cur = NoCirc /\ Len(circs) >= 1 /\ phase' = "run"
         /\ UNCHANGED <<circs, cur, k, g, open, gperm, gtmp, eperm, etmp, epages, etcap, bad>>

(***************************************************************************)
(* Evaluator: InitCircuit(numWires = declared nwires, numTmpWires)         *)
(***************************************************************************)
PagesFor(n, p) == IF p * Page <= n THEN n \div Page + 1 ELSE p      \* ensureWires(max)

BeginCirc ==
    /\ phase = "run" /\ k <= Len(circs) /\ ~open
    /\ LET d == Declared(circs[k]) IN
         /\ epages' = PagesFor(d.nwires, epages)
         /\ etcap' = IF etcap < d.ntmpw THEN d.ntmpw ELSE etcap
         \* a reallocated temporary array is empty; otherwise it keeps the previous circuit's labels
         /\ etmp' = IF etcap < d.ntmpw THEN <<>> ELSE etmp
         /\ gtmp' = <<>>
    /\ g' = 1 /\ open' = TRUE
    /\ UNCHANGED <<circs, cur, phase, k, gperm, eperm, bad>>

Lookup(f, i) == IF i \in DOMAIN f THEN f[i] ELSE None

DoGate ==
    /\ phase = "run" /\ k <= Len(circs) /\ open /\ g <= Len(circs[k].gates)
    /\ LET c == circs[k]
           gt == c.gates[g]
           m == Enc(c, gt)
           \* the garbler's reads and write
           ga == Cls(c, gt.i0)
           gb == Cls(c, gt.i1)
           go == Cls(c, gt.o)
           gA == IF ga.tmp THEN Lookup(gtmp, ga.idx) ELSE Lookup(gperm, ga.idx)
           gB == IF gt.op = "INV" THEN None ELSE IF gb.tmp THEN Lookup(gtmp, gb.idx) ELSE Lookup(gperm, gb.idx)
           tok == <<k, gt.o>>
           \* the evaluator reads what the message says
           inCap(t, i) == IF t THEN i < etcap ELSE i < epages * Page
           eA == IF m.aT THEN Lookup(etmp, m.a) ELSE Lookup(eperm, m.a)
           eB == IF gt.op = "INV" THEN None ELSE IF m.bT THEN Lookup(etmp, m.b) ELSE Lookup(eperm, m.b)
           oob == ~inCap(m.aT, m.a) \/ (gt.op # "INV" /\ ~inCap(m.bT, m.b)) \/ ~inCap(m.cT, m.c)
       IN /\ bad' = bad \cup (IF oob THEN {"index-out-of-range"} ELSE {})
                         \cup (IF eA # gA \/ eB # gB THEN {"wrong-label"} ELSE {})
                         \cup (IF gA = None \/ (gt.op # "INV" /\ gB = None) THEN {"undefined-read"} ELSE {})
          /\ IF go.tmp THEN gtmp' = (go.idx :> tok) @@ gtmp /\ gperm' = gperm
                       ELSE gperm' = [gperm EXCEPT ![go.idx] = tok] /\ gtmp' = gtmp
          /\ IF m.cT THEN etmp' = (m.c :> tok) @@ etmp /\ eperm' = eperm
                     ELSE /\ eperm' = IF m.c \in DOMAIN eperm THEN [eperm EXCEPT ![m.c] = tok] ELSE eperm
                          /\ etmp' = etmp
    /\ g' = g + 1
    /\ UNCHANGED <<circs, cur, phase, k, open, epages, etcap>>

EndCirc ==
    /\ phase = "run" /\ k <= Len(circs) /\ open /\ g = Len(circs[k].gates) + 1
    /\ k' = k + 1 /\ g' = 1 /\ open' = FALSE
    /\ UNCHANGED <<circs, cur, phase, gperm, gtmp, eperm, etmp, epages, etcap, bad>>

Finish == /\ phase = "run" /\ k > Len(circs) /\ ~open /\ phase' = "done"
          /\ UNCHANGED <<circs, cur, k, g, open, gperm, gtmp, eperm, etmp, epages, etcap, bad>>

Next == NewCirc \/ AddGate \/ CloseCirc \/ Start \/ BeginCirc \/ DoGate \/ EndCirc \/ Finish
Spec == Init /\ [][Next]_vars

(***************************************************************************)
(* Properties                                                              *)
(***************************************************************************)
\* the evaluator evaluates every gate on the labels the garbler garbled it with
Agree == "wrong-label" \notin bad
\* no index beyond the store sizes the evaluator derived from the declarations (a Go panic)
InRange == "index-out-of-range" \notin bad
\* well-formed programs never read a wire that holds no label
NoUndefined == "undefined-read" \notin bad
\* after every gate the two permanent stores agree
StoresAgree == \A i \in IdSet : gperm[i] = eperm[i]
Safety == Agree /\ InRange /\ NoUndefined /\ StoresAgree
=============================================================================
