------------------------------- MODULE Conn -------------------------------
(***************************************************************************)
(* p2p.Conn (p2p/protocol.go): one direction of a connection.             *)
(*                                                                         *)
(* Bytes are abstracted to their position in the sender's byte stream, so *)
(* all state is integers: the same module is model checked with tiny      *)
(* buffers (Conn_mc.cfg), used as a behaviour generator with the real     *)
(* buffer sizes (Conn_gen.cfg) and re-used by the trace spec ConnTrace.    *)
(*                                                                         *)
(* One action per critical section of protocol.go:                        *)
(*   sender  : SBegin, SFixed, SData, SFlushHandoff, SFlushTake, SEnd      *)
(*   writer  : WTake, WWrite (conn.Write + return of the buffer)           *)
(*   receiver: RBegin, RFixed, RFillStart, RFillRead, RData, REnd          *)
(***************************************************************************)
EXTENDS Integers, Sequences, FiniteSets, TLC

CONSTANTS WBuf,      \* writeBufSize
          RBuf,      \* readBufSize
          NBufs,     \* numBuffers
          Lens,      \* payload lengths of SendData
          MaxOps     \* number of typed sends in a behaviour

Kinds == {"byte", "u16", "u32", "label", "data", "sizes", "flush"}
Fixed(k) == CASE k = "byte" -> 1 [] k = "u16" -> 2 [] k = "u32" -> 4
              [] k = "label" -> 16 [] k = "data" -> 4 [] k = "sizes" -> 4
              [] k = "flush" -> 0
MsgSize(k, n) == Fixed(k) + (IF k = "sizes" THEN 4 * n ELSE n)

Min(a, b) == IF a < b THEN a ELSE b

None == [buf |-> 0, lo |-> 0, hi |-> 0]

VARIABLES
    \* ---- sender (caller goroutine)
    sop,        \* [k, len, hdr, rem, ph]  ph \in {"idle","hdr","data","handoff","take","end"}
    sret,       \* phase to return to after a flush
    wpos,       \* Conn.WritePos
    cur,        \* id of the buffer the caller owns (Conn.WriteBuf)
    produced,   \* bytes accepted from the caller so far
    sentStat,   \* Stats.Sent
    flushedStat,\* Stats.Flushed
    nops,       \* typed sends started
    closing,    \* Close() called: "no" | "flush" | "drain" | "done"
    \* ---- channels and writer goroutine
    toW,        \* toWriter:   sequence of [buf, lo, hi]
    fromW,      \* fromWriter: sequence of buffer ids
    writing,    \* range the writer goroutine holds, or None
    wire,       \* bytes the transport has accepted
    gap,        \* TRUE iff a Write ever started at a position # wire
    clobber,    \* TRUE iff the caller ever wrote into a buffer it did not own
    \* ---- receiver
    rop,        \* [k, len, rem, ph, need]  ph \in {"idle","hdr","fill","data","end"}
    rret,
    rbase,      \* stream position of ReadBuf[0]
    rstart, rend, recvdStat,
    consumed,   \* stream position of the next byte handed to a typed receive
    misframed,  \* TRUE iff a receive ever consumed bytes that are not its message
    \* ---- ghost
    msgs        \* typed messages sent and not yet received: [k, len, pos]

svars == <<sop, sret, wpos, cur, produced, sentStat, flushedStat, nops, closing>>
wvars == <<toW, fromW, writing, wire, gap, clobber>>
rvars == <<rop, rret, rbase, rstart, rend, recvdStat, consumed, misframed>>
vars  == <<svars, wvars, rvars, msgs>>

IdleS == [k |-> "none", len |-> 0, hdr |-> 0, rem |-> 0, ph |-> "idle"]
IdleR == [k |-> "none", len |-> 0, rem |-> 0, ph |-> "idle", need |-> 0]

Init ==
    /\ sop = IdleS /\ sret = "idle" /\ wpos = 0 /\ cur = 1 /\ produced = 0
    /\ sentStat = 0 /\ flushedStat = 0 /\ nops = 0 /\ closing = "no"
    /\ toW = <<>> /\ fromW = [i \in 1..(NBufs-1) |-> i + 1] /\ writing = None
    /\ wire = 0 /\ gap = FALSE /\ clobber = FALSE
    /\ rop = IdleR /\ rret = "idle" /\ rbase = 0 /\ rstart = 0 /\ rend = 0
    /\ recvdStat = 0 /\ consumed = 0 /\ misframed = FALSE
    /\ msgs = <<>>

(***************************************************************************)
(* Sender                                                                  *)
(***************************************************************************)
HeldByWriter == {toW[i].buf : i \in 1..Len(toW)} \cup {fromW[i] : i \in 1..Len(fromW)}
                  \cup (IF writing = None THEN {} ELSE {writing.buf})

SBegin(k, n) ==
    /\ sop.ph = "idle" /\ closing = "no" /\ nops < MaxOps
    /\ nops' = nops + 1
    /\ sop' = [k |-> k, len |-> n, hdr |-> Fixed(k), rem |-> n,
               ph |-> IF k = "flush" THEN "handoff" ELSE "hdr"]
    /\ sret' = IF k = "flush" THEN "end" ELSE sret
    /\ msgs' = IF k = "flush" THEN msgs
               ELSE Append(msgs, [k |-> k, len |-> n, pos |-> produced])
    /\ UNCHANGED <<wpos, cur, produced, sentStat, flushedStat, closing, wvars, rvars>>

\* fixed-size part: `if c.WritePos+k > len(c.WriteBuf) { Flush }`, then write k bytes
SFixed ==
    /\ sop.ph = "hdr"
    /\ IF wpos + sop.hdr > WBuf
       THEN /\ sop' = [sop EXCEPT !.ph = "handoff"] /\ sret' = "hdr"
            /\ UNCHANGED <<wpos, produced, clobber>>
       ELSE /\ wpos' = wpos + sop.hdr /\ produced' = produced + sop.hdr
            /\ clobber' = (clobber \/ cur \in HeldByWriter)
            /\ sop' = [sop EXCEPT !.hdr = 0,
                          !.ph = IF sop.k = "data" THEN "data"
                                ELSE IF sop.k = "sizes" THEN "items" ELSE "end"]
            /\ UNCHANGED sret
    /\ UNCHANGED <<cur, sentStat, flushedStat, nops, closing, toW, fromW, writing,
                   wire, gap, rvars, msgs>>

\* the copy loop of SendData: `if c.WritePos >= len(c.WriteBuf) { Flush }`; copy
SData ==
    /\ sop.ph = "data"
    /\ IF sop.rem = 0
       THEN sop' = [sop EXCEPT !.ph = "end"] /\ UNCHANGED <<sret, wpos, produced, clobber>>
       ELSE IF wpos >= WBuf
            THEN /\ sop' = [sop EXCEPT !.ph = "handoff"] /\ sret' = "data"
                 /\ UNCHANGED <<wpos, produced, clobber>>
            ELSE LET n == Min(WBuf - wpos, sop.rem) IN
                 /\ wpos' = wpos + n /\ produced' = produced + n
                 /\ clobber' = (clobber \/ cur \in HeldByWriter)
                 /\ sop' = [sop EXCEPT !.rem = sop.rem - n]
                 /\ UNCHANGED sret
    /\ UNCHANGED <<cur, sentStat, flushedStat, nops, closing, toW, fromW, writing,
                   wire, gap, rvars, msgs>>

\* SendInputSizes: one SendUint32 per element
SItems ==
    /\ sop.ph = "items"
    /\ IF sop.rem = 0
       THEN sop' = [sop EXCEPT !.ph = "end"] /\ UNCHANGED <<sret, wpos, produced, clobber>>
       ELSE IF wpos + 4 > WBuf
            THEN /\ sop' = [sop EXCEPT !.ph = "handoff"] /\ sret' = "items"
                 /\ UNCHANGED <<wpos, produced, clobber>>
            ELSE /\ wpos' = wpos + 4 /\ produced' = produced + 4
                 /\ clobber' = (clobber \/ cur \in HeldByWriter)
                 /\ sop' = [sop EXCEPT !.rem = sop.rem - 1]
                 /\ UNCHANGED sret
    /\ UNCHANGED <<cur, sentStat, flushedStat, nops, closing, toW, fromW, writing,
                   wire, gap, rvars, msgs>>

\* Flush, first half: `Stats.Sent.Add(WritePos); toWriter <- WriteBuf[0:WritePos]`
SFlushHandoff ==
    /\ sop.ph = "handoff"
    /\ IF wpos = 0
       THEN /\ sop' = [sop EXCEPT !.ph = sret]
            /\ UNCHANGED <<sentStat, toW>>
       ELSE /\ Len(toW) < NBufs
            /\ sentStat' = sentStat + wpos
            /\ toW' = Append(toW, [buf |-> cur, lo |-> produced - wpos, hi |-> produced])
            /\ sop' = [sop EXCEPT !.ph = "take"]
    /\ UNCHANGED <<sret, wpos, cur, produced, flushedStat, nops, closing, fromW,
                   writing, wire, gap, clobber, rvars, msgs>>

\* Flush, second half: `next := <-fromWriter; WriteBuf = next; WritePos = 0; Flushed++`
SFlushTake ==
    /\ sop.ph = "take"
    /\ fromW # <<>>
    /\ cur' = Head(fromW) /\ fromW' = Tail(fromW)
    /\ wpos' = 0 /\ flushedStat' = flushedStat + 1
    /\ sop' = [sop EXCEPT !.ph = sret]
    /\ UNCHANGED <<sret, produced, sentStat, nops, closing, toW, writing, wire, gap,
                   clobber, rvars, msgs>>

SEnd ==
    /\ sop.ph = "end"
    /\ sop' = IdleS
    /\ closing' = IF closing = "flush" THEN "drain" ELSE closing
    /\ UNCHANGED <<sret, wpos, cur, produced, sentStat, flushedStat, nops, wvars, rvars, msgs>>

\* Close(): Flush, close(toWriter), drain fromWriter
SClose ==
    /\ sop.ph = "idle" /\ closing = "no"
    /\ closing' = "flush"
    /\ sop' = [k |-> "flush", len |-> 0, hdr |-> 0, rem |-> 0, ph |-> "handoff"]
    /\ sret' = "end"
    /\ UNCHANGED <<wpos, cur, produced, sentStat, flushedStat, nops, wvars, rvars, msgs>>

SCloseDone ==
    /\ closing = "drain" /\ toW = <<>> /\ writing = None
    /\ closing' = "done"
    /\ UNCHANGED <<sop, sret, wpos, cur, produced, sentStat, flushedStat, nops, wvars, rvars, msgs>>

(***************************************************************************)
(* Writer goroutine                                                        *)
(***************************************************************************)
WTake ==
    /\ writing = None /\ toW # <<>>
    /\ writing' = Head(toW) /\ toW' = Tail(toW)
    /\ UNCHANGED <<svars, fromW, wire, gap, clobber, rvars, msgs>>

WWrite ==
    /\ writing # None
    /\ Len(fromW) < NBufs
    /\ gap' = (gap \/ writing.lo # wire)
    /\ wire' = wire + (writing.hi - writing.lo)
    /\ fromW' = Append(fromW, writing.buf)
    /\ writing' = None
    /\ UNCHANGED <<svars, toW, clobber, rvars, msgs>>

(***************************************************************************)
(* Receiver                                                                *)
(***************************************************************************)
Frags(maxn) == 1..maxn      \* overridden by the generator configuration

RBeginK(k, n) ==
    /\ rop.ph = "idle"
    /\ rop' = [k |-> k, len |-> n, rem |-> 0, ph |-> "hdr", need |-> Fixed(k)]
    /\ UNCHANGED <<svars, wvars, rret, rbase, rstart, rend, recvdStat, consumed,
                   misframed, msgs>>

\* the receiver calls the matching sequence of typed receives
RBegin == msgs # <<>> /\ RBeginK(Head(msgs).k, Head(msgs).len)

\* `if c.ReadStart+k > c.ReadEnd { Fill(k) }`; consume k bytes
RFixed ==
    /\ rop.ph = "hdr"
    /\ IF rstart + rop.need > rend
       THEN /\ rop' = [rop EXCEPT !.ph = "fill"] /\ rret' = "hdr"
            /\ UNCHANGED <<rstart, consumed, misframed>>
       ELSE /\ rstart' = rstart + rop.need
            /\ consumed' = consumed + rop.need
            /\ misframed' = (misframed \/ rbase + rstart # Head(msgs).pos
                                       \/ consumed # Head(msgs).pos)
            \* the length field read from the stream is that of the message
            \* whose header sits at this position
            /\ rop' = [rop EXCEPT !.rem = rop.len,
                           !.ph = IF rop.k = "data" THEN "data"
                                ELSE IF rop.k = "sizes" THEN "items" ELSE "end"]
            /\ UNCHANGED rret
    /\ UNCHANGED <<svars, wvars, rbase, rend, recvdStat, msgs>>

\* Fill(n), compaction part
RFillStart ==
    /\ rop.ph = "fill"
    /\ rbase' = rbase + (IF rstart < rend THEN rstart ELSE rend)
    /\ rend' = IF rstart < rend THEN rend - rstart ELSE 0
    /\ rstart' = 0
    /\ rop' = [rop EXCEPT !.ph = "read"]
    /\ UNCHANGED <<svars, wvars, rret, recvdStat, consumed, misframed, msgs>>

\* Fill(n), read loop: one conn.Read returning n bytes
RFillDone ==
    /\ rop.ph = "read" /\ rstart + rop.need <= rend
    /\ rop' = [rop EXCEPT !.ph = rret]
    /\ UNCHANGED <<svars, wvars, rret, rbase, rstart, rend, recvdStat, consumed, misframed, msgs>>

RFillReadN(n) ==
    /\ rop.ph = "read" /\ rstart + rop.need > rend
    /\ n >= 1 /\ n <= wire - (rbase + rend) /\ n <= RBuf - rend
    /\ rend' = rend + n /\ recvdStat' = recvdStat + n
    /\ UNCHANGED <<svars, wvars, rop, rret, rbase, rstart, consumed, misframed, msgs>>

RFillRead ==
    \/ RFillDone
    \/ /\ wire - (rbase + rend) > 0 /\ RBuf - rend > 0
       /\ \E n \in Frags(Min(wire - (rbase + rend), RBuf - rend)) : RFillReadN(n)

\* ReceiveData copy loop
RData ==
    /\ rop.ph = "data"
    /\ IF rop.rem = 0
       THEN rop' = [rop EXCEPT !.ph = "end"] /\ UNCHANGED <<rret, rstart, consumed>>
       ELSE IF rstart >= rend
            THEN /\ rop' = [rop EXCEPT !.ph = "fill", !.need = Min(rop.rem, RBuf)]
                 /\ rret' = "data"
                 /\ UNCHANGED <<rstart, consumed>>
            ELSE LET n == Min(rend - rstart, rop.rem) IN
                 /\ rstart' = rstart + n /\ consumed' = consumed + n
                 /\ rop' = [rop EXCEPT !.rem = rop.rem - n]
                 /\ UNCHANGED rret
    /\ UNCHANGED <<svars, wvars, rbase, rend, recvdStat, misframed, msgs>>

\* ReceiveInputSizes: one ReceiveUint32 per element
RItems ==
    /\ rop.ph = "items"
    /\ IF rop.rem = 0
       THEN rop' = [rop EXCEPT !.ph = "end"] /\ UNCHANGED <<rret, rstart, consumed>>
       ELSE IF rstart + 4 > rend
            THEN /\ rop' = [rop EXCEPT !.ph = "fill", !.need = 4]
                 /\ rret' = "items"
                 /\ UNCHANGED <<rstart, consumed>>
            ELSE /\ rstart' = rstart + 4 /\ consumed' = consumed + 4
                 /\ rop' = [rop EXCEPT !.rem = rop.rem - 1]
                 /\ UNCHANGED rret
    /\ UNCHANGED <<svars, wvars, rbase, rend, recvdStat, misframed, msgs>>

REnd ==
    /\ rop.ph = "end"
    /\ misframed' = (misframed \/ consumed # Head(msgs).pos + MsgSize(Head(msgs).k, Head(msgs).len))
    /\ msgs' = Tail(msgs)
    /\ rop' = IdleR
    /\ UNCHANGED <<svars, wvars, rret, rbase, rstart, rend, recvdStat, consumed>>

CONSTANT SizesLens
Sender == \/ \E k \in Kinds \ {"data", "sizes"} : SBegin(k, 0)
          \/ \E n \in Lens : SBegin("data", n)
          \/ \E n \in SizesLens : SBegin("sizes", n)
          \/ SFixed \/ SData \/ SItems \/ SFlushHandoff \/ SFlushTake \/ SEnd \/ SClose \/ SCloseDone
Writer == WTake \/ WWrite
Receiver == RBegin \/ RFixed \/ RFillStart \/ RFillRead \/ RData \/ RItems \/ REnd

Next == Sender \/ Writer \/ Receiver

Spec == Init /\ [][Next]_vars /\ WF_vars(Writer) /\ WF_vars(Receiver)
             /\ WF_vars(SFixed \/ SData \/ SItems \/ SFlushHandoff \/ SFlushTake \/ SEnd \/ SCloseDone)

(***************************************************************************)
(* Properties                                                              *)
(***************************************************************************)
TypeOK ==
    /\ wpos \in 0..WBuf /\ rstart \in 0..RBuf /\ rend \in 0..RBuf
    /\ Len(toW) <= NBufs /\ Len(fromW) <= NBufs

\* buffers reach the transport in flush order: positions 0,1,2,... no gap, no repeat
Fifo == ~gap

\* the bytes handed to the i-th typed receive are exactly the bytes of the i-th typed send
Faithful == ~misframed

\* the caller never writes a buffer the writer goroutine still holds
BufOwnership == ~clobber /\ (sop.ph # "take" => cur \notin HeldByWriter)

Window == /\ 0 <= rstart /\ rstart <= rend /\ rend <= RBuf
          /\ rbase + rend <= wire
          /\ rbase + rstart = consumed

\* byte counters equal bytes moved
Stats == /\ sentStat = produced - (IF sop.ph = "take" THEN 0 ELSE wpos)
         /\ recvdStat = rbase + rend
         /\ wire <= sentStat

\* Closing delivers everything still buffered
CloseDelivers == closing = "done" => wire = produced

Safety == TypeOK /\ Fifo /\ Faithful /\ BufOwnership /\ Window /\ Stats /\ CloseDelivers

\* everything sent is eventually received (fair writer and receiver)
EventuallyAllReceived == (closing = "done") ~> (msgs = <<>> /\ consumed = produced)
=============================================================================
