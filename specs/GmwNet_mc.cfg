SPECIFICATION Spec
CONSTANTS
  N = 3
  OfflineFirst = FALSE
  ListEarly = FALSE
INVARIANT Safety
PROPERTY Terminates
CHECK_DEADLOCK FALSE
