SPECIFICATION TraceSpec
CONSTANTS
  N = 3
  C = 2
  CountFirst = FALSE
  EarlyAccept = FALSE
  DialAnyOrder = TRUE
CONSTRAINT HighWater
INVARIANT Safety
POSTCONDITION TraceAccepted
CHECK_DEADLOCK FALSE
