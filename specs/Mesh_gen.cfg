SPECIFICATION GenSpec
CONSTANTS
  N = 3
  C = 2
  CountFirst = FALSE
CONSTRAINT Emit
CHECK_DEADLOCK FALSE
