SPECIFICATION GenSpec
CONSTANTS
  N = 3
  C = 2
  CountFirst = FALSE
  EarlyAccept = FALSE
  DialAnyOrder = FALSE
CONSTRAINT Emit
CHECK_DEADLOCK FALSE
