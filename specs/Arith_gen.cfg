SPECIFICATION Spec
CONSTANTS
  OpSet = {"add", "sub", "mul", "udiv", "umod", "idiv", "imod", "ult", "ule", "ugt", "uge", "ilt", "ile", "igt", "ige", "eq", "neq", "band", "bor", "bxor", "bclr", "hamming", "mux"}
  WMax = 3
  WzKinds = {"max", "max+1", "2max"}
CONSTRAINT Emit
INVARIANT RefSane
CHECK_DEADLOCK FALSE
