SPECIFICATION Spec
CONSTANTS
  Primes = {2, 3, 5, 7, 11}
  KL = 3
INVARIANT Safety
CHECK_DEADLOCK FALSE
