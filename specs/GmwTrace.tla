------------------------------ MODULE GmwTrace ------------------------------
(* C10 on real runs: for sampled bit positions of every AND batch, the       *)
(* shares of every party (recorded by the verif hook in andBatchFlush) must   *)
(* satisfy the relations of Gmw.tla: the consumed triple is valid, d and e    *)
(* are opened correctly, and the output shares recombine to x AND y.          *)
EXTENDS Integers, Sequences, FiniteSets, TLC, Json, TLCExt

TraceLog == ndJsonDeserialize("gmw_trace.ndjson")
VARIABLES l, bad, nbits
vars == <<l, bad, nbits>>
Ev == TraceLog[l]
Xor(x, y) == (x + y) % 2
RECURSIVE XorSeq(_)
XorSeq(s) == IF s = <<>> THEN 0 ELSE Xor(Head(s), XorSeq(Tail(s)))

Init == l = 1 /\ bad = "no" /\ nbits = 0

BitEv ==
    /\ l <= Len(TraceLog) /\ Ev.ev = "bit" /\ l' = l + 1
    /\ nbits' = nbits + 1
    /\ LET n == Ev.p
           dO == XorSeq(Ev.d)
           eO == XorSeq(Ev.e)
           zExp == [p \in 1..n |->
                      Xor(Xor(Ev.c[p], dO * Ev.b[p]), Xor(eO * Ev.a[p], IF p = 1 THEN dO * eO ELSE 0))]
       IN bad' =
            IF XorSeq(Ev.a) * XorSeq(Ev.b) # XorSeq(Ev.c) THEN "triple-invalid"
            ELSE IF \E p \in 1..n : Ev.dopen[p] # dO \/ Ev.eopen[p] # eO THEN "open-wrong"
            ELSE IF \E p \in 1..n : Ev.d[p] # Xor(Ev.x[p], Ev.a[p]) \/ Ev.e[p] # Xor(Ev.y[p], Ev.b[p]) THEN "mask-wrong"
            ELSE IF \E p \in 1..n : Ev.z[p] # zExp[p] THEN "share-formula"
            ELSE IF XorSeq(Ev.z) # XorSeq(Ev.x) * XorSeq(Ev.y) THEN "and-wrong"
            ELSE bad

Reset == /\ l <= Len(TraceLog) /\ Ev.ev = "reset" /\ l' = l + 1 /\ UNCHANGED <<bad, nbits>>
Next == BitEv \/ Reset
Spec == Init /\ [][Next]_vars

\* the property
TripleOK == bad # "triple-invalid"
AndOK == bad \notin {"and-wrong", "open-wrong"}
\* conformance to the implementation-shaped formulas of Gmw.tla (a failure here alone is model drift)
Formulas == bad \notin {"mask-wrong", "share-formula"}

Accepted == IF TLCGet("stats").diameter - 1 = Len(TraceLog) THEN TRUE
            ELSE Print(<<"VHREJECT", TLCGet("stats").diameter, 0>>, FALSE)
=============================================================================
