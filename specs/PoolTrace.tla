----------------------------- MODULE PoolTrace -----------------------------
(* C17 on real histories: which scratch buffer (address of Wires[0]) each   *)
(* garbling uses and when its owner releases it.  "garbled" is logged after *)
(* Garble returned and "release" before Release is called, so a logged      *)
(* lifetime lies inside the real one: two logged lifetimes of one buffer    *)
(* that overlap are a real double use (Pool.tla's Exclusive).               *)
EXTENDS Integers, Sequences, FiniteSets, TLC, Json, TLCExt

TraceLog == ndJsonDeserialize("pool_trace.ndjson")
VARIABLES l, live, shared
vars == <<l, live, shared>>
Ev == TraceLog[l]
Step(e) == l <= Len(TraceLog) /\ Ev.ev = e /\ l' = l + 1

Init == l = 1 /\ live = {} /\ shared = FALSE
Garbled == /\ Step("garbled")
           /\ shared' = (shared \/ \E x \in live : x[2] = Ev.buf)
           /\ live' = live \cup {<<Ev.h, Ev.buf>>}
Release == /\ Step("release")
           /\ live' = {x \in live : x[1] # Ev.h}
           /\ UNCHANGED shared
Reset == Step("reset") /\ live' = {} /\ shared' = FALSE
Next == Garbled \/ Release \/ Reset
Spec == Init /\ [][Next]_vars

Exclusive == ~shared
Accepted == IF TLCGet("stats").diameter - 1 = Len(TraceLog) THEN TRUE
            ELSE Print(<<"VHREJECT", TLCGet("stats").diameter, 0>>, FALSE)
=============================================================================
