--------------------------- MODULE TwoPartyTrace ---------------------------
(* Trace validation for TwoParty: what real sessions of circuit.Garbler /  *)
(* circuit.Evaluator returned (and how many wires they handed to OT) must  *)
(* be what the specification's run of the same session produces.           *)
EXTENDS TwoParty, Json, TLCExt

TraceLog == ndJsonDeserialize("twoparty_trace.ndjson")
VARIABLE l
tvars == <<allvars, l>>
Ev == TraceLog[l]
IsEvent(e) == l <= Len(TraceLog) /\ Ev.ev = e /\ l' = l + 1

TraceInit == PInit /\ l = 1

EvSess ==
    /\ IsEvent("sess")
    /\ gates' = Ev.gates /\ n0' = Ev.n0 /\ nout' = Ev.nout
    /\ inp' = [w \in 0..(NIn - 1) |-> Ev.inp[w + 1]]
    /\ sb' = (<<"R">> :> 1) @@ [x \in {<<"B", w>> : w \in 0..(NIn - 1)} |-> 0]
    /\ lab' = [w \in 0..(NIn - 1) |-> <<{<<"B", w>>}, XorL({<<"B", w>>}, R)>>]
    /\ phase' = "garble" /\ g' = 1 /\ tab' = <<>> /\ gid' = 0 /\ eid' = 0 /\ act' = <<>> /\ ekey' = KeyG
    /\ gpc' = "garble" /\ epc' = "recv" /\ chGE' = <<>> /\ chEG' = <<>> /\ otbox' = <<>>
    /\ otFault' = "none" /\ faults' = 0 /\ nx' = 0 /\ sent' = {} /\ erange' = <<-1, -1>>
    /\ gout' = <<>> /\ eout' = <<>> /\ outcome' = "running"

Silent == /\ GGarble \/ GSend \/ ERecv \/ ESendRange \/ GRange \/ EOTRecv \/ EEval \/ ESendOuts \/ GOuts \/ EResult
          /\ l' = l

EvEnd == /\ IsEvent("end")
         /\ gpc = "done" /\ epc = "done"
         /\ gout = Ev.gout /\ eout = Ev.eout
         /\ Ev.otcalls = 1 /\ Ev.otcount = N1
         /\ UNCHANGED allvars

TraceNext == EvSess \/ Silent \/ EvEnd
TraceSpec == TraceInit /\ [][TraceNext]_tvars

HighWater == IF l > TLCGet(1) THEN TLCSet(1, l) ELSE TRUE
TraceAccepted ==
    IF TLCGet(1) = Len(TraceLog) + 1 THEN TRUE
    ELSE Print(<<"VHREJECT", TLCGet(1), ToJson(TraceLog[TLCGet(1)])>>, FALSE)
ASSUME TLCSet(1, 0)
=============================================================================
