------------------------------ MODULE DetermGen ------------------------------
(* prints complete histories of Determ.tla for the C08 harness; a history is closed once it has MaxOps *)
(* operations, so that a simulated behaviour yields exactly one history.                               *)
EXTENDS Determ, Json
VARIABLE closed
GInit == Init /\ closed = FALSE
GNext == \/ Next /\ UNCHANGED closed
         \/ Len(ops) = MaxOps /\ ~closed /\ closed' = TRUE /\ UNCHANGED vars
GSpec == GInit /\ [][GNext]_<<vars, closed>>
Emit == closed => PrintT(<<"VHCASE", ToJson([ops |-> ops])>>)
=============================================================================
