SPECIFICATION Spec
INVARIANT Exclusive
POSTCONDITION Accepted
CHECK_DEADLOCK FALSE
