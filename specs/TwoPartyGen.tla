---------------------------- MODULE TwoPartyGen ----------------------------
(* Generator: every fault-free session of TwoParty.tla (circuit, split of  *)
(* the inputs between the parties, number of outputs, inputs) with the     *)
(* predicted result and the size of the garbler's first message.           *)
EXTENDS TwoParty, Json
FieldBytes(k) == CASE k \in {"keylen", "ntab", "nrow"} -> 4 [] k = "key" -> 32 [] OTHER -> 16
PreOTBytes == LET S2 == [i \in 1..Len(gates) |-> 4 + 16 * RowCount(gates[i].op)]
                  RECURSIVE Sum(_)
                  Sum(s) == IF s = <<>> THEN 0 ELSE Head(s) + Sum(Tail(s))
              IN 4 + 32 + 4 + Sum(S2) + 16 * n0
Case == [nin |-> NIn, n0 |-> n0, nout |-> nout, gates |-> gates,
         inp |-> [i \in 1..NIn |-> inp[i - 1]],
         expected |-> gout, preot |-> PreOTBytes]
Emit == (gpc = "done" /\ epc = "done") => PrintT(<<"VHCASE", ToJson(Case)>>)
=============================================================================
