---------------------------- MODULE CorruptTrace ----------------------------
(* C16 on real sessions behind a corrupting transport.  One event per      *)
(* corrupted run: where the corruption hit (direction, field class by the  *)
(* message layout of TwoParty.tla) and what the garbler did.               *)
(*   NeverWrong  - the property: a returned value is the correct value     *)
(*   ModelAgrees - outcome classes that TwoParty.tla (MaxFaults = 1) fixes *)
(*                 for a field class: a corrupted count/length field can   *)
(*                 only end in error or stall; corrupting the final result *)
(*                 message cannot change what the garbler returns.         *)
EXTENDS Integers, Sequences, TLC, Json, TLCExt

TraceLog == ndJsonDeserialize("corrupt_trace.ndjson")
VARIABLES l, last, nvalue, nerror, nstall
vars == <<l, last, nvalue, nerror, nstall>>
None == [kind |-> "none", dir |-> "", off |-> 0, cls |-> "", outcome |-> "none", correct |-> 1]

Init == l = 1 /\ last = None /\ nvalue = 0 /\ nerror = 0 /\ nstall = 0
Run == /\ l <= Len(TraceLog) /\ TraceLog[l].ev = "run"
       /\ last' = TraceLog[l] /\ l' = l + 1
       /\ nvalue' = nvalue + (IF TraceLog[l].outcome = "value" THEN 1 ELSE 0)
       /\ nerror' = nerror + (IF TraceLog[l].outcome = "error" THEN 1 ELSE 0)
       /\ nstall' = nstall + (IF TraceLog[l].outcome \in {"stall", "crash"} THEN 1 ELSE 0)
Next == Run
Spec == Init /\ [][Next]_vars

NeverWrong == last.outcome = "value" => last.correct = 1
ModelAgrees ==
    /\ (last.dir = "g2e" /\ last.cls \in {"keylen", "ntab", "nrow"}) => last.outcome \in {"error", "stall", "crash"}
    /\ (last.dir = "g2e" /\ last.cls = "result") => last.outcome = "value"

Accepted == IF TLCGet("stats").diameter - 1 = Len(TraceLog) THEN TRUE
            ELSE Print(<<"VHREJECT", TLCGet("stats").diameter, 0>>, FALSE)
=============================================================================
