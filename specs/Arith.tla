--------------------------------- MODULE Arith ---------------------------------
(***************************************************************************)
(* Reference semantics of the circuit builders of compiler/circuits:       *)
(* for operand widths wx, wy and result width wz the exact mathematical    *)
(* function of the operands reduced modulo 2^wz.  Signed builders read     *)
(* each operand in two's complement at its OWN width; signed modulo is     *)
(* |x| mod |y| (testsuite/lang/modi.mpcl).  Division and modulo by zero    *)
(* are not specified (-1 in the tables).                                   *)
(* Used as a generator: one TLC state per (op, wx, wy, wz) whose complete  *)
(* truth table is printed and compared with the real circuit.              *)
(***************************************************************************)
EXTENDS Integers, Sequences, FiniteSets, TLC, Json

CONSTANTS OpSet, WMin, WMax, WzKinds, EqualOnly

P2(n) == 2 ^ n
SInt(x, w) == IF x >= P2(w - 1) THEN x - P2(w) ELSE x
ModW(n, w) == ((n % P2(w)) + P2(w)) % P2(w)
Abs(n) == IF n < 0 THEN -n ELSE n
Sgn(n) == IF n < 0 THEN -1 ELSE 1
TDiv(a, b) == Sgn(a) * Sgn(b) * (Abs(a) \div Abs(b))
B(c) == IF c THEN 1 ELSE 0
RECURSIVE Bits(_, _, _, _)
Bits(op, a, b, n) ==
    IF n = 0 THEN 0
    ELSE LET p == a % 2  q == b % 2
             r == CASE op = "band" -> p * q [] op = "bor" -> IF p + q > 0 THEN 1 ELSE 0
                    [] op = "bxor" -> (p + q) % 2 [] op = "bclr" -> p * (1 - q)
         IN r + 2 * Bits(op, a \div 2, b \div 2, n - 1)
RECURSIVE Pop(_)
Pop(n) == IF n = 0 THEN 0 ELSE (n % 2) + Pop(n \div 2)

CmpOps == {"ult", "ule", "ugt", "uge", "ilt", "ile", "igt", "ige", "eq", "neq"}
IndexOps == {"index1", "index2", "index3"}
ElemSize(op) == CASE op = "index1" -> 1 [] op = "index2" -> 2 [] op = "index3" -> 3
\* NewIndex: bits := 1; for length := 2; length < n; length *= 2 { bits++ }
RECURSIVE IndexBitsFrom(_, _, _)
IndexBitsFrom(n, length, bits) == IF length < n THEN IndexBitsFrom(n, 2 * length, bits + 1) ELSE bits
IndexBits(n) == IndexBitsFrom(n, 2, 1)

IndexRef(wx, wz, x, y) == LET n == wx \div wz
                              idx == y % P2(IndexBits(n))
                          IN IF idx < n THEN (x \div P2(wz * idx)) % P2(wz) ELSE 0

Ref(op, wx, wy, wz, x, y) ==
    LET sx == SInt(x, wx)  sy == SInt(y, wy)  m == IF wx > wy THEN wx ELSE wy IN
    CASE op = "add" -> ModW(x + y, wz)
      [] op = "sub" -> ModW(x - y, wz)
      [] op = "mul" -> ModW(x * y, wz)
      [] op = "udiv" -> IF y = 0 THEN -1 ELSE ModW(x \div y, wz)
      [] op = "umod" -> IF y = 0 THEN -1 ELSE ModW(x % y, wz)
      [] op = "idiv" -> IF y = 0 THEN -1 ELSE ModW(TDiv(sx, sy), wz)
      [] op = "imod" -> IF y = 0 THEN -1 ELSE ModW(Abs(sx) % Abs(sy), wz)
      [] op = "ult" -> B(x < y) [] op = "ule" -> B(x <= y) [] op = "ugt" -> B(x > y) [] op = "uge" -> B(x >= y)
      [] op = "ilt" -> B(sx < sy) [] op = "ile" -> B(sx <= sy) [] op = "igt" -> B(sx > sy) [] op = "ige" -> B(sx >= sy)
      [] op = "eq" -> B(x = y) [] op = "neq" -> B(x # y)
      [] op \in {"band", "bor", "bxor", "bclr"} -> ModW(Bits(op, x, y, m), wz)
      [] op = "hamming" -> ModW(Pop(Bits("bxor", x, y, m)), wz)
      \* mux: x is the 1-bit condition, y packs t (low wz bits) and f (next wz bits)
      [] op = "mux" -> IF x % 2 = 1 THEN y % P2(wz) ELSE (y \div P2(wz)) % P2(wz)
      \* index: x packs n = wx / wz elements of wz bits, y is the index.  As documented in circ_index.go: the n low
      \* bits of the index with 2^n >= count select (higher bits are ignored); a selected position beyond the array is 0
      [] op \in IndexOps -> IndexRef(wx, wz, x, y)
      [] op = "land" -> x * y
      [] op = "lor" -> IF x + y > 0 THEN 1 ELSE 0
      \* bit tests with a constant bit number y (y beyond the operand: not set)
      [] op = "bts" -> IF y < wx THEN (x \div P2(y)) % 2 ELSE 0
      [] op = "btc" -> IF y < wx THEN 1 - ((x \div P2(y)) % 2) ELSE 1

Wz(kind, wx, wy) == LET m == IF wx > wy THEN wx ELSE wy IN
                    CASE kind = "min" -> (IF wx < wy THEN wx ELSE wy) [] kind = "max" -> m [] kind = "max+1" -> m + 1 [] kind = "2max" -> 2 * m [] kind = "2max+3" -> 2 * m + 3

VARIABLES cur, emitted
vars == <<cur, emitted>>
Combos == {c \in [op : OpSet, wx : WMin..WMax, wy : WMin..WMax, k : WzKinds] :
             /\ (EqualOnly => c.wx = c.wy)
             /\ (c.op \in CmpOps => c.k = "max")
             /\ (c.op = "mux" => c.wx = 1 /\ c.wy % 2 = 0 /\ c.k = "max")
             /\ (c.op \in IndexOps => c.wx % ElemSize(c.op) = 0 /\ c.k = "max")
             /\ (c.op \in {"land", "lor"} => c.wx = 1 /\ c.wy = 1 /\ c.k = "max")
             /\ (c.op \in {"bts", "btc"} => c.k = "max")}
Init == cur \in Combos /\ emitted = FALSE
Next == emitted = FALSE /\ emitted' = TRUE /\ UNCHANGED cur
Spec == Init /\ [][Next]_vars

CurWz == IF cur.op \in CmpOps \cup {"land", "lor", "bts", "btc"} THEN 1
         ELSE IF cur.op = "mux" THEN cur.wy \div 2
         ELSE IF cur.op \in IndexOps THEN ElemSize(cur.op)
         ELSE Wz(cur.k, cur.wx, cur.wy)
Table == [i \in 1..(P2(cur.wx) * P2(cur.wy)) |->
            Ref(cur.op, cur.wx, cur.wy, CurWz, (i - 1) \div P2(cur.wy), (i - 1) % P2(cur.wy))]
Emit == emitted => PrintT(<<"VHCASE", ToJson([op |-> cur.op, wx |-> cur.wx, wy |-> cur.wy, wz |-> CurWz, table |-> Table])>>)

\* sanity of the reference itself
RefSane == \A x \in 0..(P2(cur.wx) - 1) : \A y \in 0..(P2(cur.wy) - 1) :
              LET r == Ref(cur.op, cur.wx, cur.wy, CurWz, x, y) IN r = -1 \/ (r >= 0 /\ r < P2(CurWz))
=============================================================================
