------------------------------- MODULE GmwPool -------------------------------
(***************************************************************************)
(* gmw/triples.go: the Beaver triple pool of every party.                  *)
(*   - the leader's tripleSender waits until its pool holds at most        *)
(*     LowWater words, announces a batch to all followers and deals it;    *)
(*   - followers deal the batch when the announcement arrives;             *)
(*   - dealing a batch needs every party (pairwise OT): a batch becomes    *)
(*     available at a party only after all parties entered it, and is      *)
(*     appended to each party's pool at its own time;                      *)
(*   - every party's online phase calls Get(count) with the SAME sequence  *)
(*     of counts (the AND-level sizes of the circuit); Get takes whole     *)
(*     words, ceil(count/W), possibly across batches, blocking on empty.   *)
(* Words are numbered in dealing order; SameWords says every party         *)
(* consumes the same words for the same Get.                               *)
(***************************************************************************)
EXTENDS Integers, Sequences, FiniteSets, TLC

CONSTANTS NParties,   \* party 1 is the leader
          W,          \* bits per word
          LowWater,   \* words
          BatchWords, \* sequence of batch sizes in words, the last one repeats
          Gets,       \* sequence of bit counts requested by the online phase
          MaxBatches,
          GetTakesFullCount  \* deviation: after a partial take, ask for `count` again instead of count-ofs

\* values for the model-checking configurations (cfg files cannot hold sequences)
MCBatchA == <<2, 3>>
MCGetsA == <<3, 1, 5, 2>>
MCBatchB == <<1, 2>>
MCGetsB == <<5, 4, 1, 3, 2>>

Party == 1..NParties
Min(a, b) == IF a < b THEN a ELSE b
BatchSize(k) == IF k <= Len(BatchWords) THEN BatchWords[k] ELSE BatchWords[Len(BatchWords)]
WordsFor(bits) == (bits + W - 1) \div W

VARIABLES pool,      \* party -> sequence of word numbers available
          got,       \* party -> sequence of <<get index, word>> consumed
          gi, ofs,   \* party -> index of the current Get and bits obtained so far
          announced, \* number of batches announced by the leader
          entered,   \* party -> number of batches the party has entered
          appended,  \* party -> number of batches appended to its pool
          nextWord   \* first word number of each batch: function batch -> first word

vars == <<pool, got, gi, ofs, announced, entered, appended, nextWord>>

Init == /\ pool = [p \in Party |-> <<>>] /\ got = [p \in Party |-> <<>>]
        /\ gi = [p \in Party |-> 1] /\ ofs = [p \in Party |-> 0]
        /\ announced = 0 /\ entered = [p \in Party |-> 0] /\ appended = [p \in Party |-> 0]
        /\ nextWord = <<1>>

Done(p) == gi[p] > Len(Gets)

\* leader: tripleSenderLoop
Announce == /\ announced < MaxBatches
            /\ entered[1] = announced /\ appended[1] = announced      \* previous batch dealt
            /\ Len(pool[1]) <= LowWater
            /\ announced' = announced + 1
            /\ entered' = [entered EXCEPT ![1] = announced + 1]
            /\ nextWord' = Append(nextWord, nextWord[announced + 1] + BatchSize(announced + 1))
            /\ UNCHANGED <<pool, got, gi, ofs, appended>>

\* follower: tripleReceiverLoop receives the announcement
Enter(p) == /\ p # 1 /\ entered[p] < announced /\ appended[p] = entered[p]
            /\ entered' = [entered EXCEPT ![p] = @ + 1]
            /\ UNCHANGED <<pool, got, gi, ofs, announced, appended, nextWord>>

\* tripleBatch finishes at p: all parties took part; the words go to p's pool
AppendBatch(p) ==
    /\ appended[p] < entered[p]
    /\ \A q \in Party : entered[q] >= appended[p] + 1
    /\ LET k == appended[p] + 1
           first == nextWord[k]
       IN pool' = [pool EXCEPT ![p] = @ \o [i \in 1..BatchSize(k) |-> first + i - 1]]
    /\ appended' = [appended EXCEPT ![p] = @ + 1]
    /\ UNCHANGED <<got, gi, ofs, announced, entered, nextWord>>

\* TriplePool.Get, one iteration of its loop
GetStep(p) ==
    /\ ~Done(p) /\ pool[p] # <<>>
    /\ LET count == Gets[gi[p]]
           want == IF GetTakesFullCount THEN count ELSE count - ofs[p]
           n == Min(WordsFor(want), Len(pool[p]))
           taken == SubSeq(pool[p], 1, n)
           nofs == ofs[p] + n * W
       IN /\ pool' = [pool EXCEPT ![p] = SubSeq(@, n + 1, Len(@))]
          /\ got' = [got EXCEPT ![p] = @ \o [i \in 1..n |-> <<gi[p], taken[i]>>]]
          /\ IF nofs >= count
             THEN gi' = [gi EXCEPT ![p] = @ + 1] /\ ofs' = [ofs EXCEPT ![p] = 0]
             ELSE gi' = gi /\ ofs' = [ofs EXCEPT ![p] = nofs]
    /\ UNCHANGED <<announced, entered, appended, nextWord>>

Next == Announce \/ \E p \in Party : Enter(p) \/ AppendBatch(p) \/ GetStep(p)
Spec == Init /\ [][Next]_vars /\ WF_vars(Next)

IsPrefix(s, t) == Len(s) <= Len(t) /\ SubSeq(t, 1, Len(s)) = s
\* every party consumes the same words for the same Get, in dealing order
SameWords == \A p \in Party : \A q \in Party : IsPrefix(got[p], got[q]) \/ IsPrefix(got[q], got[p])
InOrder == \A p \in Party : \A i \in 1..Len(got[p]) : got[p][i][2] = i
\* the pool of a party never holds a word twice and loses none
PoolIsNext == \A p \in Party : \A i \in 1..Len(pool[p]) : pool[p][i] = Len(got[p]) + i
\* every Get completes provided enough batches may be dealt
AllServed == <>(\A p \in Party : Done(p))
Safety == SameWords /\ InOrder /\ PoolIsNext
=============================================================================
