SPECIFICATION Spec
CONSTANTS
  MaxWires = 2
  MaxGates = 2
  MaxRecords = 2
  Ops = {"XOR", "INV"}
  InShapes <- ShapesIn
  OutShapes <- ShapesOut
  Format = "mpclc"
  CheckGateIndex = TRUE
INVARIANT Safety
PROPERTY Terminates
CHECK_DEADLOCK FALSE
