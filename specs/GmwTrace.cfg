SPECIFICATION Spec
INVARIANT TripleOK
INVARIANT AndOK
INVARIANT Formulas
POSTCONDITION Accepted
CHECK_DEADLOCK FALSE
