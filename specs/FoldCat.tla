------------------------------- MODULE FoldCat -------------------------------
(***************************************************************************)
(* C12 for wide types: the catalogue of types, operand patterns, shift     *)
(* counts, operators and consumers that spans the case space, and the      *)
(* typed semantics on base-4096 limbs (BV.tla).  TLC prints the catalogue  *)
(* (FoldCat_gen.cfg); the driver samples or enumerates the product space,  *)
(* the harness compiles the constant and the run-time variant of every     *)
(* case, and FoldTrace.tla decides each recorded case.                     *)
(*                                                                         *)
(* The patterns sit on the sizes compiler/mpa stores constants in (32, 64, *)
(* minimal length above 64): exactly the representation that must not leak *)
(* into the typed result.                                                  *)
(***************************************************************************)
EXTENDS BV, Json

CWidths == {8, 16, 31, 32, 33, 63, 64, 65, 100, 127, 128, 129, 130}
COps == <<"+", "-", "*", "/", "%", "&", "|", "^", "&^", "<<", ">>", "<", "<=", ">", ">=", "==", "!=", "neg">>
CBoolOps == <<"not", "&&", "||", "==", "!=">>
CConsumers == <<"ret", "add1", "div3", "lt2", "shl1", "reuse">>

\* 2^k mod 2^w
BitL(k, w) == [i \in 1..NLimbs(w) |-> IF k < w /\ i = (k \div LB) + 1 THEN Pow2(k % LB) ELSE 0]
\* 2^n - 1 mod 2^w
OnesL(n, w) == Trunc([i \in 1..NLimbs(w) |-> IF i * LB <= n THEN Base - 1
                                              ELSE IF (i - 1) * LB < n THEN Pow2(n - (i - 1) * LB) - 1 ELSE 0], w)
SmallL(n, w) == Trunc(Fit(NatL(n), NLimbs(w)), w)
PlusL(a, n, w) == Trunc(Fit(AddL(a, NatL(n)), NLimbs(w)), w)

PatNames == <<"zero", "one", "three", "small", "max", "signbit", "maxsigned", "alt", "neg3",
              "p31", "m32", "p32", "p63", "p63p5", "m64", "p64">>
Pat(name, w) ==
    CASE name = "zero" -> SmallL(0, w)
      [] name = "one" -> SmallL(1, w)
      [] name = "three" -> SmallL(3, w)
      [] name = "small" -> SmallL(200, w)
      [] name = "max" -> OnesL(w, w)
      [] name = "signbit" -> BitL(w - 1, w)
      [] name = "maxsigned" -> OnesL(w - 1, w)
      [] name = "alt" -> Trunc([i \in 1..NLimbs(w) |-> 1365], w)
      [] name = "neg3" -> NegL(SmallL(3, w), w)
      [] name = "p31" -> BitL(31, w)
      [] name = "m32" -> OnesL(32, w)
      [] name = "p32" -> BitL(32, w)
      [] name = "p63" -> BitL(63, w)
      [] name = "p63p5" -> PlusL(BitL(63, w), 5, w)
      [] name = "m64" -> OnesL(64, w)
      [] name = "p64" -> BitL(64, w)
\* second operands
YPatNames == <<"zero", "one", "three", "max", "signbit", "alt", "m32", "p63p5">>
\* shift counts: the fixed ones below the width, and the width itself, one more, twice the width (a shift by the
\* width or more clears an unsigned value / leaves only sign bits)
CountNames == <<"s1", "s5", "s31", "s32", "s33", "s63", "s64", "s65", "half", "wm1", "w0", "wp1", "w2">>
AtOrAbove == {"w0", "wp1", "w2"}
Count(name, w) ==
    CASE name = "s1" -> 1 [] name = "s5" -> 5 [] name = "s31" -> 31 [] name = "s32" -> 32 [] name = "s33" -> 33
      [] name = "s63" -> 63 [] name = "s64" -> 64 [] name = "s65" -> 65 [] name = "half" -> w \div 2 [] name = "wm1" -> w - 1
      [] name = "w0" -> w [] name = "wp1" -> w + 1 [] name = "w2" -> 2 * w

SeqToSet(s) == {s[i] : i \in DOMAIN s}
Catalogue ==
    [ops |-> COps, boolops |-> CBoolOps, ks |-> CConsumers, xpats |-> PatNames, ypats |-> YPatNames,
     widths |-> {[w |-> w,
                  pats |-> [i \in DOMAIN PatNames |-> [n |-> PatNames[i], v |-> Pat(PatNames[i], w)]],
                  counts |-> {[n |-> c, v |-> Count(c, w)] : c \in {d \in SeqToSet(CountNames) : (Count(d, w) < w \/ d \in AtOrAbove) /\ Count(d, w) > 0}}]
                 : w \in CWidths}]

(***************************************************************************)
(* Typed semantics on limbs.  x, y: operand patterns of width w; the       *)
(* result is a limb sequence (one limb 0/1 for booleans), or <<-1>> where  *)
(* this module does not define it (division, modulo, shifts: the circuits  *)
(* themselves are checked against Arith.tla under C07).                    *)
(***************************************************************************)
NA == <<-1>>
B(b) == IF b THEN <<1>> ELSE <<0>>
TypedOp(op, signed, w, x, y) ==
    CASE op = "+" -> Trunc(Fit(AddL(x, y), NLimbs(w)), w)
      [] op = "-" -> Trunc(Fit(AddL(x, NegL(y, w)), NLimbs(w)), w)
      [] op = "*" -> Trunc(Fit(MulL(x, y), NLimbs(w)), w)
      [] op = "&" -> BitOpL("and", x, y, w)
      [] op = "|" -> BitOpL("or", x, y, w)
      [] op = "^" -> BitOpL("xor", x, y, w)
      [] op = "&^" -> BitOpL("clr", x, y, w)
      [] op = "neg" -> NegL(x, w)
      [] op \in {"<", "<=", ">", ">=", "==", "!="} ->
            LET c == IF signed THEN SCmp(x, w, y, w) ELSE CmpL(x, y) IN
            B(CASE op = "<" -> c < 0 [] op = "<=" -> c <= 0 [] op = ">" -> c > 0 [] op = ">=" -> c >= 0
                [] op = "==" -> c = 0 [] op = "!=" -> c # 0)
      [] OTHER -> NA
TypedBool(op, x, y) ==
    CASE op = "not" -> B(x[1] = 0) [] op = "&&" -> B(x[1] = 1 /\ y[1] = 1) [] op = "||" -> B(x[1] = 1 \/ y[1] = 1)
      [] op = "==" -> B(x[1] = y[1]) [] op = "!=" -> B(x[1] # y[1])
TypedConsume(k, signed, w, v, x) ==
    IF v = NA THEN NA
    ELSE CASE k = "ret" -> v
           [] k = "add1" -> Trunc(Fit(AddL(v, <<1>>), NLimbs(w)), w)
           [] k = "shl1" -> Trunc(Fit(AddL(v, v), NLimbs(w)), w)
           [] k = "lt2" -> B((IF signed THEN SCmp(v, w, SmallL(2, w), w) ELSE CmpL(v, <<2>>)) < 0)
           [] k = "reuse" -> BitOpL("xor", v, x, w)
           [] OTHER -> NA
Typed(op, k, signed, w, isbool, x, y) ==
    IF isbool THEN TypedBool(op, x, y)
    ELSE IF op \in {"<", "<=", ">", ">=", "==", "!="} THEN (IF k = "ret" THEN TypedOp(op, signed, w, x, y) ELSE NA)
    ELSE TypedConsume(k, signed, w, TypedOp(op, signed, w, x, y), x)

=============================================================================
