------------------------------- MODULE Garble -------------------------------
(***************************************************************************)
(* circuit/garble.go (Gate.garbleInto) and circuit/eval.go (Circuit.Eval)  *)
(* over SYMBOLIC labels.                                                   *)
(*                                                                         *)
(* A label is a finite set of atoms under symmetric difference (the        *)
(* free-XOR algebra).  Atoms:                                              *)
(*    <<"R">>               the global offset                              *)
(*    <<"B", w>>            the fresh L0 of input wire w                   *)
(*    <<"K1", k, x, t>>     pi_k(2x xor t)   = encryptHalf(x, t) under AES key k*)
(*    <<"K2", k, a, b, t>>  pi_k(2a xor 4b xor t) = the pad of encrypt/decrypt*)
(*    <<"X", n, 0>>         garbage injected by a fault (TwoParty.tla)      *)
(* The point-and-permute bit S is linear: S(R) = 1, S of every other atom  *)
(* is chosen nondeterministically when the atom is created, so TLC visits  *)
(* every combination of permute bits.                                      *)
(*                                                                         *)
(* TLC's states ARE the circuits: AddGate enumerates every circuit of up   *)
(* to MaxGates gates over NIn inputs (any wiring, fan-out, a = b).         *)
(***************************************************************************)
EXTENDS Integers, Sequences, FiniteSets, FiniteSetsExt, TLC

CONSTANTS NIn, MaxGates, Ops, FreeS

XorL(x, y) == (x \ y) \cup (y \ x)
R == {<<"R">>}
Zero == {}
KeyG == "k"                  \* the garbler's AES key
K1k(k, x, t) == {<<"K1", k, x, t>>}
K2k(k, a, b, t) == {<<"K2", k, a, b, t>>}
K1(x, t) == K1k(KeyG, x, t)
K2(a, b, t) == K2k(KeyG, a, b, t)
If(c, x) == IF c THEN x ELSE Zero

VARIABLES gates,   \* the circuit: sequence of [op, a, b]; output wire of gate i is NIn + i - 1
          phase,   \* "build" | "garble" | "eval" | "done"
          g,       \* index of the next gate to garble / evaluate
          sb,      \* permute bit of every atom created so far
          lab,     \* garbler: wire -> <<L0, L1>>
          tab,     \* transmitted rows per gate
          gid, eid,\* the garbler's and the evaluator's tweak counters
          inp,     \* input bits
          act,     \* evaluator: wire -> active label
          ekey     \* the AES key the evaluator uses (= KeyG unless corrupted in transit)

vars == <<gates, phase, g, sb, lab, tab, gid, eid, inp, act, ekey>>

NWires == NIn + Len(gates)
OutWire(i) == NIn + i - 1
Bit == {0, 1}
SChoices == IF FreeS THEN Bit ELSE {0}

S(x) == FoldSet(LAMBDA a, acc : (acc + sb[a]) % 2, 0, x)
Sof(x, f) == FoldSet(LAMBDA a, acc : (acc + f[a]) % 2, 0, x)

\* plain semantics
GateFn(op, x, y) == CASE op = "XOR" -> (x + y) % 2
                      [] op = "XNOR" -> 1 - ((x + y) % 2)
                      [] op = "AND" -> x * y
                      [] op = "OR" -> IF x + y > 0 THEN 1 ELSE 0
                      [] op = "INV" -> 1 - x
RECURSIVE PlainUpTo(_, _)
PlainUpTo(n, v) ==   \* v: values of wires 0..NIn-1+k ; extend through gate n
    IF n = 0 THEN v
    ELSE LET p == PlainUpTo(n - 1, v)
             gt == gates[n] IN
         p @@ (OutWire(n) :> GateFn(gt.op, p[gt.a], p[gt.b]))
Plain == PlainUpTo(Len(gates), inp)

Init == /\ gates = <<>> /\ phase = "build" /\ g = 1
        /\ sb = (<<"R">> :> 1)
        /\ lab = <<>> /\ tab = <<>> /\ gid = 0 /\ eid = 0
        /\ inp = <<>> /\ act = <<>> /\ ekey = KeyG

AddGate == /\ phase = "build" /\ Len(gates) < MaxGates
           /\ \E op \in Ops : \E a \in 0..(NWires - 1) : \E b \in 0..(NWires - 1) :
                /\ (op = "INV" => b = a)
                /\ gates' = Append(gates, [op |-> op, a |-> a, b |-> b])
           /\ UNCHANGED <<phase, g, sb, lab, tab, gid, eid, inp, act, ekey>>

\* makeLabels for every input wire; input values; permute bits of the input labels
StartGarble ==
    /\ phase = "build" /\ Len(gates) >= 1
    /\ \E f \in [{<<"B", w>> : w \in 0..(NIn - 1)} -> SChoices] : sb' = sb @@ f
    /\ lab' = [w \in 0..(NIn - 1) |-> <<{<<"B", w>>}, XorL({<<"B", w>>}, R)>>]
    /\ \E v \in [0..(NIn - 1) -> Bit] : inp' = v
    /\ phase' = "garble" /\ g' = 1
    /\ UNCHANGED <<gates, tab, gid, eid, act, ekey>>

Idx2(x, y, f) == 2 * Sof(x, f) + Sof(y, f)

\* Gate.garbleInto, one gate
GarbleGate ==
    /\ phase = "garble" /\ g <= Len(gates)
    /\ LET gt == gates[g]
           a0 == lab[gt.a][1]  a1 == lab[gt.a][2]
           b0 == lab[gt.b][1]  b1 == lab[gt.b][2]
           o  == OutWire(g)
       IN
       CASE gt.op = "XOR" ->
              /\ lab' = lab @@ (o :> <<XorL(a0, b0), XorL(XorL(a0, b0), R)>>)
              /\ tab' = Append(tab, <<>>)
              /\ UNCHANGED <<gid, sb>>
         [] gt.op = "XNOR" ->
              /\ lab' = lab @@ (o :> <<XorL(XorL(a0, b0), R), XorL(a0, b0)>>)
              /\ tab' = Append(tab, <<>>)
              /\ UNCHANGED <<gid, sb>>
         [] gt.op = "AND" ->
              LET j0 == gid  j1 == gid + 1
                  new == K1(a0, j0) \cup K1(a1, j0) \cup K1(b0, j1) \cup K1(b1, j1)
              IN \E f \in [new -> SChoices] :
                 LET pa == S(a0) = 1
                     pb == S(b0) = 1
                     tg == XorL(XorL(K1(a0, j0), K1(a1, j0)), If(pb, R))
                     wg0 == XorL(K1(a0, j0), If(pa, tg))
                     te == XorL(XorL(K1(b0, j1), K1(b1, j1)), a0)
                     we0 == XorL(K1(b0, j1), If(pb, XorL(te, a0)))
                     c0 == XorL(wg0, we0)
                 IN /\ lab' = lab @@ (o :> <<c0, XorL(c0, R)>>)
                    /\ tab' = Append(tab, <<tg, te>>)
                    /\ gid' = gid + 2
                    /\ sb' = sb @@ f
         [] gt.op = "OR" ->
              LET id == gid
                  new == K2(a0, b0, id) \cup K2(a0, b1, id) \cup K2(a1, b0, id) \cup K2(a1, b1, id)
              IN \E f \in [new -> SChoices] :
                 LET sf == sb @@ f
                     \* table[idx(x,y)] = encrypt(x, y, <zero c>, id)
                     T == [i \in 0..3 |->
                             IF i = Idx2(a0, b0, sf) THEN K2(a0, b0, id)
                             ELSE IF i = Idx2(a0, b1, sf) THEN K2(a0, b1, id)
                             ELSE IF i = Idx2(a1, b0, sf) THEN K2(a1, b0, id)
                             ELSE K2(a1, b1, id)]
                     l0Index == Idx2(a0, b0, sf)
                     c0 == IF l0Index = 0 THEN T[0] ELSE XorL(T[0], R)
                     c1 == IF l0Index = 0 THEN XorL(T[0], R) ELSE T[0]
                     T2 == [i \in 0..3 |-> XorL(T[i], IF i = l0Index THEN c0 ELSE c1)]
                 IN /\ lab' = lab @@ (o :> <<c0, c1>>)
                    /\ tab' = Append(tab, <<T2[1], T2[2], T2[3]>>)
                    /\ gid' = gid + 1
                    /\ sb' = sf
         [] gt.op = "INV" ->
              LET id == gid
                  new == K2(a0, Zero, id) \cup K2(a1, Zero, id)
              IN \E f \in [new -> SChoices] :
                 LET sf == sb @@ f
                     T == [i \in 0..1 |-> IF i = Sof(a0, sf) THEN K2(a0, Zero, id) ELSE K2(a1, Zero, id)]
                     l0Index == Sof(a0, sf)
                     c0 == IF l0Index = 0 THEN XorL(T[0], R) ELSE T[0]
                     c1 == IF l0Index = 0 THEN T[0] ELSE XorL(T[0], R)
                     T2 == [i \in 0..1 |-> XorL(T[i], IF i = l0Index THEN c1 ELSE c0)]
                 IN /\ lab' = lab @@ (o :> <<c0, c1>>)
                    /\ tab' = Append(tab, <<T2[1]>>)
                    /\ gid' = gid + 1
                    /\ sb' = sf
    /\ g' = g + 1
    /\ UNCHANGED <<gates, phase, eid, inp, act, ekey>>

\* the evaluator is handed the label that encodes each input bit
StartEval ==
    /\ phase = "garble" /\ g > Len(gates)
    /\ act' = [w \in 0..(NIn - 1) |-> lab[w][inp[w] + 1]]
    /\ phase' = "eval" /\ g' = 1
    /\ UNCHANGED <<gates, sb, lab, tab, gid, eid, inp, ekey>>

\* Circuit.Eval, one gate.  Labels the evaluator derives from corrupted data
\* contain atoms nobody has seen; their permute bits are chosen here.
EvalOut(gt, a, b, row) ==
    CASE gt.op \in {"XOR", "XNOR"} -> XorL(a, b)
      [] gt.op = "AND" ->
           LET wg == XorL(K1k(ekey, a, eid), If(S(a) = 1, row[1]))
               we == XorL(K1k(ekey, b, eid + 1), If(S(b) = 1, XorL(row[2], a)))
           IN XorL(wg, we)
      [] gt.op = "OR" ->
           LET index == 2 * S(a) + S(b)
               c == IF index > 0 THEN row[index] ELSE Zero
           IN XorL(c, K2k(ekey, a, b, eid))
      [] gt.op = "INV" ->
           LET index == S(a)
               c == IF index > 0 THEN row[index] ELSE Zero
           IN XorL(c, K2k(ekey, a, Zero, eid))
\* the run-time checks of Circuit.Eval on the received rows
RowsUsable(gt, a, b, row) ==
    CASE gt.op = "AND" -> Len(row) = 2
      [] gt.op = "OR" -> 2 * S(a) + S(b) <= Len(row)
      [] gt.op = "INV" -> S(a) <= Len(row)
      [] OTHER -> TRUE
EvalGate ==
    /\ phase = "eval" /\ g <= Len(gates)
    /\ LET gt == gates[g]
           out == EvalOut(gt, act[gt.a], act[gt.b], tab[g])
           new == out \ DOMAIN sb
       IN /\ RowsUsable(gt, act[gt.a], act[gt.b], tab[g])
          /\ act' = act @@ (OutWire(g) :> out)
          /\ \E f \in [new -> SChoices] : sb' = sb @@ f
          /\ eid' = eid + (CASE gt.op = "AND" -> 2 [] gt.op \in {"OR", "INV"} -> 1 [] OTHER -> 0)
    /\ g' = g + 1
    /\ UNCHANGED <<gates, phase, lab, tab, gid, inp, ekey>>

Finish == /\ phase = "eval" /\ g > Len(gates)
          /\ phase' = "done"
          /\ UNCHANGED <<gates, g, sb, lab, tab, gid, eid, inp, act, ekey>>

Next == AddGate \/ StartGarble \/ GarbleGate \/ StartEval \/ EvalGate \/ Finish
Spec == Init /\ [][Next]_vars

(***************************************************************************)
(* Properties                                                              *)
(***************************************************************************)
Evaluated == IF phase = "eval" THEN 0..(NIn + g - 2) ELSE IF phase = "done" THEN 0..(NWires - 1) ELSE {}

\* every wire the evaluator holds is one of that wire's two labels ...
ActIsLabel == \A w \in Evaluated : act[w] \in {lab[w][1], lab[w][2]}
\* ... and decodes to the plain truth-table value
Decodes == \A w \in Evaluated : act[w] = lab[w][Plain[w] + 1]
\* L1 = L0 xor R on every wire, and the two labels differ in their permute bit
FreeXor == \A w \in DOMAIN lab : lab[w][2] = XorL(lab[w][1], R)
\* garbler and evaluator advance the tweak identically
TweakSync == phase = "done" => gid = eid
RowCount(op) == CASE op = "AND" -> 2 [] op = "OR" -> 3 [] op = "INV" -> 1 [] OTHER -> 0
RowsSent == \A i \in DOMAIN tab : Len(tab[i]) = RowCount(gates[i].op)
\* the evaluator never learns a label containing R on its own (sanity of the algebra)
Safety == ActIsLabel /\ Decodes /\ FreeXor /\ TweakSync /\ RowsSent
=============================================================================
