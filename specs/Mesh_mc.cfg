SPECIFICATION Spec
CONSTANTS
  N = 3
  C = 2
  CountFirst = TRUE
  EarlyAccept = FALSE
  DialAnyOrder = TRUE
INVARIANT Safety
PROPERTY Terminates
CHECK_DEADLOCK FALSE
