------------------------------- MODULE CircFile -------------------------------
(***************************************************************************)
(* C14: circuit files (circuit/marshal.go, circuit/parser.go).             *)
(*                                                                         *)
(* A file is modelled at the level the parsers work on: declared gate and  *)
(* wire counts, input and output sizes, and a sequence of gate records     *)
(* [op, a, b, o] whose fields are arbitrary numbers - TLC's initial states *)
(* are ALL such files over a small alphabet, i.e. every valid circuit and  *)
(* every structural corruption of one (wrong counts, missing or extra      *)
(* gates, undefined or out-of-range wires).  The parser is the transition  *)
(* system of ParseMPCLC / ParseBristol:                                    *)
(*   Start     mark the input wires seen (reject when there are more       *)
(*             input wires than wires)                                     *)
(*   ReadGate  one record: inputs in range and seen, output in range, the  *)
(*             record stored at the next gate index                        *)
(*   AtEOF     the gate count equals the declared one, every wire seen     *)
(* and ends accepted, rejected or crashed (an index outside the gate       *)
(* array).  Invariants: the parser never crashes, accepts only well-formed *)
(* files and rejects only ill-formed ones.                                 *)
(*                                                                         *)
(* CheckGateIndex = FALSE is the native parser as it was found (no bound   *)
(* check before gates[gate] = ...); TLC then reaches "crashed".            *)
(***************************************************************************)
EXTENDS Integers, Sequences, FiniteSets, TLC

CONSTANTS MaxWires,        \* fields range over 0..MaxWires, declared wires over 0..MaxWires
          MaxGates,        \* declared gates 0..MaxGates
          MaxRecords,      \* records in the file
          Ops,             \* subset of {"XOR", "XNOR", "AND", "OR", "INV"}
          InShapes,        \* set of sequences of input sizes
          OutShapes,       \* set of sequences of output sizes
          Format,          \* "mpclc" | "bristol"
          CheckGateIndex   \* the parser checks gate < declared gates before storing

Fields == 0..MaxWires
Rec == [op : Ops, a : Fields, b : Fields, o : Fields]
\* INV records have no second input: normalise b so that files are not counted twice
Norm(r) == IF r.op = "INV" THEN r.b = 0 ELSE TRUE
RecSeqs == UNION {[1..n -> {r \in Rec : Norm(r)}] : n \in 0..MaxRecords}
Files == [ng : 0..MaxGates, nw : 0..MaxWires, ins : InShapes, outs : OutShapes, recs : RecSeqs]

RECURSIVE Sum(_)
Sum(s) == IF s = <<>> THEN 0 ELSE Head(s) + Sum(Tail(s))

VARIABLES file, pos, seen, count, status
vars == <<file, pos, seen, count, status>>

InRange(w) == w < file.nw
Inputs(r) == IF r.op = "INV" THEN {r.a} ELSE {r.a, r.b}

Init == /\ file \in Files
        /\ pos = 0 /\ seen = {} /\ count = 0 /\ status = "start"

Start ==
    /\ status = "start"
    /\ LET iw == Sum(file.ins) IN
       IF Format = "bristol" /\ iw = 0 THEN status' = "rejected" /\ seen' = seen
       ELSE IF iw > file.nw THEN status' = "rejected" /\ seen' = seen
       ELSE status' = "parsing" /\ seen' = 0..(iw - 1)
    /\ pos' = 1
    /\ UNCHANGED <<file, count>>

ReadGate ==
    /\ status = "parsing" /\ pos <= Len(file.recs)
    /\ LET r == file.recs[pos] IN
       \* Bristol: "too many gates" is checked before the record is looked at
       IF Format = "bristol" /\ count >= file.ng THEN status' = "rejected" /\ UNCHANGED <<seen, count>>
       ELSE IF \E w \in Inputs(r) : ~InRange(w) \/ w \notin seen THEN status' = "rejected" /\ UNCHANGED <<seen, count>>
       ELSE IF ~InRange(r.o) THEN status' = "rejected" /\ UNCHANGED <<seen, count>>
       ELSE IF count >= file.ng
            THEN /\ status' = (IF CheckGateIndex THEN "rejected" ELSE "crashed")
                 /\ UNCHANGED <<seen, count>>
            ELSE status' = "parsing" /\ seen' = seen \cup {r.o} /\ count' = count + 1
    /\ pos' = pos + 1
    /\ UNCHANGED file

AtEOF ==
    /\ status = "parsing" /\ pos > Len(file.recs)
    /\ status' = IF count # file.ng THEN "rejected"
                 ELSE IF \E w \in 0..(file.nw - 1) : w \notin seen THEN "rejected"
                 ELSE "accepted"
    /\ UNCHANGED <<file, pos, seen, count>>

Next == Start \/ ReadGate \/ AtEOF
Spec == Init /\ [][Next]_vars /\ WF_vars(Next)

(***************************************************************************)
(* What a parsed circuit must be                                           *)
(***************************************************************************)
\* wires defined before record i: the input wires and the outputs of earlier records
DefinedBefore(f, i) == (0..(Sum(f.ins) - 1)) \cup {f.recs[j].o : j \in 1..(i - 1)}
WellFormed(f) ==
    /\ Sum(f.ins) <= f.nw
    /\ (Format = "bristol" => Sum(f.ins) > 0)
    /\ Len(f.recs) = f.ng
    /\ \A i \in 1..Len(f.recs) :
          /\ f.recs[i].o < f.nw
          /\ \A w \in Inputs(f.recs[i]) : w < f.nw /\ w \in DefinedBefore(f, i)
    /\ \A w \in 0..(f.nw - 1) : w \in DefinedBefore(f, Len(f.recs) + 1)

NoCrash == status # "crashed"
AcceptsOnlyWellFormed == status = "accepted" => WellFormed(file)
RejectsOnlyIllFormed == status = "rejected" => ~WellFormed(file)
Terminates == <>(status \in {"accepted", "rejected", "crashed"})
Safety == NoCrash /\ AcceptsOnlyWellFormed /\ RejectsOnlyIllFormed
=============================================================================
