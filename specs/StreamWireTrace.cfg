SPECIFICATION Spec
CONSTANT Page = 65536
INVARIANT WellFormed
POSTCONDITION Accepted
CHECK_DEADLOCK FALSE
