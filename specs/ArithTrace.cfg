SPECIFICATION Spec
INVARIANT Exact
POSTCONDITION Accepted
CHECK_DEADLOCK FALSE
