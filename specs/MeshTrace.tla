----------------------------- MODULE MeshTrace -----------------------------
(* Trace validation for Mesh: go/at events recorded at the `verif` gates    *)
(* while a seeded random scheduler drives real p2p.Create/Join/Connect.     *)
(* "go" = the scheduler released a thread into a step, "at" = the thread    *)
(* arrived at its next gate, "fin" = Connect returned.  The step's effect   *)
(* is a silent spec action somewhere between its go and the next at/fin of  *)
(* that thread (a released thread may block inside the library and finish   *)
(* its step much later).                                                    *)
EXTENDS Mesh, Json, TLCExt

TraceLog == ndJsonDeserialize("mesh_trace.ndjson")

VARIABLES l, run
tvars == <<vars, l, run>>

Thread == Party \X {"main", "acc"}
Idle == <<"idle", 0, 0>>
Fin == <<"fin", 0, 0>>

Ev == TraceLog[l]
IsEvent(e) == l <= Len(TraceLog) /\ Ev.ev = e /\ l' = l + 1

TraceInit == Init /\ l = 1 /\ run = [t \in Thread |-> Idle]

\* the specification action that a released step stands for
Act(p, act, a, b) ==
    CASE act = "LStart" -> LStart
      [] act = "Wait" -> Wait(p, a)
      [] act = "SendList" -> SendList
      [] act = "Hello" -> Hello(p)
      [] act = "RecvList" -> RecvList(p)
      [] act = "Dial" -> DialTo(p, a) /\ pc[p][2] = b
      [] act = "Accept" -> Accept(p)
      [] act = "ReadHello" -> ReadHello(p)
      [] act = "AFirst" -> AFirst(p) /\ acur[p][1] = a /\ acur[p][3] = b
      [] act = "ASecond" -> ASecond(p) /\ acur[p][1] = a /\ acur[p][3] = b

\* where the specification must stand when a thread arrives at a gate
AtGate(p, point, a, b) ==
    CASE point = "LStart" -> pc[p] = <<"lstart">>
      [] point = "Wait" -> pc[p] = <<"wait", a>>
      [] point = "SendList" -> pc[p] = <<"sendlist">>
      [] point = "Hello" -> pc[p] = <<"hello.pre">>
      [] point = "RecvList" -> pc[p] = <<"hello.post">>
      [] point = "Dial" -> pc[p][1] = "dial" /\ pc[p][2] = b /\ a \in DialChoices(p)
      [] point = "Accept" -> apc[p] = "accept.pre"
      [] point = "ReadHello" -> apc[p] = "accept.post"
      [] point = "AFirst" -> apc[p] = "first" /\ acur[p][1] = a /\ acur[p][3] = b
      [] point = "ASecond" -> apc[p] = "second" /\ acur[p][1] = a /\ acur[p][3] = b

EvCreate == IsEvent("Create") /\ Create /\ UNCHANGED run
EvJoin == IsEvent("Join") /\ Join(Ev.p) /\ UNCHANGED run
EvGo == /\ IsEvent("go")
        /\ run[<<Ev.p, Ev.t>>] = Idle
        /\ run' = [run EXCEPT ![<<Ev.p, Ev.t>>] = <<Ev.act, Ev.a, Ev.b>>]
        /\ UNCHANGED vars
Silent == \E t \in Thread :
            /\ run[t] \notin {Idle, Fin}
            /\ Act(t[1], run[t][1], run[t][2], run[t][3])
            /\ run' = [run EXCEPT ![t] = Fin]
            /\ l' = l
EvAt == /\ IsEvent("at")
        /\ run[<<Ev.p, Ev.t>>] \in {Idle, Fin}
        /\ AtGate(Ev.p, Ev.act, Ev.a, Ev.b)
        /\ run' = [run EXCEPT ![<<Ev.p, Ev.t>>] = Idle]
        /\ UNCHANGED vars
EvFin == /\ IsEvent("fin")
         /\ run[<<Ev.p, "main">>] = Fin
         /\ pc[Ev.p] = <<"done">>
         /\ run' = [run EXCEPT ![<<Ev.p, "main">>] = Idle]
         /\ UNCHANGED vars
EvReset == /\ IsEvent("reset")
           /\ pc' = [p \in Party |-> <<"init">>]
           /\ need' = [p \in Party |-> [c \in ConnIx |-> 0]]
           /\ peers' = [p \in Party |-> {p}]
           /\ conns' = [p \in Party |-> [qc \in (Party \X ConnIx) |-> NoConn]]
           /\ backlog' = [p \in Party |-> <<>>]
           /\ hello' = {} /\ apc' = [p \in Party |-> "off"]
           /\ acur' = [p \in Party |-> NoConn] /\ list' = [p \in Party |-> NoList]
           /\ errs' = {} /\ run' = [t \in Thread |-> Idle]

TraceNext == EvCreate \/ EvJoin \/ EvGo \/ Silent \/ EvAt \/ EvFin \/ EvReset
TraceSpec == TraceInit /\ [][TraceNext]_tvars

HighWater == IF l > TLCGet(1) THEN TLCSet(1, l) ELSE TRUE
TraceAccepted ==
    IF TLCGet(1) = Len(TraceLog) + 1 THEN TRUE
    ELSE Print(<<"VHREJECT", TLCGet(1), ToJson(TraceLog[TLCGet(1)])>>, FALSE)
ASSUME TLCSet(1, 0)
=============================================================================
