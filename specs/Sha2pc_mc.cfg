SPECIFICATION Spec
INVARIANT Safety
PROPERTY Completes
CHECK_DEADLOCK FALSE
