--------------------------------- MODULE Kos ---------------------------------
(***************************************************************************)
(* ot/iknp.go, malicious mode: the consistency check of the OT extension.  *)
(* Labels are polynomials over GF(2) of degree < KB (KB = 128 in reality), *)
(* products are NOT reduced (degree < 2*KB - 1), as vectorInnPrdtSumNoRed  *)
(* and mul128 compute them.                                                *)
(*   receiver: t = sum chi_j * t_j,  x = sum x_j * chi_j   (over payload   *)
(*             rows and the extra check rows with random choices)          *)
(*   sender:   q = sum chi_j * q_j;  accept  iff  q = t + x * Delta        *)
(* with q_j = t_j + x_j * Delta when nobody deviates.  A fault flips one   *)
(* bit u[col][row] of the extension matrix in transit: the sender's q_row  *)
(* changes in bit `col` iff Delta_col = 1.  Rows >= N of the last byte are *)
(* padding and never used.  A second fault may flip another row of the     *)
(* same column: the two cancel in the check exactly when their challenge   *)
(* coefficients are equal - which a fresh challenge stream makes as        *)
(* unlikely as a zero coefficient, and a stream that restarts (the same    *)
(* coefficients for payload row i and check row i, or for rows one block   *)
(* apart) makes certain.                                                   *)
(***************************************************************************)
EXTENDS Integers, Sequences, FiniteSets, TLC

CONSTANTS KB,        \* bits per label
          Rows,      \* payload rows + check rows, all used
          PadRows,   \* extra rows present in the matrix but discarded
          CheckBothHalves  \* FALSE: sender compares only with `and` of the two halves (deviation)

Bit == {0, 1}
Poly == [0..(KB - 1) -> Bit]
Xor(a, b) == (a + b) % 2
PXor(p, q) == [i \in DOMAIN p |-> Xor(p[i], q[i])]
ZeroP(n) == [i \in 0..(n - 1) |-> 0]
\* carry-less product, 2*KB coefficients
Mul(a, b) == [d \in 0..(2 * KB - 1) |->
                LET S == {i \in 0..(KB - 1) : d - i >= 0 /\ d - i < KB /\ a[i] = 1 /\ b[d - i] = 1}
                IN Cardinality(S) % 2]
RECURSIVE SumMul(_, _, _)
SumMul(chi, v, rs) == IF rs = {} THEN ZeroP(2 * KB)
                      ELSE LET r == CHOOSE r \in rs : TRUE IN PXor(Mul(chi[r], v[r]), SumMul(chi, v, rs \ {r}))
RECURSIVE SumSel(_, _, _)
SumSel(chi, x, rs) == IF rs = {} THEN ZeroP(KB)
                      ELSE LET r == CHOOSE r \in rs : TRUE
                           IN PXor(IF x[r] = 1 THEN chi[r] ELSE ZeroP(KB), SumSel(chi, x, rs \ {r}))

Row == 0..(Rows - 1)
AllRow == 0..(Rows + PadRows - 1)
\* fixed arbitrary receiver outputs t_j (the identity is linear in them)
T(r) == [i \in 0..(KB - 1) |-> ((r * 3 + i * 5 + r * i) % 7) % 2]

VARIABLES delta, x, chi, flip, flip2, accepted, phase
vars == <<delta, x, chi, flip, flip2, accepted, phase>>
NoFlip == <<-1, -1>>

Init == /\ delta \in Poly /\ x \in [Row -> Bit] /\ chi \in [Row -> Poly]
        /\ flip \in {NoFlip} \cup ((0..(KB - 1)) \X AllRow)
        \* an optional second flip: same column, another row
        /\ flip2 \in {NoFlip} \cup (IF flip = NoFlip THEN {} ELSE {<<flip[1], r>> : r \in AllRow \ {flip[2]}})
        /\ accepted = FALSE /\ phase = "check"

\* the sender's q_j after the (possibly altered) matrix arrived
Q(r) == LET honest == PXor(T(r), IF x[r] = 1 THEN delta ELSE ZeroP(KB))
        IN IF flip # NoFlip /\ (flip[2] = r \/ (flip2 # NoFlip /\ flip2[2] = r)) /\ delta[flip[1]] = 1
           THEN [honest EXCEPT ![flip[1]] = 1 - @] ELSE honest

Check == /\ phase = "check"
         /\ LET tt == SumMul(chi, [r \in Row |-> T(r)], Row)
                xx == SumSel(chi, x, Row)
                qq == SumMul(chi, [r \in Row |-> Q(r)], Row)
                rhs == PXor(tt, Mul(xx, delta))
                lo == \A d \in 0..(KB - 1) : qq[d] = rhs[d]
                hi == \A d \in KB..(2 * KB - 1) : qq[d] = rhs[d]
            IN accepted' = IF CheckBothHalves THEN lo /\ hi ELSE lo \/ hi
         /\ phase' = "done"
         /\ UNCHANGED <<delta, x, chi, flip, flip2>>
Spec == Init /\ [][Check]_vars

Correlated == \A r \in Row : Q(r) = PXor(T(r), IF x[r] = 1 THEN delta ELSE ZeroP(KB))
\* honest executions never abort
HonestAccepts == (phase = "done" /\ flip = NoFlip) => accepted
\* the used rows that were altered, and the sum of their challenge coefficients
Hit == {r \in Row : flip # NoFlip /\ (flip[2] = r \/ (flip2 # NoFlip /\ flip2[2] = r))}
RECURSIVE ChiSum(_)
ChiSum(rs) == IF rs = {} THEN ZeroP(KB) ELSE LET r == CHOOSE r \in rs : TRUE IN PXor(chi[r], ChiSum(rs \ {r}))
\* whatever is accepted still satisfies the correlation for the receiver's original choices
\* (except when the challenge coefficients of the altered rows cancel: one coefficient that is 0, two that are
\* equal - probability 2^-128 each with KB = 128 and a challenge stream that never repeats)
Sound == (phase = "done" /\ accepted) =>
            (Correlated \/ (Hit # {} /\ ChiSum(Hit) = ZeroP(KB)))
\* the exact outcome of one or two flips in a column: rejected iff Delta selects the column and the coefficients
\* of the altered used rows do not cancel
Exact == (phase = "done" /\ flip # NoFlip) =>
            (accepted <=> (delta[flip[1]] = 0 \/ ChiSum(Hit) = ZeroP(KB)))
Safety == HonestAccepts /\ Sound /\ Exact
=============================================================================
