-------------------------- MODULE StreamWireTrace --------------------------
(***************************************************************************)
(* Trace validation of the streaming wire protocol: the byte stream a real *)
(* Compiler.Stream session wrote (garbler -> evaluator, OT traffic cut out *)
(* at the stream positions recorded by the harness' OT wrapper) is parsed  *)
(* into messages by the harness and replayed here against the evaluator    *)
(* machine of StreamWire.tla with the REAL ids and sizes (Page = 65536):   *)
(*                                                                         *)
(*   hdr   in1, in2, nout, nsteps, labels   program header + garbler labels*)
(*   circ  step, ng, ntmpw, nwires          OpCircuit declaration          *)
(*   gates step, g = <<op, flags, a, b, c, rows>> ...   one line per chunk *)
(*   ret   ids                              OpReturn                       *)
(*   res   n, len                           evaluator's labels, result data*)
(*   reset                                  next session                   *)
(*                                                                         *)
(* The machine is deterministic, every variable is bound at every event,   *)
(* so the invariants are evaluated only on states the session really had.  *)
(* flags: 8 = a is temporary, 4 = b, 2 = c, 1 = 16-bit ids.                *)
(***************************************************************************)
EXTENDS Integers, Sequences, FiniteSets, TLC, Json

CONSTANT Page

TraceLog == ndJsonDeserialize("streamwire_trace.ndjson")

VARIABLES l,        \* next line
          phase,    \* "hdr" | "steps" | "returned" | "done"
          perm,     \* set of permanent ids that hold a label
          tmpw,     \* temporaries written in the current circuit
          pages, tcap, \* evaluator's store sizes
          decl,     \* current circuit declaration [step, ng, ntmpw, nwires]
          gdone,    \* gates of the current circuit seen so far
          nout, nsteps, laststep,
          bad       \* set of <<tag, line>> (first few)

vars == <<l, phase, perm, tmpw, pages, tcap, decl, gdone, nout, nsteps, laststep, bad>>

NoDecl == [step |-> 0, ng |-> 0, ntmpw |-> 0, nwires |-> 0]
Init == /\ l = 1 /\ phase = "hdr" /\ perm = {} /\ tmpw = {} /\ pages = 0 /\ tcap = 0
        /\ decl = NoDecl /\ gdone = 0 /\ nout = 0 /\ nsteps = 0 /\ laststep = 0 /\ bad = {}

Ev == TraceLog[l]
Is(e) == l <= Len(TraceLog) /\ Ev.ev = e
Flag(b) == IF Cardinality(bad) < 4 THEN bad \cup {b} ELSE bad
PagesFor(n, p) == IF p * Page <= n THEN n \div Page + 1 ELSE p
Rows(op) == CASE op = 2 -> 2 [] op = 3 -> 3 [] op = 4 -> 1 [] OTHER -> 0   \* XOR=0 XNOR=1 AND=2 OR=3 INV=4

Hdr ==
    /\ Is("hdr") /\ phase = "hdr"
    /\ perm' = 0..(Ev.in1 + Ev.in2 - 1)
    /\ pages' = PagesFor(Ev.in1 + Ev.in2 + Ev.nout, 0)     \* NewStreamEval
    /\ nout' = Ev.nout /\ nsteps' = Ev.nsteps
    \* one label per garbler input bit, no more, no less
    /\ bad' = IF Ev.labels # Ev.in1 THEN Flag(<<"garbler-labels", l>>) ELSE bad
    /\ phase' = "steps" /\ l' = l + 1
    /\ UNCHANGED <<tmpw, tcap, decl, gdone, laststep>>

Circ ==
    /\ Is("circ") /\ phase = "steps"
    /\ decl' = [step |-> Ev.step, ng |-> Ev.ng, ntmpw |-> Ev.ntmpw, nwires |-> Ev.nwires]
    /\ pages' = PagesFor(Ev.nwires, pages)
    /\ tcap' = IF tcap < Ev.ntmpw THEN Ev.ntmpw ELSE tcap
    /\ tmpw' = {} /\ gdone' = 0
    /\ laststep' = Ev.step
    /\ bad' = LET b1 == IF gdone # decl.ng THEN Flag(<<"gate-count", l>>) ELSE bad
                  b2 == IF Ev.step < laststep \/ Ev.step >= nsteps THEN b1 \cup {<<"step-order", l>>} ELSE b1
              IN b2
    /\ l' = l + 1
    /\ UNCHANGED <<phase, perm, nout, nsteps>>

\* one gate against the evaluator's stores; returns the tags it raises
GateBad(g, P, T) ==
    LET op == g[1]  fl == g[2]  a == g[3]  b == g[4]  c == g[5]  rows == g[6]
        aT == (fl \div 8) % 2 = 1   bT == (fl \div 4) % 2 = 1   cT == (fl \div 2) % 2 = 1
        unary == op = 4
        rd(t, i) == IF t THEN i \in T ELSE i \in P
        cap(t, i) == IF t THEN i < tcap /\ i < decl.ntmpw ELSE i < pages * Page
    IN (IF ~rd(aT, a) \/ (~unary /\ ~rd(bT, b)) THEN {"undefined-read"} ELSE {})
       \cup (IF ~cap(aT, a) \/ (~unary /\ ~cap(bT, b)) \/ ~cap(cT, c) THEN {"index-out-of-range"} ELSE {})
       \cup (IF rows # Rows(op) THEN {"rows"} ELSE {})
       \cup (IF op \notin 0..4 THEN {"op"} ELSE {})

RECURSIVE RunGates(_, _, _, _, _)
\* folds a chunk of gates: returns <<perm, tmpw, tags>>
RunGates(gs, i, P, T, tags) ==
    IF i > Len(gs) THEN <<P, T, tags>>
    ELSE LET g == gs[i]
             cT == (g[2] \div 2) % 2 = 1
         IN RunGates(gs, i + 1, IF cT THEN P ELSE P \cup {g[5]}, IF cT THEN T \cup {g[5]} ELSE T,
                     tags \cup GateBad(g, P, T))

Gates ==
    /\ Is("gates") /\ phase = "steps"
    /\ LET r == RunGates(Ev.g, 1, perm, tmpw, {}) IN
         /\ perm' = r[1] /\ tmpw' = r[2]
         /\ bad' = IF r[3] # {} THEN Flag(<<CHOOSE t \in r[3] : TRUE, l>>) ELSE bad
    /\ gdone' = gdone + Len(Ev.g)
    /\ l' = l + 1
    /\ UNCHANGED <<phase, pages, tcap, decl, nout, nsteps, laststep>>

Ret ==
    /\ Is("ret") /\ phase = "steps"
    /\ bad' = LET ids == {Ev.ids[i] : i \in 1..Len(Ev.ids)}
                  b1 == IF gdone # decl.ng THEN Flag(<<"gate-count", l>>) ELSE bad
                  b2 == IF Len(Ev.ids) # nout THEN b1 \cup {<<"return-count", l>>} ELSE b1
                  b3 == IF ~(ids \subseteq perm) THEN b2 \cup {<<"return-undefined", l>>} ELSE b2
                  b4 == IF \E i \in ids : i >= pages * Page THEN b3 \cup {<<"index-out-of-range", l>>} ELSE b3
              IN b4
    /\ phase' = "returned" /\ l' = l + 1
    /\ UNCHANGED <<perm, tmpw, pages, tcap, decl, gdone, nout, nsteps, laststep>>

Res ==
    /\ Is("res") /\ phase = "returned"
    /\ bad' = IF Ev.n # nout THEN Flag(<<"result-labels", l>>) ELSE bad
    /\ phase' = "done" /\ l' = l + 1
    /\ UNCHANGED <<perm, tmpw, pages, tcap, decl, gdone, nout, nsteps, laststep>>

Reset ==
    /\ Is("reset") /\ phase = "done"
    /\ l' = l + 1 /\ phase' = "hdr" /\ perm' = {} /\ tmpw' = {} /\ pages' = 0 /\ tcap' = 0
    /\ decl' = NoDecl /\ gdone' = 0 /\ nout' = 0 /\ nsteps' = 0 /\ laststep' = 0
    /\ UNCHANGED bad

Next == Hdr \/ Circ \/ Gates \/ Ret \/ Res \/ Reset
Spec == Init /\ [][Next]_vars

\* the property-level invariant: the evaluator never evaluates a gate on a wire that holds no label
\* (or a stale one of an earlier circuit), never indexes beyond its stores, and the stream is well framed
WellFormed == bad = {}
Accepted == TLCGet("stats").diameter - 1 = Len(TraceLog)
=============================================================================
