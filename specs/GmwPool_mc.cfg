SPECIFICATION Spec
CONSTANTS
  NParties = 3
  W = 2
  LowWater = 1
  BatchWords <- MCBatchA
  Gets <- MCGetsA
  MaxBatches = 4
  GetTakesFullCount = FALSE
INVARIANT Safety
PROPERTY AllServed
CHECK_DEADLOCK FALSE
