---------------------------- MODULE SecrecyTrace ----------------------------
(* C04 on real transcripts.  The harness records every byte the garbler    *)
(* transmits, recomputes the secret offset R from the garbler's recorded   *)
(* randomness and reports, per session,                                    *)
(*   send(wire, which)  a 16-byte window equal to label `which` of `wire`  *)
(*                      (whole-circuit mode: all labels are recomputed)    *)
(*   ot(wire, which)    the label the ideal OT releases to the evaluator   *)
(*   diff(off)          a window w such that w xor R is also transmitted   *)
(*   rsent(off)         a window equal to R                                *)
(* The variables are the knowledge set `sent` of TwoParty.tla restricted to *)
(* what can be observed on bytes; the invariants are TwoParty's Secrecy.    *)
EXTENDS Integers, Sequences, FiniteSets, TLC, Json, TLCExt

TraceLog == ndJsonDeserialize("secrecy_trace.ndjson")

VARIABLES l, kind, sentL, diffs, rsent, sessions
vars == <<l, kind, sentL, diffs, rsent, sessions>>
Ev == TraceLog[l]
Step(e) == l <= Len(TraceLog) /\ Ev.ev = e /\ l' = l + 1

Init == l = 1 /\ kind = "none" /\ sentL = {} /\ diffs = 0 /\ rsent = 0 /\ sessions = 0

Sess == Step("sess") /\ kind' = Ev.kind /\ sentL' = {} /\ diffs' = 0 /\ rsent' = 0 /\ sessions' = sessions + 1
Send == Step("send") /\ sentL' = sentL \cup {<<Ev.wire, Ev.which>>} /\ UNCHANGED <<kind, diffs, rsent, sessions>>
OT == Step("ot") /\ sentL' = sentL \cup {<<Ev.wire, Ev.which>>} /\ UNCHANGED <<kind, diffs, rsent, sessions>>
Diff == Step("diff") /\ diffs' = diffs + 1 /\ UNCHANGED <<kind, sentL, rsent, sessions>>
RSent == Step("rsent") /\ rsent' = rsent + 1 /\ UNCHANGED <<kind, sentL, diffs, sessions>>
End == Step("end") /\ UNCHANGED <<kind, sentL, diffs, rsent, sessions>>

Next == Sess \/ Send \/ OT \/ Diff \/ RSent \/ End
Spec == Init /\ [][Next]_vars

NoPair == \A x \in sentL : <<x[1], 1 - x[2]>> \notin sentL
NoRDiff == diffs = 0
NoR == rsent = 0
Secrecy == NoPair /\ NoRDiff /\ NoR

Accepted == IF TLCGet("stats").diameter - 1 = Len(TraceLog) THEN TRUE
            ELSE Print(<<"VHREJECT", TLCGet("stats").diameter, 0>>, FALSE)
=============================================================================
