-------------------------------- MODULE Determ --------------------------------
(***************************************************************************)
(* C08: compilation is deterministic.                                      *)
(*                                                                         *)
(* A history is a sequence of compile operations in a few processes.  An   *)
(* operation names the program, the input sizes and the parameter VALUES   *)
(* the user chose, and how it shares state with earlier operations of its  *)
(* process:                                                                *)
(*   "fresh"     new utils.Params, new compiler.Compiler                   *)
(*   "params"    new Compiler on the process' shared Params object (the    *)
(*               apps create one Params and call compiler.New per file)    *)
(*   "compiler"  the process' shared Compiler instance                     *)
(*   "par"       new Params and Compiler, in a goroutine that runs at the  *)
(*               same time as the neighbouring "par" operations of its     *)
(*               process (a server compiling for several sessions)         *)
(* What must not matter is modelled as hidden state the implementation     *)
(* keeps: values memoised into the shared Params (memo), packages cached   *)
(* in the Compiler (cache), and the order maps happen to be iterated in    *)
(* (order, chosen anew for every operation), and scratch memory of the     *)
(* process that operations running at the same time would share (scratch). *)
(* The output of an operation                                              *)
(* is [prog, sizes, vals, leak]; in the design leak is empty.  The         *)
(* constants name deviations - each makes one piece of hidden state leak   *)
(* into the output - and TLC shows that Deterministic then fails.          *)
(***************************************************************************)
EXTENDS Integers, Sequences, FiniteSets, TLC

CONSTANTS Progs, SizeIds, ValIds, MaxOps, Procs, Orders,
          LeakMemo, LeakCache, LeakOrder, LeakScratch

Shares == {"fresh", "params", "compiler", "par"}
Op == [proc : Procs, share : Shares, prog : Progs, sizes : SizeIds, vals : ValIds]

VARIABLES ops,     \* the history
          outs,    \* output of every operation
          memo,    \* [proc, vals] -> set of (prog, sizes) compiled on the shared Params
          cache    \* [proc, vals] -> set of progs compiled on the shared Compiler
vars == <<ops, outs, memo, cache>>

Init == /\ ops = <<>> /\ outs = <<>>
        /\ memo = [p \in Procs |-> [v \in ValIds |-> {}]]
        /\ cache = [p \in Procs |-> [v \in ValIds |-> {}]]

Leak(o, ord) ==
    (IF LeakMemo /\ o.share \in {"params", "compiler"} THEN {<<"memo", memo[o.proc][o.vals]>>} ELSE {})
    \cup (IF LeakCache /\ o.share = "compiler" THEN {<<"cache", cache[o.proc][o.vals]>>} ELSE {})
    \cup (IF LeakOrder THEN {<<"order", ord>>} ELSE {})
    \* a concurrent operation sees what its neighbour of the same process left in process-wide scratch memory
    \cup (IF LeakScratch /\ o.share = "par" /\ Len(ops) > 0 /\ ops[Len(ops)].share = "par" /\ ops[Len(ops)].proc = o.proc
          THEN {<<"scratch", ops[Len(ops)].prog, ops[Len(ops)].sizes>>} ELSE {})

Compile(o, ord) ==
    /\ Len(ops) < MaxOps
    /\ ops' = Append(ops, o)
    /\ outs' = Append(outs, [prog |-> o.prog, sizes |-> o.sizes, vals |-> o.vals, leak |-> Leak(o, ord)])
    /\ memo' = IF o.share \in {"fresh", "par"} THEN memo
               ELSE [memo EXCEPT ![o.proc][o.vals] = @ \cup {<<o.prog, o.sizes>>}]
    /\ cache' = IF o.share = "compiler" THEN [cache EXCEPT ![o.proc][o.vals] = @ \cup {o.prog}] ELSE cache

Next == \E o \in Op : \E ord \in Orders : Compile(o, ord)
Spec == Init /\ [][Next]_vars

SameRequest(i, j) == /\ ops[i].prog = ops[j].prog /\ ops[i].sizes = ops[j].sizes /\ ops[i].vals = ops[j].vals
\* the same source, parameters and input sizes always yield the same bytes
Deterministic == \A i, j \in 1..Len(ops) : SameRequest(i, j) => outs[i] = outs[j]
=============================================================================
