----------------------------- MODULE ConnTrace -----------------------------
(* Trace validation: events recorded from two real p2p.Conn (one direction *)
(* per session, sessions concatenated with "reset") must be a behaviour of *)
(* Conn.  Internal steps of the three goroutines are silent; acceptance is *)
(* by the high-water mark of consumed lines.                               *)
EXTENDS Conn, Json, TLCExt

TraceLog == ndJsonDeserialize("conn_trace.ndjson")

VARIABLE l
tvars == <<vars, l>>

Ev == TraceLog[l]
IsEvent(e) == l <= Len(TraceLog) /\ Ev.ev = e /\ l' = l + 1

TraceInit == Init /\ l = 1

Silent == /\ \/ SFixed \/ SData \/ SItems \/ SFlushHandoff \/ SFlushTake
             \/ WTake
             \/ RFixed \/ RFillStart \/ RFillDone \/ RData \/ RItems
          /\ l' = l

EvSend == IsEvent("send") /\ SBegin(Ev.k, Ev.a)
EvSendRet == /\ IsEvent("sendret") /\ SEnd
             /\ wpos = Ev.a /\ sentStat = Ev.b /\ flushedStat = Ev.c
EvClose == IsEvent("close") /\ SClose
\* Close() runs the final flush and the drain; its end is one event
EvClosed == /\ IsEvent("closed")
            /\ closing = "drain" /\ toW = <<>> /\ writing = None
            /\ closing' = "done"
            /\ wire = Ev.a /\ sentStat = Ev.b
            /\ UNCHANGED <<sop, sret, wpos, cur, produced, sentStat, flushedStat, nops,
                           wvars, rvars, msgs>>
EvCloseFlushEnd == SEnd /\ closing = "flush" /\ l' = l
EvWrite == IsEvent("write") /\ WWrite /\ writing.hi - writing.lo = Ev.a
EvRecv == IsEvent("recv") /\ RBeginK(Ev.k, Ev.a)
EvRead == IsEvent("read") /\ RFillReadN(Ev.a)
EvRecvRet == /\ IsEvent("recvret") /\ REnd
             /\ rend - rstart = Ev.b - Ev.a /\ recvdStat = Ev.c   \* the unread window, not where it sits in the buffer
EvReset == /\ IsEvent("reset")
           /\ sop' = IdleS /\ sret' = "idle" /\ wpos' = 0 /\ cur' = 1 /\ produced' = 0
           /\ sentStat' = 0 /\ flushedStat' = 0 /\ nops' = 0 /\ closing' = "no"
           /\ toW' = <<>> /\ fromW' = [i \in 1..(NBufs-1) |-> i + 1] /\ writing' = None
           /\ wire' = 0 /\ gap' = FALSE /\ clobber' = FALSE
           /\ rop' = IdleR /\ rret' = "idle" /\ rbase' = 0 /\ rstart' = 0 /\ rend' = 0
           /\ recvdStat' = 0 /\ consumed' = 0 /\ misframed' = FALSE
           /\ msgs' = <<>>

TraceNext == Silent \/ EvSend \/ EvSendRet \/ EvClose \/ EvClosed \/ EvCloseFlushEnd
             \/ EvWrite \/ EvRecv \/ EvRead \/ EvRecvRet \/ EvReset

TraceSpec == TraceInit /\ [][TraceNext]_tvars

HighWater == IF l > TLCGet(1) THEN TLCSet(1, l) ELSE TRUE
TraceAccepted ==
    IF TLCGet(1) = Len(TraceLog) + 1 THEN TRUE
    ELSE Print(<<"VHREJECT", TLCGet(1), ToJson(TraceLog[TLCGet(1)])>>, FALSE)
ASSUME TLCSet(1, 0)
=============================================================================
