SPECIFICATION TraceSpec
CONSTANTS
  WBuf = 65536
  RBuf = 1048576
  NBufs = 3
  Lens = {}
  SizesLens = {}
  MaxOps = 100000000
CONSTRAINT HighWater
INVARIANT Safety
POSTCONDITION TraceAccepted
CHECK_DEADLOCK FALSE
