SPECIFICATION GSpec
CONSTANTS
  MaxMembers = 3
  ScalarWidths = {1, 3, 8, 16}
  ElWidths = {4, 8}
  Counts = {0, 1, 3}
CONSTRAINT Emit
CHECK_DEADLOCK FALSE
