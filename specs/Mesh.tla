-------------------------------- MODULE Mesh --------------------------------
(***************************************************************************)
(* p2p/network.go: formation of the full mesh (Create / Join / Connect).   *)
(*                                                                         *)
(* One action per stretch of code between two `verif` gates, i.e. per     *)
(* critical section / blocking point:                                      *)
(*   main thread of the leader : Create, LStart, Wait(c), SendList         *)
(*   main thread of a joiner   : Join, Hello, RecvList, Dial(q,c), Wait(c) *)
(*   accept goroutine          : Accept, ReadHello, AFirst, ASecond        *)
(* acceptConn is TWO steps, as in the code.  CountFirst = TRUE is the      *)
(* order of the pinned tree before the fix (decrement need and broadcast,  *)
(* then addPeer); CountFirst = FALSE is addPeer first, then count.         *)
(***************************************************************************)
EXTENDS Integers, Sequences, FiniteSets, TLC

CONSTANTS N,          \* parties 0..N-1, 0 is the leader
          C,          \* connections per pair
          CountFirst, \* BOOLEAN, see above
          EarlyAccept,\* BOOLEAN: FALSE as coded - a joiner starts its accept goroutine after it has read the peer
                      \* list and set need[]; TRUE is the deviation "accept loop started at the beginning of Connect"
          DialAnyOrder \* BOOLEAN: TRUE - the targets of one round are dialled in any order; FALSE - lowest id first

Party == 0..(N-1)
Joiner == 1..(N-1)
ConnIx == 0..(C-1)
NoConn == <<-1, -1, -1>>
NoList == {-1}

VARIABLES pc,       \* main thread
          need,     \* need[p][c]
          peers,    \* ids in Network.Peers
          conns,    \* conns[p][<<q,c>>] : connection id <<dialer, acceptor, c>> or NoConn
          backlog,  \* listener accept queue of p: sequence of connection ids
          hello,    \* connection ids whose hello message has been sent
          apc, acur,\* accept goroutine
          list,     \* list[q]: peer list in flight from the leader to q (set of ids) or NoList
          errs      \* errors returned anywhere

vars == <<pc, need, peers, conns, backlog, hello, apc, acur, list, errs>>

Init ==
    /\ pc = [p \in Party |-> <<"init">>]
    /\ need = [p \in Party |-> [c \in ConnIx |-> 0]]
    /\ peers = [p \in Party |-> {p}]
    /\ conns = [p \in Party |-> [qc \in (Party \X ConnIx) |-> NoConn]]
    /\ backlog = [p \in Party |-> <<>>]
    /\ hello = {}
    /\ apc = [p \in Party |-> "off"]
    /\ acur = [p \in Party |-> NoConn]
    /\ list = [p \in Party |-> NoList]
    /\ errs = {}

\* dial targets of joiner j for connection index c, in the order of the sorted Peers slice
Targets(j, c, known) ==
    LET hi == {q \in known : q > j}
        S  == IF c > 0 THEN {0} \cup hi ELSE hi
    IN  S
MinOf(S) == CHOOSE x \in S : \A y \in S : x <= y

(***************************************************************************)
(* Leader                                                                  *)
(***************************************************************************)
Create == /\ pc[0] = <<"init">>
          /\ pc' = [pc EXCEPT ![0] = <<"lstart">>]
          /\ UNCHANGED <<need, peers, conns, backlog, hello, apc, acur, list, errs>>

LStart == /\ pc[0] = <<"lstart">>
          /\ need' = [need EXCEPT ![0] = [c \in ConnIx |-> N - 1]]
          /\ apc' = [apc EXCEPT ![0] = "accept.pre"]
          /\ pc' = [pc EXCEPT ![0] = <<"wait", 0>>]
          /\ UNCHANGED <<peers, conns, backlog, hello, acur, list, errs>>

\* where the dial loop of joiner j stands: next dial, or the wait if no target is left
AfterDials(j, c, done, known) == IF Targets(j, c, known) \ done = {} THEN <<"wait", c>>
                                 ELSE <<"dial", c, done>>

NextAfterWait(p, c) == IF c + 1 < C
                       THEN (IF p = 0 THEN <<"wait", c + 1>> ELSE AfterDials(p, c + 1, {}, peers[p]))
                       ELSE <<"done">>

Wait(p, c) == /\ pc[p] = <<"wait", c>>
              /\ need[p][c] = 0
              /\ pc' = [pc EXCEPT ![p] = IF p = 0 /\ c = 0 THEN <<"sendlist">> ELSE NextAfterWait(p, c)]
              /\ UNCHANGED <<need, peers, conns, backlog, hello, apc, acur, list, errs>>

\* `for _, peer := range nw.Peers` -- reads Peers without the mutex
SendList == /\ pc[0] = <<"sendlist">>
            /\ list' = [q \in Party |-> IF q \in peers[0] \ {0} THEN peers[0] \ {0, q} ELSE list[q]]
            /\ pc' = [pc EXCEPT ![0] = NextAfterWait(0, 0)]
            /\ UNCHANGED <<need, peers, conns, backlog, hello, apc, acur, errs>>

(***************************************************************************)
(* Joiner                                                                  *)
(***************************************************************************)
Join(j) == /\ pc[j] = <<"init">> /\ pc[0] # <<"init">>
           /\ backlog' = [backlog EXCEPT ![0] = Append(@, <<j, 0, 0>>)]
           /\ conns' = [conns EXCEPT ![j][<<0, 0>>] = <<j, 0, 0>>]
           /\ peers' = [peers EXCEPT ![j] = @ \cup {0}]
           /\ pc' = [pc EXCEPT ![j] = <<"hello.pre">>]
           /\ apc' = IF EarlyAccept THEN [apc EXCEPT ![j] = "accept.pre"] ELSE apc
           /\ UNCHANGED <<need, hello, acur, list, errs>>

Hello(j) == /\ pc[j] = <<"hello.pre">>
            /\ hello' = hello \cup {<<j, 0, 0>>}
            /\ pc' = [pc EXCEPT ![j] = <<"hello.post">>]
            /\ UNCHANGED <<need, peers, conns, backlog, apc, acur, list, errs>>

RecvList(j) == /\ pc[j] = <<"hello.post">>
               /\ list[j] # NoList
               /\ peers' = [peers EXCEPT ![j] = @ \cup list[j]]
               /\ need' = [need EXCEPT ![j] = [c \in ConnIx |-> Cardinality({i \in list[j] : i < j})]]
               /\ apc' = IF EarlyAccept THEN apc ELSE [apc EXCEPT ![j] = "accept.pre"]
               /\ pc' = [pc EXCEPT ![j] = AfterDials(j, 0, {}, peers'[j])]
               /\ UNCHANGED <<conns, backlog, hello, acur, list, errs>>

\* one dial(): net.Dial, hello, flush, SetConn.  The property does not depend on the order in which a party dials
\* its targets of one round: DialAnyOrder = TRUE lets it dial them in every order (model checking, trace validation);
\* FALSE is the order of the pinned code, lowest id first (the behaviour generator, whose behaviours are replayed).
DialTarget(j) == MinOf(Targets(j, pc[j][2], peers[j]) \ pc[j][3])
DialChoices(j) == IF DialAnyOrder THEN Targets(j, pc[j][2], peers[j]) \ pc[j][3] ELSE {DialTarget(j)}
DialTo(j, q) == /\ pc[j][1] = "dial"
                /\ q \in DialChoices(j)
                /\ LET c == pc[j][2]
                       done == pc[j][3] IN
                   /\ backlog' = [backlog EXCEPT ![q] = Append(@, <<j, q, c>>)]
                   /\ hello' = hello \cup {<<j, q, c>>}
                   /\ conns' = [conns EXCEPT ![j][<<q, c>>] = <<j, q, c>>]
                   /\ pc' = [pc EXCEPT ![j] = AfterDials(j, c, done \cup {q}, peers[j])]
                /\ UNCHANGED <<need, peers, apc, acur, list, errs>>
Dial(j) == pc[j][1] = "dial" /\ \E q \in DialChoices(j) : DialTo(j, q)

(***************************************************************************)
(* Accept goroutine                                                        *)
(***************************************************************************)
Accept(p) == /\ apc[p] = "accept.pre" /\ backlog[p] # <<>>
             /\ acur' = [acur EXCEPT ![p] = Head(backlog[p])]
             /\ backlog' = [backlog EXCEPT ![p] = Tail(@)]
             /\ apc' = [apc EXCEPT ![p] = "accept.post"]
             /\ UNCHANGED <<pc, need, peers, conns, hello, list, errs>>

ReadHello(p) == /\ apc[p] = "accept.post" /\ acur[p] \in hello
                /\ apc' = [apc EXCEPT ![p] = "first"]
                /\ UNCHANGED <<pc, need, peers, conns, backlog, hello, acur, list, errs>>

DoCount(p) == LET c == acur[p][3] IN
              IF need[p][c] = 0
              THEN /\ errs' = errs \cup {<<"too many connections", p, acur[p]>>}
                   /\ UNCHANGED need
              ELSE /\ need' = [need EXCEPT ![p][c] = @ - 1]
                   /\ UNCHANGED errs

DoAdd(p) == LET from == acur[p][1]
                c == acur[p][3] IN
            /\ peers' = [peers EXCEPT ![p] = @ \cup {from}]
            /\ IF conns[p][<<from, c>>] # NoConn
               THEN /\ errs' = errs \cup {<<"connection already set", p, acur[p]>>}
                    /\ UNCHANGED conns
               ELSE /\ conns' = [conns EXCEPT ![p][<<from, c>>] = acur[p]]
                    /\ UNCHANGED errs

AFirst(p) == /\ apc[p] = "first"
             /\ IF CountFirst
                THEN DoCount(p) /\ UNCHANGED <<peers, conns>>
                ELSE DoAdd(p) /\ UNCHANGED need
             /\ apc' = [apc EXCEPT ![p] = "second"]
             /\ UNCHANGED <<pc, backlog, hello, acur, list>>

ASecond(p) == /\ apc[p] = "second"
              /\ IF CountFirst
                 THEN DoAdd(p) /\ UNCHANGED need
                 ELSE DoCount(p) /\ UNCHANGED <<peers, conns>>
              /\ apc' = [apc EXCEPT ![p] = "accept.pre"]
              /\ acur' = [acur EXCEPT ![p] = NoConn]
              /\ UNCHANGED <<pc, backlog, hello, list>>

Main(p) == IF p = 0 THEN Create \/ LStart \/ SendList \/ \E c \in ConnIx : Wait(0, c)
           ELSE Join(p) \/ Hello(p) \/ RecvList(p) \/ Dial(p) \/ \E c \in ConnIx : Wait(p, c)
Acc(p) == Accept(p) \/ ReadHello(p) \/ AFirst(p) \/ ASecond(p)

Next == \E p \in Party : Main(p) \/ Acc(p)

Spec == Init /\ [][Next]_vars /\ \A p \in Party : WF_vars(Main(p)) /\ WF_vars(Acc(p))

(***************************************************************************)
(* Properties                                                              *)
(***************************************************************************)
Returned(p) == pc[p] = <<"done">>
AllReturned == \A p \in Party : Returned(p)

\* when Connect has returned at p, p holds every one of its connections
CompleteAt(p) == Returned(p) => \A q \in Party \ {p} : \A c \in ConnIx : conns[p][<<q, c>>] # NoConn
Complete == \A p \in Party : CompleteAt(p)

\* the k-th connection at one end is the k-th at the other end, between the right parties
Paired == \A p \in Party : \A q \in Party \ {p} : \A c \in ConnIx :
            LET x == conns[p][<<q, c>>] IN
            x # NoConn => /\ x[3] = c
                          /\ {x[1], x[2]} = {p, q}
                          /\ (conns[q][<<p, c>>] # NoConn => conns[q][<<p, c>>] = x)

\* the list the leader sends names every other joiner
PeerListComplete == \A q \in Joiner : list[q] # NoList => list[q] = Joiner \ {q}

NoError == errs = {}

Safety == Complete /\ Paired /\ PeerListComplete /\ NoError

Terminates == <>[]AllReturned
=============================================================================
