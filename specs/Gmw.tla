--------------------------------- MODULE Gmw ---------------------------------
(***************************************************************************)
(* gmw: bit-level algebra of the offline triple dealing (gmw/triples.go    *)
(* tripleBatch) and of one online AND batch (gmw/network.go andBatchFlush),*)
(* for P parties, over ALL values of every share, mask and OT output.      *)
(*                                                                         *)
(*  Deal:  for each ordered pair (i, j), i # j, the cross term a_i & b_j   *)
(*         is computed with one bit-COT in which i is the sender:          *)
(*            s      the sender's OT output,  Delta = delta[i][j] (bit 0)  *)
(*            r      = s xor b_j*Delta         the receiver's OT output    *)
(*            u      = a_i xor Delta           sent by i                   *)
(*            v      = b_j                     sent by j                   *)
(*         i adds s xor (u & v), j adds r.                                 *)
(*  And:   d_p = x_p xor a_p, e_p = y_p xor b_p, opened by XOR over all    *)
(*         parties; z_p = c_p xor d*b_p xor e*a_p xor [p = 0] d*e.         *)
(***************************************************************************)
EXTENDS Integers, FiniteSets, TLC

CONSTANT P
Party == 0..(P - 1)
Bit == {0, 1}
Pairs == {pr \in Party \X Party : pr[1] # pr[2]}
Xor(x, y) == (x + y) % 2

RECURSIVE XorAll(_, _)
XorAll(f, S) == IF S = {} THEN 0 ELSE LET p == CHOOSE p \in S : TRUE IN Xor(f[p], XorAll(f, S \ {p}))

VARIABLES phase, a, b, c, delta, s, x, y, z, d, e
vars == <<phase, a, b, c, delta, s, x, y, z, d, e>>

Zero == [p \in Party |-> 0]

Init == /\ phase = "deal"
        /\ a \in [Party -> Bit] /\ b \in [Party -> Bit]
        /\ delta \in [Pairs -> Bit] /\ s \in [Pairs -> Bit]
        /\ c = Zero /\ x = Zero /\ y = Zero /\ z = Zero /\ d = 0 /\ e = 0

\* tripleBatch: the local term and both cross terms with every peer
Deal == /\ phase = "deal"
        /\ c' = [p \in Party |->
                   LET asSender == [q \in Party \ {p} |-> Xor(s[<<p, q>>], Xor(a[p], delta[<<p, q>>]) * b[q])]
                       asReceiver == [q \in Party \ {p} |-> Xor(s[<<q, p>>], b[p] * delta[<<q, p>>])]
                   IN Xor(a[p] * b[p], Xor(XorAll(asSender, Party \ {p}), XorAll(asReceiver, Party \ {p})))]
        /\ phase' = "share"
        /\ UNCHANGED <<a, b, delta, s, x, y, z, d, e>>

\* any sharing of any two input bits
Share == /\ phase = "share"
         /\ x' \in [Party -> Bit] /\ y' \in [Party -> Bit]
         /\ phase' = "open"
         /\ UNCHANGED <<a, b, c, delta, s, z, d, e>>

Open == /\ phase = "open"
        /\ d' = XorAll([p \in Party |-> Xor(x[p], a[p])], Party)
        /\ e' = XorAll([p \in Party |-> Xor(y[p], b[p])], Party)
        /\ phase' = "and"
        /\ UNCHANGED <<a, b, c, delta, s, x, y, z>>

And == /\ phase = "and"
       /\ z' = [p \in Party |-> Xor(Xor(c[p], d * b[p]), Xor(e * a[p], IF p = 0 THEN d * e ELSE 0))]
       /\ phase' = "done"
       /\ UNCHANGED <<a, b, c, delta, s, x, y, d, e>>

Next == Deal \/ Share \/ Open \/ And
Spec == Init /\ [][Next]_vars

\* every dealt triple is valid
TripleOK == phase # "deal" => XorAll(a, Party) * XorAll(b, Party) = XorAll(c, Party)
\* the shares of the AND output recombine to the AND of the recombined inputs
AndOK == phase = "done" => XorAll(z, Party) = XorAll(x, Party) * XorAll(y, Party)
Safety == TripleOK /\ AndOK
=============================================================================
