----------------------------- MODULE StreamTrace -----------------------------
(* Trace validation for streaming mode: every step Program.Stream really    *)
(* executed (recorded by the `verif` hook with the wire ids the streamer     *)
(* resolved) is replayed against the dataflow discipline that Stream.tla's   *)
(* allocator/GC must guarantee:                                              *)
(*   NoClobber - every wire a step reads still holds what the value's        *)
(*               producer wrote: the id was not recycled and overwritten,    *)
(*               and the value still maps to the ids it was created with.    *)
(* ver[id] is the step that last wrote wire `id`; ref[v] remembers, per bit  *)
(* of value v, the wire id and the version it was created from.  The spec is *)
(* deterministic (one state per recorded step).                              *)
EXTENDS Integers, Sequences, FiniteSets, TLC, Json, TLCExt

TraceLog == ndJsonDeserialize("stream_trace.ndjson")

AliasOps == {"concat", "lshift", "rshift", "srshift", "slice", "mov", "smov", "amov"}

VARIABLES l, ver, ref, bad
vars == <<l, ver, ref, bad>>
Ev == TraceLog[l]

Init == l = 1 /\ ver = <<>> /\ ref = <<>> /\ bad = "no"

VerOf(id) == IF id \in DOMAIN ver THEN ver[id] ELSE 0
Min(a, b) == IF a < b THEN a ELSE b

\* a non-constant input whose value was defined by an earlier step must still be intact
InOK(in) ==
    \/ in.c = 1
    \/ in.v \notin DOMAIN ref
    \/ \A b \in 1..Min(Len(in.ids), Len(ref[in.v])) :
          in.ids[b] = ref[in.v][b][1] /\ VerOf(in.ids[b]) = ref[in.v][b][2]

\* values first seen as inputs (program arguments) are bound to what they map to now
BindIns(r) ==
    LET news == {k \in 1..Len(Ev.ins) : Ev.ins[k].c = 0 /\ Ev.ins[k].v \notin DOMAIN r}
    IN r @@ [v \in {Ev.ins[k].v : k \in news} |->
               LET k == CHOOSE k \in news : Ev.ins[k].v = v
               IN [b \in 1..Len(Ev.ins[k].ids) |-> <<Ev.ins[k].ids[b], VerOf(Ev.ins[k].ids[b])>>]]

Reset == /\ l <= Len(TraceLog) /\ Ev.ev = "reset" /\ l' = l + 1
         /\ ver' = <<>> /\ ref' = <<>> /\ bad' = "no"

\* a circuit step (and ret): reads all inputs, writes all outputs
CircStep ==
    /\ l <= Len(TraceLog) /\ Ev.ev = "step" /\ Ev.op \notin AliasOps /\ Ev.op # "gc"
    /\ l' = l + 1
    /\ bad' = IF \A k \in 1..Len(Ev.ins) : InOK(Ev.ins[k]) THEN bad ELSE "clobbered-input"
    /\ LET written == UNION {{Ev.outs[k].ids[b] : b \in 1..Len(Ev.outs[k].ids)} : k \in 1..Len(Ev.outs)}
           r1 == BindIns(ref)
       IN /\ ver' = [id \in DOMAIN ver \cup written |-> IF id \in written THEN Ev.idx + 1 ELSE ver[id]]
          /\ ref' = [v \in DOMAIN r1 \cup {Ev.outs[k].v : k \in 1..Len(Ev.outs)} |->
                       IF \E k \in 1..Len(Ev.outs) : Ev.outs[k].v = v
                       THEN LET k == CHOOSE k \in 1..Len(Ev.outs) : Ev.outs[k].v = v
                            IN [b \in 1..Len(Ev.outs[k].ids) |-> <<Ev.outs[k].ids[b], Ev.idx + 1>>]
                       ELSE r1[v]]

\* an aliasing step copies wire ids: each copied id must still carry the version its source value refers to
AliasStep ==
    /\ l <= Len(TraceLog) /\ Ev.ev = "step" /\ Ev.op \in AliasOps
    /\ l' = l + 1
    /\ LET r1 == BindIns(ref)
           out == Ev.outs[1]
           srcOK(id) ==
              LET src == {<<k, b>> \in (1..Len(Ev.ins)) \X (1..Len(out.ids) + 200) :
                             /\ Ev.ins[k].c = 0 /\ b <= Len(Ev.ins[k].ids) /\ Ev.ins[k].ids[b] = id
                             /\ b <= Len(r1[Ev.ins[k].v])}
              IN src = {} \/ \E s \in src : r1[Ev.ins[s[1]].v][s[2]] = <<id, VerOf(id)>>
       IN /\ bad' = IF \A b \in 1..Len(out.ids) : srcOK(out.ids[b]) THEN bad ELSE "clobbered-alias-source"
          /\ ref' = [v \in DOMAIN r1 \cup {out.v} |->
                       IF v = out.v THEN [b \in 1..Len(out.ids) |-> <<out.ids[b], VerOf(out.ids[b])>>] ELSE r1[v]]
          /\ ver' = ver

GCStep == /\ l <= Len(TraceLog) /\ Ev.ev = "step" /\ Ev.op = "gc" /\ l' = l + 1
          /\ UNCHANGED <<ver, ref, bad>>

Next == Reset \/ CircStep \/ AliasStep \/ GCStep
Spec == Init /\ [][Next]_vars

NoClobber == bad = "no"

Accepted == IF TLCGet("stats").diameter - 1 = Len(TraceLog) THEN TRUE
            ELSE Print(<<"VHREJECT", TLCGet("stats").diameter, 0>>, FALSE)
=============================================================================
