-------------------------------- MODULE Shares --------------------------------
(***************************************************************************)
(* OT-based multiplication gadgets:                                        *)
(*  VOLE (vole/vole.go Sender.Mul / Receiver.Mul), per vector element i:   *)
(*     r_i   the sender's pad derived from its extension output, mod p     *)
(*     the receiver sends y_i as 32 big-endian bytes; the sender reduces   *)
(*     it mod p, returns u_i = (r_i + x_i * y_i) mod p as 32 bytes; the    *)
(*     receiver reduces u_i mod p.   Property: u_i - r_i = x_i*y_i (mod p) *)
(*  Fx  (bmr/fx.go): 1-of-2 OT of (r, r xor a) on bit 0: r xor x_b = a*b   *)
(*  Fxk (bmr/fx.go): 1-of-2 OT of (r, r xor s) on KL-bit labels:           *)
(*                                               r xor x_b = b*s           *)
(* Values range over ALL field elements / bits / labels of the small       *)
(* instance; wire values may be unreduced (y_i up to 2p-1).                *)
(***************************************************************************)
EXTENDS Integers, Sequences, FiniteSets, TLC

CONSTANTS Primes, KL

Bit == {0, 1}
Lab == [0..(KL - 1) -> Bit]
LXor(a, b) == [i \in 0..(KL - 1) |-> (a[i] + b[i]) % 2]
LZero == [i \in 0..(KL - 1) |-> 0]

VARIABLES kind, p, x, y, r, u, a, b, s, rl, xb, phase
vars == <<kind, p, x, y, r, u, a, b, s, rl, xb, phase>>

Init == /\ kind \in {"vole", "fx", "fxk"} /\ phase = "start"
        /\ p \in Primes
        /\ x \in 0..(p - 1) /\ y \in 0..(2 * p - 1) /\ r \in 0..(p - 1) /\ u = 0
        /\ a \in Bit /\ b \in Bit /\ s \in Lab /\ rl \in Lab /\ xb = LZero

Step == /\ phase = "start" /\ phase' = "done"
        /\ CASE kind = "vole" -> /\ u' = (r + x * (y % p)) % p /\ UNCHANGED xb
             [] kind = "fx" ->   \* x0 = rl, x1 = rl xor a (bit 0); the OT delivers x_b
                                 /\ xb' = IF b = 1 THEN [rl EXCEPT ![0] = (rl[0] + a) % 2] ELSE rl
                                 /\ UNCHANGED u
             [] kind = "fxk" ->  /\ xb' = IF b = 1 THEN LXor(rl, s) ELSE rl
                                 /\ UNCHANGED u
        /\ UNCHANGED <<kind, p, x, y, r, a, b, s, rl>>
Spec == Init /\ [][Step]_vars

VoleOK == (phase = "done" /\ kind = "vole") => /\ (u - r + p) % p = (x * y) % p
                                               /\ u \in 0..(p - 1) /\ r \in 0..(p - 1)
FxOK == (phase = "done" /\ kind = "fx") => (rl[0] + xb[0]) % 2 = a * b
FxkOK == (phase = "done" /\ kind = "fxk") => LXor(rl, xb) = (IF b = 1 THEN s ELSE LZero)
Safety == VoleOK /\ FxOK /\ FxkOK
=============================================================================
