------------------------------ MODULE OTExtGen ------------------------------
(* Generator for C06: sequences of batches on one initialised IKNP instance  *)
(* with the chunk message sizes the size-level part of OTExt.tla predicts    *)
(* for the real constants (K = 128, 8 rows per byte, RealChunkRows rows per   *)
(* chunk: measured on the implementation, 512 at the pinned commit).          *)
EXTENDS OTExt, Json

CONSTANTS GenSizes, GenModes, GenLen, RealChunkRows
VARIABLE seq
gvars == <<seq>>

GenInit == Init /\ (\A i \in Col : delta[i] = 0) /\ seq = <<>>
Add == /\ Len(seq) < GenLen
       /\ \E n \in GenSizes : \E m \in GenModes :
            seq' = Append(seq, [n |-> n, mode |-> m, sizes |-> ChunkSizes(n, 128, 8, RealChunkRows)])
       /\ UNCHANGED vars
GenSpec == GenInit /\ [][Add]_<<vars, seq>>
Emit == Len(seq) >= 1 => PrintT(<<"VHCASE", ToJson([batches |-> seq])>>)
=============================================================================
