--------------------------------- MODULE Opt ---------------------------------
(***************************************************************************)
(* compiler/circuits/compiler.go, gates.go, wire.go: the gate-graph        *)
(* optimisation passes as a transition system over small graphs.           *)
(*                                                                         *)
(* A graph is a sequence of gates [op, a, b, o] over wires; wires 1..NIn   *)
(* are inputs, wire 0 is the constant-zero wire and wire -1 the constant-  *)
(* one wire (ZeroWire / OneWire), gate k writes wire NIn + k.  Some wires  *)
(* are marked as circuit outputs.  TLC's states are the graphs (AddGate),  *)
(* then the passes run as coded:                                           *)
(*   ConstPropagate: one sweep in gate order; per gate the constant rule   *)
(*      of its operator (set the output's value, or short-circuit the gate *)
(*      by rewiring all consumers of its output - never for an output      *)
(*      wire), then constant inputs are rewired to the constant wires;     *)
(*   Prune: one backward sweep removing gates whose output is neither a    *)
(*      circuit output nor consumed by a live gate.                        *)
(* SameFunction: after every step the circuit outputs compute what the     *)
(* original graph computes, for every input.                               *)
(***************************************************************************)
EXTENDS Integers, Sequences, FiniteSets, TLC

CONSTANTS NIn, MaxGates, Ops,
          ShortCircuitOutputs,   \* deviation: ShortCircuit does not skip output wires
          XnorRuleWrong          \* deviation: XNOR of equal constants set to Zero

ZeroW == 0
OneW == -1
Bit == {0, 1}

VARIABLES gates,     \* current graph
          orig,      \* the graph as built
          outs,      \* set of output wires
          val,       \* wire -> "U" | "Z" | "O"  (Wire.Value())
          dead,      \* set of pruned gate indices
          phase, k

vars == <<gates, orig, outs, val, dead, phase, k>>

WireOf(i) == NIn + i
Srcs == {ZeroW, OneW} \cup (1..NIn)

Init == /\ gates = <<>> /\ orig = <<>> /\ outs = {} /\ val = (ZeroW :> "Z" @@ OneW :> "O")
        /\ dead = {} /\ phase = "build" /\ k = 1

AddGate ==
    /\ phase = "build" /\ Len(gates) < MaxGates
    /\ LET avail == Srcs \cup {WireOf(i) : i \in 1..Len(gates)} IN
       \E op \in Ops : \E a \in avail : \E b \in avail :
          /\ (op = "INV" => b = a)
          /\ gates' = Append(gates, [op |-> op, a |-> a, b |-> b, o |-> WireOf(Len(gates) + 1)])
    /\ UNCHANGED <<orig, outs, val, dead, phase, k>>

Start ==
    /\ phase = "build" /\ Len(gates) >= 1
    /\ \E S \in (SUBSET {WireOf(i) : i \in 1..Len(gates)}) \ {{}} : outs' = S
    /\ orig' = gates /\ phase' = "constprop" /\ k' = 1
    /\ UNCHANGED <<gates, val, dead>>

V(w) == IF w \in DOMAIN val THEN val[w] ELSE "U"

\* rewire every consumer of wire `from` (in gates after index i) to wire `to`
Rewire(gs, from, to) ==
    [j \in 1..Len(gs) |-> [gs[j] EXCEPT !.a = IF @ = from THEN to ELSE @, !.b = IF @ = from THEN to ELSE @]]

\* one gate of the ConstPropagate sweep
ConstProp ==
    /\ phase = "constprop" /\ k <= Len(gates)
    /\ LET g == gates[k]
           va == V(g.a)  vb == V(g.b)
           bothSame == (va = "Z" /\ vb = "Z") \/ (va = "O" /\ vb = "O")
           bothDiff == (va = "Z" /\ vb = "O") \/ (va = "O" /\ vb = "Z")
           \* outcome: <<"set", value>> | <<"short", wire>> | <<"none">>
           act ==
             CASE g.op = "XOR" -> IF bothSame THEN <<"set", "Z">> ELSE IF bothDiff THEN <<"set", "O">>
                                  ELSE IF va = "Z" THEN <<"short", g.b>> ELSE IF vb = "Z" THEN <<"short", g.a>> ELSE <<"none">>
               [] g.op = "XNOR" -> IF bothSame THEN <<"set", IF XnorRuleWrong THEN "Z" ELSE "O">>
                                   ELSE IF bothDiff THEN <<"set", "Z">> ELSE <<"none">>
               [] g.op = "AND" -> IF va = "Z" \/ vb = "Z" THEN <<"set", "Z">> ELSE IF va = "O" /\ vb = "O" THEN <<"set", "O">>
                                  ELSE IF va = "O" THEN <<"short", g.b>> ELSE IF vb = "O" THEN <<"short", g.a>> ELSE <<"none">>
               [] g.op = "OR" -> IF va = "O" \/ vb = "O" THEN <<"set", "O">> ELSE IF va = "Z" /\ vb = "Z" THEN <<"set", "Z">>
                                 ELSE IF va = "Z" THEN <<"short", g.b>> ELSE IF vb = "Z" THEN <<"short", g.a>> ELSE <<"none">>
               [] g.op = "INV" -> IF va = "O" THEN <<"set", "Z">> ELSE IF va = "Z" THEN <<"set", "O">> ELSE <<"none">>
           val1 == IF act[1] = "set" THEN val @@ (g.o :> act[2]) ELSE val
           \* Gate.ShortCircuit: consumers of g.o read the other operand instead; output wires are left alone
           gs1 == IF act[1] = "short" /\ (ShortCircuitOutputs \/ g.o \notin outs) THEN Rewire(gates, g.o, act[2]) ELSE gates
           \* constant inputs are rewired to the constant wires
           ca == IF V(g.a) = "Z" THEN ZeroW ELSE IF V(g.a) = "O" THEN OneW ELSE gs1[k].a
           cb == IF V(g.b) = "Z" THEN ZeroW ELSE IF V(g.b) = "O" THEN OneW ELSE gs1[k].b
       IN /\ val' = val1
          /\ gates' = [gs1 EXCEPT ![k].a = ca, ![k].b = cb]
    /\ k' = k + 1
    /\ UNCHANGED <<orig, outs, dead, phase>>

EndConstProp == /\ phase = "constprop" /\ k > Len(gates)
                /\ phase' = "prune" /\ k' = Len(gates)
                /\ UNCHANGED <<gates, orig, outs, val, dead>>

\* Gate.Prune in a backward sweep
Consumed(w, d) == \E j \in 1..Len(gates) : j \notin d /\ (gates[j].a = w \/ gates[j].b = w)
Prune ==
    /\ phase = "prune" /\ k >= 1
    /\ dead' = IF gates[k].o \notin outs /\ ~Consumed(gates[k].o, dead) THEN dead \cup {k} ELSE dead
    /\ k' = k - 1
    /\ UNCHANGED <<gates, orig, outs, val, phase>>
EndPrune == /\ phase = "prune" /\ k = 0 /\ phase' = "done"
            /\ UNCHANGED <<gates, orig, outs, val, dead, k>>

Next == AddGate \/ Start \/ ConstProp \/ EndConstProp \/ Prune \/ EndPrune
Spec == Init /\ [][Next]_vars

(***************************************************************************)
(* Semantics                                                               *)
(***************************************************************************)
GateFn(op, x, y) == CASE op = "XOR" -> (x + y) % 2 [] op = "XNOR" -> 1 - ((x + y) % 2)
                      [] op = "AND" -> x * y [] op = "OR" -> (IF x + y > 0 THEN 1 ELSE 0) [] op = "INV" -> 1 - x
RECURSIVE EvalUpTo(_, _, _, _)
EvalUpTo(gs, n, v, d) ==   \* v: values of the source wires; gates in d are skipped (their wires read as 0)
    IF n = 0 THEN v
    ELSE LET p == EvalUpTo(gs, n - 1, v, d)
             g == gs[n]
         IN IF n \in d THEN p @@ (g.o :> 0)
            ELSE p @@ (g.o :> GateFn(g.op, p[g.a], p[g.b]))
Eval(gs, in, d) == EvalUpTo(gs, Len(gs), (ZeroW :> 0 @@ OneW :> 1) @@ in, d)

SameFunction ==
    phase \in {"constprop", "prune", "done"} =>
       \A in \in [1..NIn -> Bit] :
          LET a == Eval(orig, in, {})
              b == Eval(gates, in, dead)
          IN \A w \in outs : a[w] = b[w]
\* the constant value attached to a wire is the value it has for every input
ValuesSound ==
    phase \in {"constprop", "prune", "done"} =>
       \A w \in DOMAIN val : \A in \in [1..NIn -> Bit] :
          (w \in DOMAIN Eval(orig, in, {})) => Eval(orig, in, {})[w] = (IF val[w] = "O" THEN 1 ELSE 0)
\* every circuit output keeps a driver
NoDanglingOutput == \A w \in outs : \E j \in 1..Len(gates) : gates[j].o = w /\ j \notin dead
\* gate inputs are defined before use (the order Compile relies on)
Topological == \A j \in 1..Len(gates) : gates[j].a < gates[j].o /\ gates[j].b < gates[j].o
Safety == SameFunction /\ ValuesSound /\ NoDanglingOutput /\ Topological
=============================================================================
