------------------------------ MODULE ConnGen ------------------------------
(* Generator: behaviours of Conn with the real buffer sizes, printed as    *)
(* JSON histories that the Go harness replays on two real p2p.Conn.        *)
EXTENDS Conn, Json

VARIABLE hist

E(ev, k, a, b, c) == [ev |-> ev, k |-> k, a |-> a, b |-> b, c |-> c]

Events ==
    IF nops' # nops THEN <<E("send", sop'.k, sop'.len, 0, 0)>>
    ELSE IF sop.ph = "end" /\ sop'.ph = "idle" /\ closing = "no"
         THEN <<E("sendret", "", wpos, sentStat, flushedStat)>>
    ELSE IF closing = "no" /\ closing' = "flush" THEN <<E("close", "", 0, 0, 0)>>
    ELSE IF closing = "drain" /\ closing' = "done"
         THEN <<E("closed", "", wire, sentStat, flushedStat)>>
    ELSE IF wire' # wire THEN <<E("write", "", writing.lo, writing.hi, 0)>>
    ELSE IF rop.ph = "idle" /\ rop'.ph = "hdr" THEN <<E("recv", rop'.k, rop'.len, 0, 0)>>
    ELSE IF rend' > rend THEN <<E("read", "", rend' - rend, 0, 0)>>
    ELSE IF rop.ph = "end" /\ rop'.ph = "idle"
         THEN <<E("recvret", "", rstart, rend, recvdStat)>>
    ELSE <<>>

GenFrags(maxn) == {maxn, (maxn + 1) \div 2, Min(maxn, 7), Min(maxn, 65536), Min(maxn, 4093)}
                    \cup (IF maxn <= 40 THEN {1} ELSE {})

GenInit == Init /\ hist = <<>>
GenNext == Next /\ hist' = hist \o Events
GenSpec == GenInit /\ [][GenNext]_<<vars, hist>>

Finished == closing = "done" /\ msgs = <<>> /\ rop.ph = "idle"
Emit == Finished => PrintT(<<"VHCASE", ToJson(hist)>>)
=============================================================================
