SPECIFICATION TSpec
CONSTANTS
  MaxMembers = 5
  ScalarWidths = {1}
  ElWidths = {4}
  Counts = {0}
CONSTRAINT Emit
POSTCONDITION Accepted
CHECK_DEADLOCK FALSE
