-------------------------------- MODULE Mpcl --------------------------------
(***************************************************************************)
(* The documented core of MPCL as a three-address language with a          *)
(* reference interpreter.  A program is `func main(a Ta, b Tb) Tret` whose *)
(* body is a sequence of statements; statement i defines variable i + 2    *)
(* (variables 1 and 2 are the arguments).  Statement kinds:                *)
(*   const  T c                 v := T(c)                                  *)
(*   bin    op x y              v := x op y        (x, y of one type)      *)
(*   cmp    op x y              v := x op y        (bool)                  *)
(*   binlit / cmplit op x c     v := x op c        (c an untyped literal)  *)
(*   logic  op x y / not x      v := x && y, x || y, !x                    *)
(*   neg    x                   v := -x                                    *)
(*   shift  op x c              v := x << c, x >> c   (constant count)     *)
(*   cast   T x                 v := T(x)                                  *)
(*   if     c x y               var v T; if c { v = x } else { v = y }     *)
(*   ifnest c1 c2 x y / ifcall c1 x y   a nested if / a call inside a branch*)
(*   ifret  c x                 if c { return x }      (early return)      *)
(*   elseif c1 c2 x y z         v := z; if c1 { v = x } else if c2 { v = y }  *)
(*                              (a chain whose last branch assigns nothing)  *)
(*   (unary ^x on run-time values is refused by the compiler - "Unary.SSA not   *)
(*    implemented yet" - and is therefore not part of the modelled core)       *)
(*   loop   n op x y            v := x; for i := 0; i < n; i++ { v = v op y}*)
(*   loopt  n op x y            v := x; for i, j := 0, 1; i < n; i, j = j, i+j { v = v op y } *)
(*                              (a tuple assignment in the loop header: both    *)
(*                              right-hand sides see the old i and j, so i runs *)
(*                              through 0, 1, 1, 2, 3, 5, 8 ...)                *)
(*   loopret n k op x y         the same loop with `if i == k { return v }`   *)
(*                              in front of the body (a return guarded by the *)
(*                              loop variable: decided while unrolling)       *)
(*   looprc n c op x y          the same loop with `if c { return v }` (a     *)
(*                              run-time condition) in front of the body      *)
(*   nest   n op x y            for i < n { for j < 2 { v = v op y } }        *)
(*   loopi  n op x              v := x; for i < n { v = v op T(i) }           *)
(*   expr3  op1 op2 x y z       v := x op1 y op2 z   written WITHOUT parentheses   *)
(*                              (op2 = ExprOpList[c]):                          *)
(*                              Go's precedence (times, and, and-not bind     *)
(*                              tighter than plus, minus, or, xor)            *)
(*                              and left associativity decide the grouping    *)
(*   shadow c x y               a local that shadows a package-level variable,*)
(*                              a run-time if that does not touch it, a read  *)
(*   arr    x y z / idx A i / aset A i x      arrays of three elements     *)
(*   idxv   A u                 v := A[u % 3]   a run-time index (u unsigned)*)
(*   arrl   c1 x c2             var v [3]T; v[0] = c1; v[1] = x; v[2] = c2    *)
(*                              (literals stored into a fresh, zero array)    *)
(*   mat x y z w / midx M i j / mset M i j x   a 2 x 2 array of arrays      *)
(*   asetl A i c / fsetl S k c                 a literal stored into an     *)
(*                                             element / a field            *)
(*   call   f x y -> (v, v+1)   a helper with two results                  *)
(*   mk     x y / fld S k / fset S k x        a two-field struct           *)
(*   mkl    S c1 c2             v := S{f1: c1, f2: c2}  a composite literal   *)
(*                              of constants, of the type of struct S         *)
(*   mklf   S c1 c2 k           t := S{f1: c1, f2: c2}; v := t.fk             *)
(*   tuple assignments (right-hand sides are evaluated before any store):    *)
(*   vswap  x y -> (v, v+1)     v, w := x, y; v, w = w, v                     *)
(*   fswap  S k                 t := S; t.f1, t.f2 = t.f2, t.f1; v := t.fk    *)
(*   fcall  S x y k             t := S; t.f1, t.f2 = addsub(x, y); v := t.fk  *)
(*   aswap  A (9i+3j+r)         t := A; t[i], t[j] = t[j], t[i]; v := t[r]    *)
(*   acall  A x y (9i+3j+r)     t := A; t[i], t[j] = addsub(x, y); v := t[r]  *)
(*   (the statement defines the element / field read back, so that what the   *)
(*    tuple assignment stored is always observed)                             *)
(*   compound assignments (kind set member "opassign"):                      *)
(*   opa    op x y              v := x; v op= y        (/= by (y | 1))        *)
(*   opal   op x c              v := x; v op= c        (c a literal; also <<= >>=) *)
(*   incdec x c                 v := x; |c| times v++ (c > 0) / v-- (c < 0)   *)
(*   opf    S k op y            t := S; t.fk op= y; v := t.fk                 *)
(*   ope    A i op y            t := A; t[i] op= y; v := t[i]                 *)
(*   lensum A                   v := 0; for i := 0; i < len(A); i++ { v += A[i] } *)
(* Values are [t, v]: a type and the unsigned representation of the value. *)
(* Semantics: wrap-around modulo 2^N, two's complement, truncating signed  *)
(* division, signed modulo = |a| mod |b| (as the shipped @Test vectors fix  *)
(* it), arithmetic >>                                                      *)
(* on signed types, sign extension on widening casts between signed types  *)
(* (zero extension otherwise), phi by branch condition.  Division by zero is not specified: the  *)
(* generator only divides by (y | 1).                                      *)
(***************************************************************************)
EXTENDS Integers, Sequences, FiniteSets, TLC

CONSTANTS Widths,     \* widths of the integer types in play
          MaxStmts,
          Kinds       \* statement kinds the generator may use

Pow2(n) == 2 ^ n
UT(w) == <<"u", w>>
IT(w) == <<"i", w>>
BT == <<"b", 1>>
IntTypes == {UT(w) : w \in Widths} \cup {IT(w) : w \in Widths}
IsInt(t) == t[1] \in {"u", "i"}
IsSigned(t) == t[1] = "i"
W(t) == t[2]
Val(t, n) == [t |-> t, v |-> n % Pow2(W(t))]
\* signed interpretation
SVal(x) == IF IsSigned(x.t) /\ x.v >= Pow2(W(x.t) - 1) THEN x.v - Pow2(W(x.t)) ELSE x.v
Mod2(n, w) == ((n % Pow2(w)) + Pow2(w)) % Pow2(w)
Wrap(t, n) == [t |-> t, v |-> Mod2(n, W(t))]
Abs(n) == IF n < 0 THEN -n ELSE n
Sgn(n) == IF n < 0 THEN -1 ELSE 1
\* truncating division
TDiv(a, b) == Sgn(a) * Sgn(b) * (Abs(a) \div Abs(b))
\* the shipped vectors (testsuite/lang/modi.mpcl: -42 % 4 = 2, 42 % -4 = 2, -42 % -4 = 2) fix signed modulo as
\* the remainder of the magnitudes
TRem(a, b) == Abs(a) % Abs(b)

RECURSIVE BitOp(_, _, _, _)
BitOp(op, a, b, w) ==
    IF w = 0 THEN 0
    ELSE LET x == a % 2  y == b % 2
             z == CASE op = "&" -> x * y
                    [] op = "|" -> IF x + y > 0 THEN 1 ELSE 0
                    [] op = "^" -> (x + y) % 2
                    [] op = "&^" -> x * (1 - y)
         IN z + 2 * BitOp(op, a \div 2, b \div 2, w - 1)

BinOps == {"+", "-", "*", "/", "%", "&", "|", "^", "&^"}
\* the operators that have a compound assignment form in MPCL (+= -= *= /= |= ^= &=)
OpAssignOps == {"+", "-", "*", "/", "|", "^", "&"}
CmpOps == {"<", "<=", ">", ">=", "==", "!="}

Bin(op, x, y) ==
    LET t == x.t  a == SVal(x)  b == SVal(y)
        \* the divisor is (y | 1)
        d == SVal(Wrap(t, BitOp("|", y.v, 1, W(t))))
    IN CASE op = "+" -> Wrap(t, a + b)
         [] op = "-" -> Wrap(t, a - b)
         [] op = "*" -> Wrap(t, a * b)
         [] op = "/" -> Wrap(t, TDiv(a, d))
         [] op = "%" -> Wrap(t, TRem(a, d))
         [] OTHER -> Wrap(t, BitOp(op, x.v, y.v, W(t)))

\* binary operator with an untyped literal as its right operand: the literal takes the variable's type
BinL(op, x, c) ==
    LET t == x.t  a == SVal(x)
    IN CASE op = "+" -> Wrap(t, a + c)
         [] op = "-" -> Wrap(t, a - c)
         [] op = "*" -> Wrap(t, a * c)
         [] op = "/" -> Wrap(t, TDiv(a, c))
         [] op = "%" -> Wrap(t, TRem(a, c))
         [] OTHER -> Wrap(t, BitOp(op, x.v, Mod2(c, W(t)), W(t)))

Cmp(op, x, y) ==
    LET a == SVal(x)  b == SVal(y)
        r == CASE op = "<" -> a < b [] op = "<=" -> a <= b [] op = ">" -> a > b
               [] op = ">=" -> a >= b [] op = "==" -> a = b [] op = "!=" -> a # b
    IN [t |-> BT, v |-> IF r THEN 1 ELSE 0]

Shift(op, x, c) ==
    IF op = "<<" THEN Wrap(x.t, x.v * Pow2(c))
    ELSE IF IsSigned(x.t)
         THEN LET a == SVal(x) IN Wrap(x.t, IF a >= 0 THEN a \div Pow2(c) ELSE -((-a + Pow2(c) - 1) \div Pow2(c)))
         ELSE Wrap(x.t, x.v \div Pow2(c))

\* conversion: truncation when narrowing; when widening, sign extension iff BOTH types are signed, zero extension
\* otherwise (neither the documentation nor a shipped vector fixes signed -> wider unsigned; the compiler's own
\* rule in ast/ssagen.go is transcribed)
Cast(t, x) == IF IsSigned(x.t) /\ IsSigned(t) THEN Wrap(t, SVal(x)) ELSE Wrap(t, x.v)

\* Go's binary operator precedence, which MPCL follows: level 5 for times, and, and-not; level 4 for plus, minus, or, xor
ExprOpList == <<"+", "-", "*", "&", "|", "^", "&^">>
ExprOps == {ExprOpList[i] : i \in 1..Len(ExprOpList)}
Prec(op) == IF op \in {"*", "&", "&^"} THEN 5 ELSE 4

(***************************************************************************)
(* Programs                                                                *)
(***************************************************************************)
VARIABLES prog,     \* [ta, tb, stmts, ret]
          phase     \* "build" | "closed"
vars == <<prog, phase>>

ArrT(t) == <<"a", t>>
MatT(t) == <<"m", t>>
StructT(t1, t2) == <<"s", t1, t2>>

\* static type of every variable
RECURSIVE TypesOf(_, _)
TypesOf(p, n) ==   \* sequence of the types of variables 1..2+n
    IF n = 0 THEN <<p.ta, p.tb>>
    ELSE LET ts == TypesOf(p, n - 1)
             s == p.stmts[n]
             t == CASE s.k = "const" -> <<s.t>>
                    [] s.k \in {"bin", "binlit", "neg", "shift", "loop", "loopt", "loopret", "looprc", "nest", "loopi", "shadow", "expr3"} -> <<ts[s.x]>>
                    [] s.k \in {"cmp", "cmplit", "logic", "not"} -> <<BT>>
                    [] s.k = "cast" -> <<s.t>>
                    [] s.k \in {"if", "ifnest", "ifcall", "elseif"} -> <<ts[s.x]>>
                    [] s.k = "ifret" -> <<BT>>            \* defines a dummy copy of its condition
                    [] s.k \in {"arr", "arrl"} -> <<ArrT(ts[s.x])>>
                    [] s.k \in {"idx", "idxv"} -> <<ts[s.x][2]>>
                    [] s.k \in {"aset", "asetl"} -> <<ts[s.x]>>
                    [] s.k = "mat" -> <<MatT(ts[s.x])>>
                    [] s.k = "midx" -> <<ts[s.x][2]>>
                    [] s.k = "mset" -> <<ts[s.x]>>
                    [] s.k \in {"call", "vswap"} -> <<ts[s.x], ts[s.x]>>
                    [] s.k \in {"fswap", "fcall", "aswap", "acall", "ope", "lensum"} -> <<ts[s.x][2]>>
                    [] s.k = "opf" -> <<ts[s.x][s.c + 1]>>
                    [] s.k \in {"opa", "opal", "incdec"} -> <<ts[s.x]>>
                    [] s.k = "mk" -> <<StructT(ts[s.x], ts[s.y])>>
                    [] s.k = "fld" -> <<ts[s.x][s.c + 1]>>
                    [] s.k = "mklf" -> <<ts[s.x][s.y + 1]>>
                    [] s.k \in {"fset", "fsetl", "mkl"} -> <<ts[s.x]>>
         IN ts \o t

NVars(p) == Len(TypesOf(p, Len(p.stmts)))

Init == /\ \E ta \in IntTypes : \E tb \in IntTypes : prog = [ta |-> ta, tb |-> tb, stmts |-> <<>>, ret |-> 0]
        /\ phase = "build"

S(k, x, y, z, op, t, c) == [k |-> k, x |-> x, y |-> y, z |-> z, op |-> op, t |-> t, c |-> c]

AddStmt ==
    /\ phase = "build" /\ Len(prog.stmts) < MaxStmts
    /\ LET ts == TypesOf(prog, Len(prog.stmts))
           V == 1..Len(ts)
           ints == {v \in V : IsInt(ts[v])}
           bools == {v \in V : ts[v] = BT}
           arrs == {v \in V : ts[v][1] = "a"}
           structs == {v \in V : ts[v][1] = "s"}
           mats == {v \in V : ts[v][1] = "m"}
           add(s) == prog' = [prog EXCEPT !.stmts = Append(@, s)]
       IN \/ "const" \in Kinds /\ \E t \in IntTypes : \E c \in {0, 1, 2, Pow2(W(t)) - 1, Pow2(W(t) - 1)} :
                add(S("const", 0, 0, 0, "", t, c % Pow2(W(t))))
          \/ "bin" \in Kinds /\ \E x \in ints : \E y \in {v \in ints : ts[v] = ts[x]} : \E op \in BinOps :
                add(S("bin", x, y, 0, op, <<>>, 0))
          \/ "lit" \in Kinds /\ \E x \in {v \in ints : W(ts[v]) >= 3} : \E op \in BinOps \cup CmpOps :
                \E c \in (IF IsSigned(ts[x]) THEN {-3, -1, 1, 2, 3} ELSE {1, 2, 3, 5}) :
                   add(S(IF op \in CmpOps THEN "cmplit" ELSE "binlit", x, 0, 0, op, <<>>, c))
          \/ "cmp" \in Kinds /\ \E x \in ints : \E y \in {v \in ints : ts[v] = ts[x]} : \E op \in CmpOps :
                add(S("cmp", x, y, 0, op, <<>>, 0))
          \/ "logic" \in Kinds /\ \E x \in bools : \E y \in bools : \E op \in {"&&", "||"} :
                add(S("logic", x, y, 0, op, <<>>, 0))
          \/ "logic" \in Kinds /\ \E x \in bools : add(S("not", x, 0, 0, "!", <<>>, 0))
          \/ "neg" \in Kinds /\ \E x \in ints : add(S("neg", x, 0, 0, "-", <<>>, 0))
          \* counts up to the width and one beyond (the value is shifted out; a negative value leaves -1 under >>)
          \/ "shift" \in Kinds /\ \E x \in ints : \E op \in {"<<", ">>"} : \E c \in 1..(W(ts[x]) + 1) :
                add(S("shift", x, 0, 0, op, <<>>, c))
          \/ "cast" \in Kinds /\ \E x \in ints : \E t \in IntTypes \ {ts[x]} : add(S("cast", x, 0, 0, "", t, 0))
          \/ "if" \in Kinds /\ \E c \in bools : \E x \in ints : \E y \in {v \in ints : ts[v] = ts[x]} :
                add(S("if", x, y, c, "", <<>>, 0))
          \/ "ifnest" \in Kinds /\ \E c1 \in bools : \E c2 \in bools : \E x \in ints : \E y \in {v \in ints : ts[v] = ts[x]} :
                add(S("ifnest", x, y, c1, "", <<>>, c2))
          \/ "ifnest" \in Kinds /\ \E c1 \in bools : \E x \in ints : \E y \in {v \in ints : ts[v] = ts[x]} :
                add(S("ifcall", x, y, c1, "", <<>>, 0))
          \/ "ifret" \in Kinds /\ \E c \in bools : \E x \in ints : add(S("ifret", x, 0, c, "", <<>>, 0))
          \* x, y in the fields, z = c1, c = c2, t carries the index of the third value
          \/ "ifnest" \in Kinds /\ \E c1 \in bools : \E c2 \in bools : \E x \in ints : \E y \in {v \in ints : ts[v] = ts[x]} :
                \E z \in {v \in ints : ts[v] = ts[x]} : add(S("elseif", x, y, c1, "", <<z>>, c2))
          \/ "loop" \in Kinds /\ \E x \in ints : \E y \in {v \in ints : ts[v] = ts[x]} : \E op \in {"+", "-", "*", "^"} : \E n \in {0, 1, 3} :
                add(S("loop", x, y, 0, op, <<>>, n))
          \/ "loop" \in Kinds /\ \E x \in ints : \E y \in {v \in ints : ts[v] = ts[x]} : \E op \in {"+", "-", "^"} : \E n \in {2, 3, 5, 8} :
                add(S("loopt", x, y, 0, op, <<>>, n))
          \/ "loopret" \in Kinds /\ \E x \in ints : \E y \in {v \in ints : ts[v] = ts[x]} : \E op \in {"+", "-", "^"} : \E n \in {1, 3} :
                \E k \in 0..n : add(S("loopret", x, y, k, op, <<>>, n))
          \/ "loopret" \in Kinds /\ \E x \in ints : \E y \in {v \in ints : ts[v] = ts[x]} : \E op \in {"+", "-", "^"} : \E n \in {1, 3} :
                \E c \in bools : add(S("looprc", x, y, c, op, <<>>, n))
          \/ "nest" \in Kinds /\ \E x \in ints : \E y \in {v \in ints : ts[v] = ts[x]} : \E op \in {"+", "-", "*", "^"} : \E n \in {1, 2} :
                add(S("nest", x, y, 0, op, <<>>, n))
          \/ "nest" \in Kinds /\ \E x \in {v \in ints : W(ts[v]) >= 3} : \E op \in {"+", "-", "^"} : \E n \in {1, 3} :
                add(S("loopi", x, 0, 0, op, <<>>, n))
          \/ "expr3" \in Kinds /\ \E x \in ints : \E y \in {v \in ints : ts[v] = ts[x]} : \E z \in {v \in ints : ts[v] = ts[x]} :
                \E op1 \in ExprOps : \E i2 \in 1..Len(ExprOpList) : add(S("expr3", x, y, z, op1, <<>>, i2))
          \/ "shadow" \in Kinds /\ \E c \in bools : \E x \in ints : \E y \in {v \in ints : ts[v] = ts[x]} :
                add(S("shadow", x, y, c, "", <<>>, 0))
          \/ "arr" \in Kinds /\ \E x \in ints : \E y \in {v \in ints : ts[v] = ts[x]} : \E z \in {v \in ints : ts[v] = ts[x]} :
                add(S("arr", x, y, z, "", <<>>, 0))
          \/ "arr" \in Kinds /\ \E a \in arrs : \E i \in 0..2 : add(S("idx", a, 0, 0, "", <<>>, i))
          \/ "arr" \in Kinds /\ \E x \in {v \in ints : W(ts[v]) >= 3} : \E c1 \in {0, 1, 3, 5} : \E c2 \in {0, 2, 5} :
                add(S("arrl", x, 0, c1, "", <<>>, c2))
          \/ "arr" \in Kinds /\ \E a \in arrs : \E u \in {v \in ints : ~IsSigned(ts[v]) /\ W(ts[v]) >= 2} :
                add(S("idxv", a, u, 0, "", <<>>, 0))
          \/ "arr" \in Kinds /\ \E a \in arrs : \E i \in 0..2 : \E x \in {v \in ints : ts[v] = ts[a][2]} :
                add(S("aset", a, x, 0, "", <<>>, i))
          \* a literal stored into an element / a field (an untyped constant meets a narrower destination)
          \/ "arr" \in Kinds /\ \E a \in arrs : \E i \in 0..2 : \E c \in {0, 1, 3} :
                add(S("asetl", a, 0, c, "", <<>>, i))
          \* a 2 x 2 matrix [[x, y], [z, w]] (c = w), read and updated at [i][j] (c = 2 i + j)
          \/ "mat" \in Kinds /\ \E x \in ints : \E y \in {v \in ints : ts[v] = ts[x]} : \E z \in {v \in ints : ts[v] = ts[x]} :
                \E w \in {v \in ints : ts[v] = ts[x]} : add(S("mat", x, y, z, "", <<>>, w))
          \/ "mat" \in Kinds /\ \E m \in mats : \E ij \in 0..3 : add(S("midx", m, 0, 0, "", <<>>, ij))
          \/ "mat" \in Kinds /\ \E m \in mats : \E ij \in 0..3 : \E x \in {v \in ints : ts[v] = ts[m][2]} :
                add(S("mset", m, x, 0, "", <<>>, ij))
          \/ "call" \in Kinds /\ \E x \in ints : \E y \in {v \in ints : ts[v] = ts[x]} : add(S("call", x, y, 0, "", <<>>, 0))
          \/ "opassign" \in Kinds /\ \E x \in ints : \E y \in {v \in ints : ts[v] = ts[x]} : \E op \in OpAssignOps :
                add(S("opa", x, y, 0, op, <<>>, 0))
          \/ "opassign" \in Kinds /\ \E x \in {v \in ints : W(ts[v]) >= 3} : \E op \in OpAssignOps \cup {"<<", ">>"} :
                \E c \in {1, 2, 3} : add(S("opal", x, 0, 0, op, <<>>, c))
          \/ "opassign" \in Kinds /\ \E x \in ints : \E c \in {-2, -1, 1, 2} : add(S("incdec", x, 0, 0, "", <<>>, c))
          \/ "opassign" \in Kinds /\ \E s \in structs : \E k \in 1..2 : \E y \in {v \in ints : IsInt(ts[s][k + 1]) /\ ts[v] = ts[s][k + 1]} :
                \E op \in OpAssignOps : add(S("opf", s, y, 0, op, <<>>, k))
          \/ "opassign" \in Kinds /\ \E a \in {v \in arrs : IsInt(ts[v][2])} : \E i \in 0..2 : \E y \in {v \in ints : ts[v] = ts[a][2]} :
                \E op \in OpAssignOps : add(S("ope", a, y, 0, op, <<>>, i))
          \/ "opassign" \in Kinds /\ \E a \in {v \in arrs : IsInt(ts[v][2])} : add(S("lensum", a, 0, 0, "", <<>>, 0))
          \/ "tuple" \in Kinds /\ \E x \in ints : \E y \in {v \in ints : ts[v] = ts[x] /\ v # x} : add(S("vswap", x, y, 0, "", <<>>, 0))
          \/ "tuple" \in Kinds /\ \E s \in {v \in structs : ts[v][2] = ts[v][3] /\ IsInt(ts[v][2])} : \E k \in 1..2 :
                add(S("fswap", s, 0, 0, "", <<>>, k))
          \/ "tuple" \in Kinds /\ \E s \in {v \in structs : ts[v][2] = ts[v][3] /\ IsInt(ts[v][2])} : \E x \in {v \in ints : ts[v] = ts[s][2]} :
                \E y \in {v \in ints : ts[v] = ts[s][2]} : \E k \in 1..2 : add(S("fcall", s, x, y, "", <<>>, k))
          \/ "tuple" \in Kinds /\ \E a \in {v \in arrs : IsInt(ts[v][2])} : \E ij \in {<<0, 1>>, <<2, 0>>, <<1, 2>>} : \E r \in 0..2 :
                add(S("aswap", a, 0, 0, "", <<>>, 9 * ij[1] + 3 * ij[2] + r))
          \/ "tuple" \in Kinds /\ \E a \in {v \in arrs : IsInt(ts[v][2])} : \E x \in {v \in ints : ts[v] = ts[a][2]} :
                \E y \in {v \in ints : ts[v] = ts[a][2]} : \E ij \in {<<0, 2>>, <<2, 1>>} : \E r \in 0..2 :
                add(S("acall", a, x, y, "", <<>>, 9 * ij[1] + 3 * ij[2] + r))
          \/ "struct" \in Kinds /\ \E x \in ints : \E y \in ints : add(S("mk", x, y, 0, "", <<>>, 0))
          \/ "struct" \in Kinds /\ \E s \in structs : \E k \in 1..2 : add(S("fld", s, 0, 0, "", <<>>, k))
          \/ "struct" \in Kinds /\ \E s \in structs : \E k \in 1..2 : \E x \in {v \in ints : ts[v] = ts[s][k + 1]} :
                add(S("fset", s, x, 0, "", <<>>, k))
          \/ "struct" \in Kinds /\ \E s \in structs : \E k \in 1..2 : \E c \in {0, 1, 3} :
                add(S("fsetl", s, 0, c, "", <<>>, k))
          \/ "struct" \in Kinds /\ \E s \in structs : \E c1 \in {0, 1, 2, 3} : \E c2 \in {0, 1, 3} :
                add(S("mkl", s, 0, c1, "", <<>>, c2))
          \/ "struct" \in Kinds /\ \E s \in structs : \E c1 \in {0, 1, 2, 3} : \E c2 \in {0, 1, 3} : \E k \in 1..2 :
                add(S("mklf", s, k, c1, "", <<>>, c2))
    /\ UNCHANGED phase

\* the program returns one integer variable; every early return must have that type
Close ==
    /\ phase = "build" /\ Len(prog.stmts) >= 1
    /\ LET ts == TypesOf(prog, Len(prog.stmts))
           cands == {v \in 1..Len(ts) : IsInt(ts[v]) /\
                       \A i \in 1..Len(prog.stmts) : prog.stmts[i].k \in {"ifret", "loopret", "looprc"} => ts[prog.stmts[i].x] = ts[v]}
       IN \E r \in cands : prog' = [prog EXCEPT !.ret = r]
    /\ phase' = "closed"

Next == AddStmt \/ Close
Spec == Init /\ [][Next]_vars

(***************************************************************************)
(* The interpreter                                                         *)
(***************************************************************************)
\* how many members of 0, 1, 1, 2, 3, 5, 8, 13 lie below n (the iterations of `for i, j := 0, 1; i < n; i, j = j, i+j`)
FibBelow(n) == Cardinality({k \in 1..8 : <<0, 1, 1, 2, 3, 5, 8, 13>>[k] < n})
RECURSIVE Iter(_, _, _, _)
Iter(op, k, acc, y) == IF k = 0 THEN acc ELSE Iter(op, k - 1, Bin(op, acc, y), y)

\* executes statements i..n on environment env (a sequence of values); yields <<returned?, value or env>>
RECURSIVE Exec(_, _, _)
Exec(p, i, env) ==
    IF i > Len(p.stmts) THEN <<FALSE, env>>
    ELSE LET s == p.stmts[i]
             x == IF s.x > 0 THEN env[s.x] ELSE 0
             y == IF s.y > 0 THEN env[s.y] ELSE 0
         IN
         IF s.k = "ifret" /\ env[s.z].v = 1 THEN <<TRUE, x>>
         ELSE IF s.k = "looprc" /\ env[s.z].v = 1 THEN <<TRUE, x>>       \* returns in the first iteration (n >= 1)
         ELSE IF s.k = "loopret" /\ s.z < s.c THEN <<TRUE, Iter(s.op, s.z, x, y)>>
         ELSE LET new ==
                CASE s.k = "const" -> <<Val(s.t, s.c)>>
                  [] s.k = "bin" -> <<Bin(s.op, x, y)>>
                  [] s.k = "cmp" -> <<Cmp(s.op, x, y)>>
                  [] s.k = "binlit" -> <<BinL(s.op, x, s.c)>>
                  [] s.k = "cmplit" -> <<Cmp(s.op, x, Wrap(x.t, s.c))>>
                  [] s.k = "logic" -> <<[t |-> BT, v |-> IF s.op = "&&" THEN x.v * y.v ELSE (IF x.v + y.v > 0 THEN 1 ELSE 0)]>>
                  [] s.k = "not" -> <<[t |-> BT, v |-> 1 - x.v]>>
                  [] s.k = "neg" -> <<Wrap(x.t, -SVal(x))>>
                  [] s.k = "shift" -> <<Shift(s.op, x, s.c)>>
                  [] s.k = "cast" -> <<Cast(s.t, x)>>
                  [] s.k = "if" -> <<IF env[s.z].v = 1 THEN x ELSE y>>
                  \* if c1 { v = x; if c2 { v = y } } else { v = y }
                  [] s.k = "ifnest" -> <<IF env[s.z].v = 1 THEN (IF env[s.c].v = 1 THEN y ELSE x) ELSE y>>
                  \* if c1 { _, d := addsub(x, y); v = d } else { v = x }
                  [] s.k = "ifcall" -> <<IF env[s.z].v = 1 THEN Bin("-", x, y) ELSE x>>
                  [] s.k = "ifret" -> <<env[s.z]>>
                  [] s.k = "elseif" -> <<IF env[s.z].v = 1 THEN x ELSE IF env[s.c].v = 1 THEN y ELSE env[s.t[1]]>>
                  [] s.k = "loop" ->
                       LET RECURSIVE It(_, _)
                           It(k, acc) == IF k = 0 THEN acc ELSE It(k - 1, Bin(s.op, acc, y))
                       IN <<It(s.c, x)>>
                  [] s.k = "loopt" -> <<Iter(s.op, FibBelow(s.c), x, y)>>
                  [] s.k \in {"loopret", "looprc"} -> <<Iter(s.op, s.c, x, y)>>
                  [] s.k = "nest" -> <<Iter(s.op, 2 * s.c, x, y)>>
                  [] s.k = "loopi" ->
                       LET RECURSIVE Iti(_, _)
                           Iti(j, acc) == IF j = s.c THEN acc ELSE Iti(j + 1, Bin(s.op, acc, Val(x.t, j)))
                       IN <<Iti(0, x)>>
                  \* g := x (shadows a package-level g); t := y; if c { t = t + 1 }; v := g + t
                  [] s.k = "expr3" -> <<IF Prec(ExprOpList[s.c]) > Prec(s.op)
                                         THEN Bin(s.op, x, Bin(ExprOpList[s.c], y, env[s.z]))
                                         ELSE Bin(ExprOpList[s.c], Bin(s.op, x, y), env[s.z])>>
                  [] s.k = "shadow" -> <<Bin("+", x, IF env[s.z].v = 1 THEN BinL("+", y, 1) ELSE y)>>
                  [] s.k = "arr" -> <<[t |-> ArrT(x.t), v |-> <<x, y, env[s.z]>>]>>
                  [] s.k = "arrl" -> <<[t |-> ArrT(x.t), v |-> <<Wrap(x.t, s.z), x, Wrap(x.t, s.c)>>]>>
                  [] s.k = "idx" -> <<x.v[s.c + 1]>>
                  [] s.k = "idxv" -> <<x.v[(y.v % 3) + 1]>>
                  [] s.k = "aset" -> <<[x EXCEPT !.v[s.c + 1] = y]>>
                  [] s.k = "asetl" -> <<[x EXCEPT !.v[s.c + 1] = Wrap(x.t[2], s.z)]>>
                  [] s.k = "mat" -> <<[t |-> MatT(x.t), v |-> <<<<x, y>>, <<env[s.z], env[s.c]>>>>]>>
                  [] s.k = "midx" -> <<x.v[(s.c \div 2) + 1][(s.c % 2) + 1]>>
                  [] s.k = "mset" -> <<[x EXCEPT !.v[(s.c \div 2) + 1][(s.c % 2) + 1] = y]>>
                  [] s.k = "call" -> <<Bin("+", x, y), Bin("-", x, y)>>
                  [] s.k = "opa" -> <<Bin(s.op, x, y)>>
                  [] s.k = "opal" -> <<IF s.op \in {"<<", ">>"} THEN Shift(s.op, x, s.c) ELSE BinL(s.op, x, s.c)>>
                  [] s.k = "incdec" -> <<BinL("+", x, s.c)>>
                  [] s.k = "opf" -> <<Bin(s.op, x.v[s.c], y)>>
                  [] s.k = "ope" -> <<Bin(s.op, x.v[s.c + 1], y)>>
                  [] s.k = "lensum" -> <<Bin("+", Bin("+", x.v[1], x.v[2]), x.v[3])>>
                  [] s.k = "vswap" -> <<y, x>>
                  [] s.k = "fswap" -> <<x.v[3 - s.c]>>
                  [] s.k = "fcall" -> <<IF s.c = 1 THEN Bin("+", y, env[s.z]) ELSE Bin("-", y, env[s.z])>>
                  [] s.k = "aswap" -> LET ei == s.c \div 9  ej == (s.c \div 3) % 3  er == s.c % 3
                                          tt == [x EXCEPT !.v[ei + 1] = x.v[ej + 1], !.v[ej + 1] = x.v[ei + 1]]
                                      IN <<tt.v[er + 1]>>
                  [] s.k = "acall" -> LET ei == s.c \div 9  ej == (s.c \div 3) % 3  er == s.c % 3
                                          tt == [x EXCEPT !.v[ei + 1] = Bin("+", y, env[s.z]), !.v[ej + 1] = Bin("-", y, env[s.z])]
                                      IN <<tt.v[er + 1]>>
                  [] s.k = "mk" -> <<[t |-> StructT(x.t, y.t), v |-> <<x, y>>]>>
                  [] s.k = "fld" -> <<x.v[s.c]>>
                  [] s.k = "fset" -> <<[x EXCEPT !.v[s.c] = y]>>
                  [] s.k = "mklf" -> <<IF s.y = 1 THEN Wrap(x.t[2], s.z) ELSE Wrap(x.t[3], s.c)>>
                  [] s.k = "mkl" -> <<[t |-> x.t, v |-> <<Wrap(x.t[2], s.z), Wrap(x.t[3], s.c)>>]>>
                  [] s.k = "fsetl" -> <<[x EXCEPT !.v[s.c] = Wrap(x.t[s.c + 1], s.z)]>>
              IN Exec(p, i + 1, env \o new)

Run(p, a, b) == LET r == Exec(p, 1, <<Val(p.ta, a), Val(p.tb, b)>>)
                IN IF r[1] THEN r[2] ELSE r[2][p.ret]
=============================================================================
