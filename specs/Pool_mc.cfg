SPECIFICATION Spec
CONSTANTS
  Procs = {1, 2, 3}
  MaxOps = 3
  UseCAS = TRUE
  ReleaseClears = TRUE
  PutOnReturn = FALSE
  FailPuts = 1
  UseAfterRelease = FALSE
INVARIANT Safety
CHECK_DEADLOCK FALSE
