SPECIFICATION Spec
INVARIANT Property
POSTCONDITION Accepted
CHECK_DEADLOCK FALSE
