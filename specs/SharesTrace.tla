----------------------------- MODULE SharesTrace -----------------------------
(* C20 on real outputs: per-element events of VOLE runs with small moduli and *)
(* of Fx / Fxk runs; the relations are those of Shares.tla.                   *)
EXTENDS Integers, Sequences, TLC, Json, TLCExt
TraceLog == ndJsonDeserialize("shares_trace.ndjson")
VARIABLES l, bad
vars == <<l, bad>>
Ev == TraceLog[l]
Init == l = 1 /\ bad = "no"
Vole == /\ l <= Len(TraceLog) /\ Ev.ev = "vole" /\ l' = l + 1
        /\ bad' = IF /\ (Ev.u - Ev.r + Ev.p) % Ev.p = (Ev.x * Ev.y) % Ev.p
                     /\ Ev.u >= 0 /\ Ev.u < Ev.p /\ Ev.r >= 0 /\ Ev.r < Ev.p
                  THEN bad ELSE "vole"
Fx == /\ l <= Len(TraceLog) /\ Ev.ev = "fx" /\ l' = l + 1
      /\ bad' = IF (Ev.r + Ev.xb) % 2 = Ev.a * Ev.b THEN bad ELSE "fx"
\* r, xb, s are 32-bit labels given as two 16-bit halves; xor is checked per half by the harness-independent rule:
\* r xor xb = b * s   <=>   for b = 0: r = xb ; for b = 1: the harness supplies rx = r xor xb and it must equal s
Fxk == /\ l <= Len(TraceLog) /\ Ev.ev = "fxk" /\ l' = l + 1
       /\ bad' = IF (Ev.b = 0 /\ Ev.rhi = Ev.xhi /\ Ev.rlo = Ev.xlo) \/ (Ev.b = 1 /\ Ev.dhi = Ev.shi /\ Ev.dlo = Ev.slo)
                 THEN bad ELSE "fxk"
Next == Vole \/ Fx \/ Fxk
Spec == Init /\ [][Next]_vars
SharesOK == bad = "no"
Accepted == IF TLCGet("stats").diameter - 1 = Len(TraceLog) THEN TRUE
            ELSE Print(<<"VHREJECT", TLCGet("stats").diameter, 0>>, FALSE)
=============================================================================
