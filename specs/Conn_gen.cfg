SPECIFICATION GenSpec
CONSTANTS
  WBuf = 65536
  RBuf = 1048576
  NBufs = 3
  Lens = {0, 1, 15, 16, 17, 65531, 65532, 65533, 65535, 65536, 65537, 65541, 131072, 1048575, 1048576, 1048577, 3145728}
  SizesLens = {0, 1, 3, 16383, 16384, 20000}
  MaxOps = 10
  Frags <- GenFrags
CONSTRAINT Emit
CHECK_DEADLOCK FALSE
