SPECIFICATION Spec
INVARIANT NoClobber
POSTCONDITION Accepted
CHECK_DEADLOCK FALSE
