------------------------------- MODULE MpclGen -------------------------------
(* Generator: closed programs of Mpcl.tla with the interpreter's result on    *)
(* boundary inputs; the harness renders them as MPCL source, compiles them    *)
(* with the real compiler and compares every output bit.                      *)
EXTENDS Mpcl, Json

Inputs(t) == LET w == W(t) IN {0, 1, Pow2(w) - 1, Pow2(w - 1), (Pow2(w - 1) + Pow2(w) - 1) % Pow2(w), 5 % Pow2(w), 10 % Pow2(w)}

TypeStr(t) == t
Tests == {<<a, b, Run(prog, a, b).v>> : a \in Inputs(prog.ta), b \in Inputs(prog.tb)}
Case == [ta |-> prog.ta, tb |-> prog.tb, stmts |-> prog.stmts, ret |-> prog.ret,
         rt |-> TypesOf(prog, Len(prog.stmts))[prog.ret], tests |-> Tests]
Emit == phase = "closed" => PrintT(<<"VHCASE", ToJson(Case)>>)
\* the interpreter is total and type-correct on every closed program (checked exhaustively at small size)
ResultTyped == phase = "closed" =>
    \A a \in Inputs(prog.ta) : \A b \in Inputs(prog.tb) :
       LET r == Run(prog, a, b) IN r.t = TypesOf(prog, Len(prog.stmts))[prog.ret] /\ r.v \in 0..(Pow2(W(r.t)) - 1)
=============================================================================
