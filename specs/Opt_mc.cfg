SPECIFICATION Spec
CONSTANTS
  NIn = 2
  MaxGates = 2
  Ops = {"XOR", "XNOR", "AND", "OR", "INV"}
  ShortCircuitOutputs = FALSE
  XnorRuleWrong = FALSE
INVARIANT Safety
CHECK_DEADLOCK FALSE
