SPECIFICATION Spec
CONSTANTS
  NIn = 2
  MaxGates = 2
  Ops = {"XOR", "XNOR", "AND", "OR", "INV"}
  ShortCircuitOutputs = FALSE
  XnorRuleWrong = FALSE
CONSTRAINT Emit
CONSTRAINT Stop
CHECK_DEADLOCK FALSE
