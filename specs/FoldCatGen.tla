------------------------------ MODULE FoldCatGen ------------------------------
(* prints FoldCat.tla's catalogue (one VHCASE line) for the C12 driver *)
EXTENDS FoldCat
VARIABLE done
CatInit == done = FALSE
CatNext == done = FALSE /\ done' = TRUE
CatSpec == CatInit /\ [][CatNext]_done
CatEmit == done => PrintT(<<"VHCASE", ToJson(Catalogue)>>)
=============================================================================
