------------------------------ MODULE FoldTrace ------------------------------
(***************************************************************************)
(* C12: every recorded case                                                *)
(*    [op, k, w, signed, bool, x, y, folded, runtime]   (values as limbs)  *)
(* is decided here: `same` - the folded constant the rest of the program   *)
(* saw equals what the circuit computed for the run-time operands; and     *)
(* `typed` - the circuit's value is the typed semantics of FoldCat.tla     *)
(* (where defined), which anchors the comparison to the language rather    *)
(* than to two results that might be wrong together.  One verdict line is  *)
(* printed per case; the driver turns `same = FALSE` into violations.      *)
(***************************************************************************)
EXTENDS FoldCat, TLCExt

TraceLog == ndJsonDeserialize("fold_trace.ndjson")
VARIABLES l
Ev == TraceLog[l]

Verdict(e) ==
    LET t == Typed(e.op, e.k, e.signed = 1, e.w, e.bool = 1, e.x, e.y)
    IN [i |-> e.i,
        same |-> EqL(e.folded, e.runtime),
        typed |-> IF t = NA THEN "na" ELSE IF EqL(t, e.runtime) THEN "ok" ELSE "bad"]

Init == l = 1
Step == l <= Len(TraceLog) /\ l' = l + 1
Spec == Init /\ [][Step]_l
Emit == (l <= Len(TraceLog)) => PrintT(<<"VHCASE", ToJson(Verdict(Ev))>>)
ASSUME SelfTest
Accepted == IF TLCGet("stats").diameter - 1 = Len(TraceLog) THEN TRUE
            ELSE Print(<<"VHREJECT", TLCGet("stats").diameter, 0>>, FALSE)
=============================================================================
