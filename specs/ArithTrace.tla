------------------------------ MODULE ArithTrace ------------------------------
(* C07 for wide operands: results the real circuits computed (both targets,    *)
(* operand widths up to 130 bits and beyond, recorded as base-4096 limbs) are   *)
(* checked RELATIONALLY with the limb arithmetic of BV.tla, so that no wide     *)
(* division has to be executed:  q*y + r = x /\ r < y,  z + y = x (mod 2^wz) ... *)
EXTENDS BV, Json, TLCExt

TraceLog == ndJsonDeserialize("arith_trace.ndjson")
VARIABLES l, bad
vars == <<l, bad>>
Ev == TraceLog[l]
M(e) == Max(e.wx, e.wy)

Holds(e) ==
    LET x == e.x  y == e.y  z == e.z  m == M(e) IN
    CASE e.op = "add" -> EqL(Trunc(AddL(x, y), e.wz), z)
      [] e.op = "sub" -> EqL(Trunc(AddL(z, y), e.wz), Trunc(x, e.wz))
      [] e.op = "mul" -> EqL(Trunc(MulL(x, y), e.wz), z)
      [] e.op = "udiv" -> /\ EqL(AddL(MulL(z, y), e.r), x) /\ CmpL(e.r, y) < 0
      [] e.op = "idiv" ->
           LET xs == SExtL(x, e.wx, m)  ys == SExtL(y, e.wy, m)
               ax == AbsL(xs, m)  ay == AbsL(ys, m)
               aq == IF SignOf(z, e.wz) = 1 THEN NegL(z, e.wz) ELSE z
               neg == SignOf(xs, m) # SignOf(ys, m)
           IN /\ EqL(AddL(MulL(aq, ay), e.r), ax)
              /\ CmpL(e.r, ay) < 0
              \* the sign of the quotient (the one overflow case min / -1 keeps the sign bit)
              /\ (IsZero(aq) \/ (SignOf(z, e.wz) = 1) = neg \/ (~neg /\ EqL(aq, z)))
      [] e.op = "ult" -> z[1] = (IF CmpL(x, y) < 0 THEN 1 ELSE 0)
      [] e.op = "ugt" -> z[1] = (IF CmpL(x, y) > 0 THEN 1 ELSE 0)
      [] e.op = "ilt" -> z[1] = (IF SCmp(x, e.wx, y, e.wy) < 0 THEN 1 ELSE 0)
      [] e.op = "ige" -> z[1] = (IF SCmp(x, e.wx, y, e.wy) >= 0 THEN 1 ELSE 0)
      [] e.op = "eq" -> z[1] = (IF EqL(x, y) THEN 1 ELSE 0)
      [] e.op = "neq" -> z[1] = (IF EqL(x, y) THEN 0 ELSE 1)
      [] e.op = "band" -> EqL(BitOpL("and", x, y, m), z)
      [] e.op = "bxor" -> EqL(BitOpL("xor", x, y, m), z)
      [] e.op = "bclr" -> EqL(BitOpL("clr", x, y, m), z)
      [] e.op = "hamming" -> EqL(Trunc(NatL(PopCount(BitOpL("xor", x, y, m))), e.wz), z)
      [] OTHER -> TRUE

Init == l = 1 /\ bad = 0
Step == /\ l <= Len(TraceLog) /\ l' = l + 1
        \* every event that does not hold is reported (a configuration without the invariant sees all of them)
        /\ bad' = IF Holds(Ev) THEN bad ELSE (IF PrintT(<<"VHBAD", l>>) THEN l ELSE l)
Spec == Init /\ [][Step]_vars

Exact == bad = 0
ASSUME SelfTest
Accepted == IF TLCGet("stats").diameter - 1 = Len(TraceLog) THEN TRUE
            ELSE Print(<<"VHREJECT", TLCGet("stats").diameter, 0>>, FALSE)
=============================================================================
