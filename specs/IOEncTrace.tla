------------------------------ MODULE IOEncTrace ------------------------------
(***************************************************************************)
(* C13, wide members: observations recorded from the real API               *)
(*    [api, ts, vs, observed]                                               *)
(* are decided against the layout of IOEnc.tla: for "parse" and "set" the   *)
(* observed wires must be Wires(ts, vs); for "result" the decoded Go value, *)
(* re-encoded, must be the member's wires.  One verdict line per event.     *)
(***************************************************************************)
EXTENDS IOEnc, Json, TLCExt

TraceLog == ndJsonDeserialize("ioenc_trace.ndjson")
VARIABLE l
Ev == TraceLog[l]

Expected(e) == IF e.api = "result" THEN Layout(e.ts[e.member], e.vs[e.member]) ELSE Wires(e.ts, e.vs)
Verdict(e) == [i |-> l, ok |-> e.observed = Expected(e)]

TInit == l = 1 /\ ts = <<>> /\ vs = <<>>
TStep == l <= Len(TraceLog) /\ l' = l + 1 /\ UNCHANGED vars
TSpec == TInit /\ [][TStep]_<<l, vars>>
Emit == (l <= Len(TraceLog)) => PrintT(<<"VHCASE", ToJson(Verdict(Ev))>>)
Accepted == IF TLCGet("stats").diameter - 1 = Len(TraceLog) THEN TRUE
            ELSE Print(<<"VHREJECT", TLCGet("stats").diameter, 0>>, FALSE)
=============================================================================
