SPECIFICATION Spec
CONSTANTS
  WBuf = 4
  RBuf = 6
  NBufs = 3
  Lens = {0, 1, 5, 9}
  SizesLens = {0, 2}
  MaxOps = 3
INVARIANT Safety
PROPERTY EventuallyAllReceived
CHECK_DEADLOCK FALSE
