SPECIFICATION Spec
CONSTANTS
  Page = 2
  IdSet = {0, 1, 2, 3}
  Ops = {"AND", "INV"}
  MaxGates = 1
  MaxCircs = 2
  NIn = 2
  FlagRule = "abc"
  DeclRule = "numwires"
INVARIANT Safety
CHECK_DEADLOCK FALSE
