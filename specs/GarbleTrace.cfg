SPECIFICATION TraceSpec
CONSTANTS
  NIn = 3
  MaxGates = 100
  Ops = {"XOR", "XNOR", "AND", "OR", "INV"}
  FreeS = TRUE
CONSTRAINT HighWater
INVARIANT Safety
POSTCONDITION TraceAccepted
CHECK_DEADLOCK FALSE
