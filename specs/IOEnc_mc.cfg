SPECIFICATION Spec
CONSTANTS
  MaxMembers = 2
  ScalarWidths = {1, 3}
  ElWidths = {2}
  Counts = {0, 1, 2}
INVARIANT Safety
CHECK_DEADLOCK FALSE
