---------------------------------- MODULE BV ----------------------------------
(***************************************************************************)
(* Wide bit vectors for TLC: a value of width w is a little-endian         *)
(* sequence of ceil(w/12) limbs in base 4096, so that every intermediate   *)
(* (limb products plus carries) stays far below TLC's 32-bit integers.     *)
(* Used to check, relationally, results the real circuits computed for     *)
(* operands of up to 130 and more bits.                                    *)
(***************************************************************************)
EXTENDS Integers, Sequences, TLC

LB == 12
Base == 4096
NLimbs(w) == (w + LB - 1) \div LB
Pow2(n) == 2 ^ n
Min(a, b) == IF a < b THEN a ELSE b
Max(a, b) == IF a > b THEN a ELSE b

Zeros(n) == [i \in 1..n |-> 0]
\* limb i (1-based) of a, 0 beyond its length
Limb(a, i) == IF i <= Len(a) THEN a[i] ELSE 0
\* zero-extend or cut to n limbs
Fit(a, n) == [i \in 1..n |-> Limb(a, i)]
\* keep the low w bits, as NLimbs(w) limbs
Trunc(a, w) ==
    LET n == NLimbs(w)
        top == w - (n - 1) * LB
    IN [i \in 1..n |-> IF i = n THEN Limb(a, i) % Pow2(top) ELSE Limb(a, i)]

IsZero(a) == \A i \in 1..Len(a) : a[i] = 0
EqL(a, b) == \A i \in 1..Max(Len(a), Len(b)) : Limb(a, i) = Limb(b, i)

\* -1, 0, 1 comparing as unsigned integers
RECURSIVE CmpFrom(_, _, _)
CmpFrom(a, b, i) == IF i = 0 THEN 0
                    ELSE IF Limb(a, i) > Limb(b, i) THEN 1
                    ELSE IF Limb(a, i) < Limb(b, i) THEN -1
                    ELSE CmpFrom(a, b, i - 1)
CmpL(a, b) == CmpFrom(a, b, Max(Len(a), Len(b)))

\* a + b as max(len)+1 limbs
RECURSIVE AddFrom(_, _, _, _, _)
AddFrom(a, b, i, n, carry) ==
    IF i > n THEN <<carry>>
    ELSE LET s == Limb(a, i) + Limb(b, i) + carry
         IN <<s % Base>> \o AddFrom(a, b, i + 1, n, s \div Base)
AddL(a, b) == AddFrom(a, b, 1, Max(Len(a), Len(b)), 0)

\* a * (single limb m), shifted by k limbs
RECURSIVE MulLimbFrom(_, _, _, _)
MulLimbFrom(a, m, i, carry) ==
    IF i > Len(a) THEN <<carry>>
    ELSE LET p == a[i] * m + carry IN <<p % Base>> \o MulLimbFrom(a, m, i + 1, p \div Base)
RECURSIVE MulFrom(_, _, _)
MulFrom(a, b, j) ==
    IF j > Len(b) THEN Zeros(Len(a) + Len(b))
    ELSE Fit(AddL(Zeros(j - 1) \o MulLimbFrom(a, b[j], 1, 0), MulFrom(a, b, j + 1)), Len(a) + Len(b))
MulL(a, b) == IF Len(a) = 0 \/ Len(b) = 0 THEN <<>> ELSE MulFrom(a, b, 1)

\* bitwise helpers on one limb
RECURSIVE BitOp12(_, _, _, _)
BitOp12(op, x, y, n) ==
    IF n = 0 THEN 0
    ELSE LET p == x % 2  q == y % 2
             r == CASE op = "and" -> p * q [] op = "or" -> IF p + q > 0 THEN 1 ELSE 0
                    [] op = "xor" -> (p + q) % 2 [] op = "clr" -> p * (1 - q)
         IN r + 2 * BitOp12(op, x \div 2, y \div 2, n - 1)
BitOpL(op, a, b, w) == Trunc([i \in 1..NLimbs(w) |-> BitOp12(op, Limb(a, i), Limb(b, i), LB)], w)
RECURSIVE Pop12(_, _)
Pop12(x, n) == IF n = 0 THEN 0 ELSE (x % 2) + Pop12(x \div 2, n - 1)
RECURSIVE PopFrom(_, _)
PopFrom(a, i) == IF i > Len(a) THEN 0 ELSE Pop12(a[i], LB) + PopFrom(a, i + 1)
PopCount(a) == PopFrom(a, 1)

\* bit k (0-based) of a
BitOf(a, k) == (Limb(a, k \div LB + 1) \div Pow2(k % LB)) % 2
\* two's complement at width w
NotL(a, w) == Trunc([i \in 1..NLimbs(w) |-> Base - 1 - Limb(a, i)], w)
NegL(a, w) == Trunc(AddL(NotL(a, w), <<1>>), w)
SignOf(a, w) == BitOf(a, w - 1)
AbsL(a, w) == IF SignOf(a, w) = 1 THEN NegL(a, w) ELSE Trunc(a, w)
\* sign extension from width w to width v >= w
SExtL(a, w, v) == IF SignOf(a, w) = 0 THEN Fit(Trunc(a, w), NLimbs(v))
                  ELSE Trunc([i \in 1..NLimbs(v) |->
                                 IF i < NLimbs(w) THEN Limb(a, i)
                                 ELSE IF i = NLimbs(w)
                                      THEN (Limb(a, i) % Pow2(w - (NLimbs(w) - 1) * LB)) + (Base - Pow2(w - (NLimbs(w) - 1) * LB))
                                      ELSE Base - 1], v)
\* value of a small natural as limbs
NatL(n) == IF n < Base THEN <<n>> ELSE <<n % Base, (n \div Base) % Base, n \div (Base * Base)>>
\* signed comparison of a (width wa) and b (width wb): -1, 0, 1
SCmp(a, wa, b, wb) ==
    LET v == Max(wa, wb) + 1
        \* add 2^(v-1) to both sign-extended values: order preserving map to unsigned
        bias == [i \in 1..NLimbs(v) |-> IF i = NLimbs(v) THEN Pow2((v - 1) % LB) ELSE 0]
        x == Trunc(AddL(SExtL(a, wa, v), bias), v)
        y == Trunc(AddL(SExtL(b, wb, v), bias), v)
    IN CmpL(x, y)

\* self check against TLC's native arithmetic on small operands
FromNat(n, w) == Trunc(NatL(n), w)
RECURSIVE ToNatFrom(_, _)
ToNatFrom(a, i) == IF i > Len(a) THEN 0 ELSE a[i] + Base * ToNatFrom(a, i + 1)
ToNat(a) == ToNatFrom(a, 1)
SelfTest ==
    \A x \in {0, 1, 5, 4095, 4096, 70000, 1048575} : \A y \in {0, 1, 7, 4095, 4097, 65535} :
        /\ ToNat(AddL(NatL(x), NatL(y))) = x + y
        /\ ((x < 30000 /\ y < 30000) => ToNat(MulL(NatL(x), NatL(y))) = x * y)
        /\ CmpL(NatL(x), NatL(y)) = (IF x > y THEN 1 ELSE IF x < y THEN -1 ELSE 0)
        /\ ToNat(Trunc(NatL(x), 13)) = x % 8192
        /\ ToNat(NegL(FromNat(x % 8192, 13), 13)) = (8192 - (x % 8192)) % 8192
        /\ ToNat(BitOpL("xor", NatL(x), NatL(y), 24)) = ToNat(BitOpL("or", NatL(x), NatL(y), 24)) - ToNat(BitOpL("and", NatL(x), NatL(y), 24))
=============================================================================
