----------------------------- MODULE DetermTrace -----------------------------
(***************************************************************************)
(* C08: events recorded from real compilations                              *)
(*    [h, i, proc, share, key, circ, ssa, err]                              *)
(* (h: history, key: program/sizes/parameter values, circ and ssa: SHA-256  *)
(* of the marshalled circuit and of the SSA listing).  The trace is         *)
(* accepted when, over ALL histories of the trace, one key always came with *)
(* one circuit hash, one SSA hash and one error status: that is             *)
(* Deterministic of Determ.tla with the hashes as outputs.  Every event     *)
(* that contradicts the first event of its key is printed.                  *)
(***************************************************************************)
EXTENDS Integers, Sequences, TLC, Json, TLCExt

TraceLog == ndJsonDeserialize("determ_trace.ndjson")
VARIABLES l, first
Ev == TraceLog[l]
Out(e) == <<e.circ, e.ssa, e.err # "">>

Init == l = 1 /\ first = <<>>
Step == /\ l <= Len(TraceLog) /\ l' = l + 1
        /\ first' = IF Ev.key \in DOMAIN first THEN first ELSE (Ev.key :> l) @@ first
Spec == Init /\ [][Step]_<<l, first>>
Verdict == IF l <= Len(TraceLog) /\ Ev.key \in DOMAIN first /\ Out(Ev) # Out(TraceLog[first[Ev.key]])
           THEN PrintT(<<"VHCASE", ToJson([l |-> l, ref |-> first[Ev.key],
                                           what |-> IF Ev.circ # TraceLog[first[Ev.key]].circ THEN "circuit"
                                                    ELSE IF Ev.ssa # TraceLog[first[Ev.key]].ssa THEN "ssa" ELSE "error"])>>)
           ELSE TRUE
Accepted == IF TLCGet("stats").diameter - 1 = Len(TraceLog) THEN TRUE
            ELSE Print(<<"VHREJECT", TLCGet("stats").diameter, 0>>, FALSE)
=============================================================================
