SPECIFICATION PSpec
CONSTANTS
  NIn = 2
  MaxGates = 2
  Ops = {"XOR", "XNOR", "AND", "OR", "INV"}
  FreeS = FALSE
  MaxFaults = 0
  Deviating = FALSE
  RangeRule = "exact"
CONSTRAINT Emit
CHECK_DEADLOCK FALSE
