SPECIFICATION PSpec
CONSTANTS
  NIn = 2
  MaxGates = 2
  Ops = {"XOR", "XNOR", "AND", "OR", "INV"}
  FreeS = FALSE
  MaxFaults = 0
CONSTRAINT Emit
CHECK_DEADLOCK FALSE
