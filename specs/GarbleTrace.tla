---------------------------- MODULE GarbleTrace ----------------------------
(* Trace validation: permute bits, row counts and decoded bits observed on *)
(* real Garble/Eval runs must be explained by the symbolic specification:  *)
(* the nondeterministic permute bits of the hash atoms are bound to the    *)
(* logged ones, the evaluator's decoded bit must be the one the spec's     *)
(* active label decodes to.                                                *)
EXTENDS Garble, Json, TLCExt

TraceLog == ndJsonDeserialize("garble_trace.ndjson")
VARIABLE l
tvars == <<vars, l>>
Ev == TraceLog[l]
IsEvent(e) == l <= Len(TraceLog) /\ Ev.ev = e /\ l' = l + 1

TraceInit == Init /\ l = 1

\* a new circuit, its inputs and the permute bits of the input labels
EvCirc ==
    /\ IsEvent("circ")
    /\ gates' = Ev.gates
    /\ sb' = (<<"R">> :> 1) @@ [x \in {<<"B", w>> : w \in 0..(Ev.nin - 1)} |-> Ev.sin[x[2] + 1]]
    /\ lab' = [w \in 0..(Ev.nin - 1) |-> <<{<<"B", w>>}, XorL({<<"B", w>>}, R)>>]
    /\ inp' = [w \in 0..(Ev.nin - 1) |-> Ev.inp[w + 1]]
    /\ phase' = "garble" /\ g' = 1 /\ tab' = <<>> /\ gid' = 0 /\ eid' = 0 /\ act' = <<>> /\ ekey' = KeyG

EvGGate ==
    /\ IsEvent("ggate")
    /\ g = Ev.i
    /\ GarbleGate
    /\ Sof(lab'[OutWire(g)][1], sb') = Ev.sc0
    /\ Len(tab'[g]) = Ev.rows

EvStartEval == IsEvent("eval") /\ StartEval

EvEGate ==
    /\ IsEvent("egate")
    /\ g = Ev.i
    /\ EvalGate
    /\ S(act'[OutWire(g)]) = Ev.sact
    /\ Ev.bit \in {0, 1}
    /\ act'[OutWire(g)] = lab[OutWire(g)][Ev.bit + 1]

EvDone == IsEvent("done") /\ Finish

TraceNext == EvCirc \/ EvGGate \/ EvStartEval \/ EvEGate \/ EvDone
TraceSpec == TraceInit /\ [][TraceNext]_tvars

HighWater == IF l > TLCGet(1) THEN TLCSet(1, l) ELSE TRUE
TraceAccepted ==
    IF TLCGet(1) = Len(TraceLog) + 1 THEN TRUE
    ELSE Print(<<"VHREJECT", TLCGet(1), ToJson(TraceLog[TLCGet(1)])>>, FALSE)
ASSUME TLCSet(1, 0)
=============================================================================
