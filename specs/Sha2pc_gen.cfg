SPECIFICATION Spec
CONSTRAINT Emit
CHECK_DEADLOCK FALSE
