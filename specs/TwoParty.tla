------------------------------ MODULE TwoParty ------------------------------
(***************************************************************************)
(* The whole-circuit two-party protocol: circuit/garbler.go (Garbler) and  *)
(* circuit/evaluator.go (Evaluator) on top of the symbolic garbling of     *)
(* Garble.tla.  Statement order follows the code; every field that crosses *)
(* the connection is one element of a channel, so that                     *)
(*   - C02: Agreement / Correct / NoError on fault-free runs,              *)
(*   - C04: NoPair / NoR on everything the garbler transmits,              *)
(*   - C16: NeverWrong under the fault action Corrupt                      *)
(* are all invariants of the same module (three configurations).           *)
(*                                                                         *)
(* Oblivious transfer is an ideal functionality here (its own correctness  *)
(* is C06/C15); a fault inside OT makes it fail, stall, or hand garbage to *)
(* the evaluator.                                                          *)
(***************************************************************************)
EXTENDS Garble

CONSTANTS MaxFaults,   \* number of Corrupt steps allowed (0 for C02/C04)
          Deviating,   \* TRUE: the evaluator may name ANY wire range for the OT and pick any choice bits (C04)
          RangeRule    \* "exact" (as coded: offset = |garbler input| and count = |evaluator input|)
                       \* | "end" (deviation: the range only has to end at the last input wire)

VARIABLES n0,        \* the garbler's input wires are 0..n0-1, the evaluator's n0..NIn-1
          nout,      \* outputs are the last nout wires
          gpc, epc,  \* program counters
          chGE, chEG,\* fields in flight: [k, i, v]
          otbox,     \* what the ideal OT holds: wire -> <<L0, L1>>
          otFault,   \* "none" | "garbage" | "error" | "stall"
          faults, nx,
          sent,      \* every label value the garbler has put on the wire / released through OT
          erange,    \* the evaluator's received own-input labels etc. are in act; this is G's view of the OT range
          gout, eout,\* returned bit sequences
          outcome    \* garbler's outcome: "running" | "value" | "error"; evaluator's: in epc

pvars == <<n0, nout, gpc, epc, chGE, chEG, otbox, otFault, faults, nx, sent, erange, gout, eout, outcome>>
allvars == <<vars, pvars>>

N1 == NIn - n0
OutBase == NWires - nout
F(k, i, v) == [k |-> k, i |-> i, v |-> v]
Garbage(n) == {<<"X", n, 0>>}

PInit == /\ Init
         /\ n0 \in 0..NIn /\ nout = 0
         /\ gpc = "build" /\ epc = "recv"
         /\ chGE = <<>> /\ chEG = <<>> /\ otbox = <<>> /\ otFault = "none"
         /\ faults = 0 /\ nx = 0 /\ sent = {} /\ erange = <<-1, -1>>
         /\ gout = <<>> /\ eout = <<>> /\ outcome = "running"

\* ---- circuit construction and garbling are Garble's own actions
Build == AddGate /\ UNCHANGED pvars
GStart == /\ StartGarble /\ \E k \in 1..Len(gates) : nout' = k
          /\ gpc' = "garble"
          /\ UNCHANGED <<n0, epc, chGE, chEG, otbox, otFault, faults, nx, sent, erange, gout, eout, outcome>>
GGarble == GarbleGate /\ UNCHANGED pvars

RECURSIVE Flatten(_)
Flatten(ss) == IF ss = <<>> THEN <<>> ELSE Head(ss) \o Flatten(Tail(ss))

\* Garbler: key, tables, own input labels
GSend ==
    /\ gpc = "garble" /\ phase = "garble" /\ g > Len(gates)
    /\ LET tables == Flatten([i \in 1..Len(gates) |->
                         <<F("nrow", i, Len(tab[i]))>> \o [j \in 1..Len(tab[i]) |-> F("row", <<i, j>>, tab[i][j])]])
           own == [w \in 1..n0 |-> F("glabel", w - 1, lab[w - 1][inp[w - 1] + 1])]
       IN /\ chGE' = <<F("keylen", 0, 32), F("key", 0, KeyG), F("ntab", 0, Len(gates))>> \o tables \o own
          /\ sent' = sent \cup UNION {{tab[i][j] : j \in 1..Len(tab[i])} : i \in 1..Len(gates)}
                          \cup {lab[w][inp[w] + 1] : w \in 0..(n0 - 1)}
    /\ gpc' = "range"
    /\ UNCHANGED <<vars, n0, nout, epc, chEG, otbox, otFault, faults, nx, erange, gout, eout, outcome>>

\* Evaluator: receive everything up to its own OT
ERecv ==
    /\ epc = "recv" /\ chGE # <<>> /\ chGE[1].k = "keylen"
    /\ LET klen == chGE[1].v
           ntab == chGE[3].v
           fields == SubSeq(chGE, 4, Len(chGE))
           rowsOf(i) == LET p == CHOOSE p \in 1..Len(fields) : fields[p].k = "nrow" /\ fields[p].i = i
                        IN [j \in 1..fields[p].v |-> fields[p + j].v]
           declared(i) == LET p == CHOOSE p \in 1..Len(fields) : fields[p].k = "nrow" /\ fields[p].i = i
                          IN fields[p].v
           framingOK == klen = 32 /\ \A i \in 1..Len(gates) : declared(i) = RowCount(gates[i].op)
       IN IF klen = 32 /\ ntab # Len(gates)
          THEN /\ epc' = "err" /\ UNCHANGED <<tab, act, ekey, sb, nx>>      \* "wrong number of gates"
          ELSE IF ~framingOK
          THEN \* a corrupted length field: the byte stream is misframed from here on
               /\ epc' \in {"err", "stall"} /\ UNCHANGED <<tab, act, ekey, sb, nx>>
          ELSE /\ tab' = [i \in 1..Len(gates) |-> rowsOf(i)]
               /\ act' = [w \in 0..(n0 - 1) |->
                            (LET p == CHOOSE p \in 1..Len(fields) : fields[p].k = "glabel" /\ fields[p].i = w
                             IN fields[p].v)]
               /\ ekey' = chGE[2].v
               /\ epc' = "sendrange"
               /\ UNCHANGED <<sb, nx>>
    /\ chGE' = <<>>
    /\ UNCHANGED <<gates, phase, g, lab, gid, eid, inp, n0, nout, gpc, chEG, otbox, otFault, faults, sent, erange, gout, eout, outcome>>

ESendRange ==
    /\ epc = "sendrange"
    /\ IF Deviating
       THEN \E off \in 0..NIn : \E cnt \in 0..(NIn - off) : chEG' = <<F("offset", 0, off), F("count", 0, cnt)>>
       ELSE chEG' = <<F("offset", 0, n0), F("count", 0, N1)>>
    /\ epc' = "otrecv"
    /\ UNCHANGED <<vars, n0, nout, gpc, chGE, otbox, otFault, faults, nx, sent, erange, gout, eout, outcome>>

\* Garbler: `if offset != Inputs[0].Bits || count != Inputs[1].Bits { error }`, then OT.Send
GRange ==
    /\ gpc = "range" /\ Len(chEG) >= 2 /\ chEG[1].k = "offset"
    /\ IF (RangeRule = "exact" /\ chEG[1].v = n0 /\ chEG[2].v = N1)
          \/ (RangeRule = "end" /\ chEG[1].v + chEG[2].v = NIn)
       THEN /\ otbox' = [w \in chEG[1].v..(chEG[1].v + chEG[2].v - 1) |-> lab[w]]
            /\ gpc' = "outs"
            /\ UNCHANGED outcome
       ELSE /\ gpc' = "err" /\ outcome' = "error" /\ UNCHANGED otbox
    /\ chEG' = SubSeq(chEG, 3, Len(chEG))
    /\ UNCHANGED <<vars, n0, nout, epc, chGE, otFault, faults, nx, sent, erange, gout, eout>>

\* ideal OT: the evaluator obtains exactly the label its input bit selects
EOTRecv ==
    /\ epc = "otrecv" /\ (N1 = 0 \/ otbox # <<>>)
    /\ CASE DOMAIN otbox # n0..(NIn - 1) /\ otbox # <<>> ->
              \* a deviating evaluator was served another range: it learns the labels it chooses and gives up
              \E c \in [DOMAIN otbox -> {0, 1}] :
                /\ sent' = sent \cup {otbox[w][c[w] + 1] : w \in DOMAIN otbox}
                /\ epc' = "stall" /\ UNCHANGED <<act, phase, g, nx, sb>>
         [] otFault = "none" ->
              /\ act' = act @@ [w \in n0..(NIn - 1) |-> otbox[w][inp[w] + 1]]
              /\ sent' = sent \cup {otbox[w][inp[w] + 1] : w \in n0..(NIn - 1)}
              /\ phase' = "eval" /\ g' = 1 /\ epc' = "eval"
              /\ UNCHANGED <<nx, sb>>
         [] otFault = "garbage" ->
              \* some transferred labels come out as garbage
              \E bad \in (SUBSET (n0..(NIn - 1))) \ {{}} : \E sx \in SChoices :
                /\ act' = act @@ [w \in n0..(NIn - 1) |->
                                   IF w \in bad THEN XorL(otbox[w][inp[w] + 1], Garbage(nx)) ELSE otbox[w][inp[w] + 1]]
                /\ sb' = sb @@ (<<"X", nx, 0>> :> sx)
                /\ nx' = nx + 1
                /\ sent' = sent
                /\ phase' = "eval" /\ g' = 1 /\ epc' = "eval"
         [] otFault = "error" -> /\ epc' = "err" /\ UNCHANGED <<act, sent, phase, g, nx, sb>>
         [] otFault = "stall" -> /\ epc' = "stall" /\ UNCHANGED <<act, sent, phase, g, nx, sb>>
    /\ UNCHANGED <<gates, lab, tab, gid, eid, inp, ekey, n0, nout, gpc, chGE, chEG, otbox, otFault, faults, erange, gout, eout, outcome>>

EEval == /\ epc = "eval" /\ g <= Len(gates)
         /\ IF RowsUsable(gates[g], act[gates[g].a], act[gates[g].b], tab[g])
            THEN EvalGate /\ UNCHANGED pvars
            ELSE /\ epc' = "err"     \* "corrupted circuit"
                 /\ UNCHANGED <<vars, n0, nout, gpc, chGE, chEG, otbox, otFault, faults, nx, sent, erange, gout, eout, outcome>>

ESendOuts ==
    /\ epc = "eval" /\ g > Len(gates)
    /\ chEG' = chEG \o [i \in 1..nout |-> F("outlabel", i, act[OutBase + i - 1])]
    /\ epc' = "result"
    /\ UNCHANGED <<vars, n0, nout, gpc, chGE, otbox, otFault, faults, nx, sent, erange, gout, eout, outcome>>

\* Garbler: BitFromLabel on every returned label, then the result
GOuts ==
    /\ gpc = "outs" /\ Len(chEG) >= nout /\ chEG[1].k = "outlabel"
    /\ IF \A i \in 1..nout : chEG[i].v \in {lab[OutBase + i - 1][1], lab[OutBase + i - 1][2]}
       THEN /\ gout' = [i \in 1..nout |-> IF chEG[i].v = lab[OutBase + i - 1][2] THEN 1 ELSE 0]
            /\ chGE' = <<F("result", 0, gout')>>
            /\ gpc' = "done" /\ outcome' = "value"
       ELSE /\ gpc' = "err" /\ outcome' = "error" /\ UNCHANGED <<gout, chGE>>
    /\ chEG' = <<>>
    /\ UNCHANGED <<vars, n0, nout, epc, otbox, otFault, faults, nx, sent, erange, eout>>

EResult ==
    /\ epc = "result" /\ chGE # <<>> /\ chGE[1].k = "result"
    /\ eout' = chGE[1].v /\ epc' = "done" /\ chGE' = <<>>
    /\ UNCHANGED <<vars, n0, nout, gpc, chEG, otbox, otFault, faults, nx, sent, erange, gout, outcome>>

(***************************************************************************)
(* Faults (C16): one field of a message in flight is replaced              *)
(***************************************************************************)
CorruptField(f) ==
    CASE f.k \in {"row", "glabel", "outlabel"} -> [f EXCEPT !.v = XorL(f.v, Garbage(nx))]
      [] f.k = "key" -> [f EXCEPT !.v = "kx"]
      [] f.k = "result" -> [f EXCEPT !.v = <<>>]
      [] OTHER -> f    \* integer fields: see CorruptInt

Corrupt ==
    /\ faults < MaxFaults
    /\ faults' = faults + 1
    /\ \/ \E p \in 1..Len(chGE) :
            /\ chGE[p].k \in {"row", "glabel", "key", "result"}
            /\ chGE' = [chGE EXCEPT ![p] = CorruptField(chGE[p])]
            /\ \E sx \in SChoices : sb' = sb @@ (<<"X", nx, 0>> :> sx)
            /\ nx' = nx + 1 /\ UNCHANGED <<chEG, otFault>>
       \/ \E p \in 1..Len(chGE) : \E d \in {-1, 1, 7} :
            /\ chGE[p].k \in {"keylen", "ntab", "nrow"}
            /\ chGE[p].v + d >= 0
            /\ chGE' = [chGE EXCEPT ![p].v = @ + d]
            /\ UNCHANGED <<chEG, otFault, sb, nx>>
       \/ \E p \in 1..Len(chEG) :
            /\ chEG[p].k = "outlabel"
            /\ chEG' = [chEG EXCEPT ![p] = CorruptField(chEG[p])]
            /\ \E sx \in SChoices : sb' = sb @@ (<<"X", nx, 0>> :> sx)
            /\ nx' = nx + 1 /\ UNCHANGED <<chGE, otFault>>
       \/ \E p \in 1..Len(chEG) : \E d \in {-1, 1} :
            /\ chEG[p].k \in {"offset", "count"}
            /\ chEG[p].v + d >= 0
            /\ chEG' = [chEG EXCEPT ![p].v = @ + d]
            /\ UNCHANGED <<chGE, otFault, sb, nx>>
       \/ /\ epc = "otrecv" /\ otFault = "none"
          /\ otFault' \in {"garbage", "error", "stall"}
          /\ UNCHANGED <<chGE, chEG, sb, nx>>
    /\ UNCHANGED <<gates, phase, g, lab, tab, gid, eid, inp, act, ekey, n0, nout, gpc, epc, otbox, sent, erange, gout, eout, outcome>>

PNext == Build \/ GStart \/ GGarble \/ GSend \/ ERecv \/ ESendRange \/ GRange \/ EOTRecv
         \/ EEval \/ ESendOuts \/ GOuts \/ EResult \/ Corrupt
PSpec == PInit /\ [][PNext]_allvars /\ WF_allvars(PNext)

(***************************************************************************)
(* Properties                                                              *)
(***************************************************************************)
Expected == [i \in 1..nout |-> Plain[OutBase + i - 1]]

\* C02 (fault-free): both return the plain evaluation, nobody errs
Correct   == gpc = "done" => gout = Expected
Agreement == epc = "done" => (gpc = "done" /\ eout = gout)
NoError   == MaxFaults = 0 => (gpc # "err" /\ epc \notin {"err", "stall"})
Completes == (gpc = "garble") ~> (gpc = "done" /\ epc = "done")
TwoPartyOK == Correct /\ Agreement /\ NoError

\* C04: the garbler never transmits both labels of a wire, nor two values differing by R, nor R
NoPair == \A w \in DOMAIN lab : ~({lab[w][1], lab[w][2]} \subseteq sent)
NoRDiff == \A u \in sent : XorL(u, R) \notin sent
NoR == R \notin sent
Secrecy == NoPair /\ NoRDiff /\ NoR

\* C16: whatever is corrupted, the garbler never returns a wrong value
NeverWrong == outcome = "value" => gout = Expected
=============================================================================
