SPECIFICATION FSpec
CONSTANTS
  Widths = {8}
  MaxStmts = 1
  Kinds = {}
  FoldWidths = {1, 2, 3, 4, 8}
  FoldOps = {"+", "-", "*", "/", "%", "&", "|", "^", "&^", "<<", ">>", "<", "<=", ">", ">=", "==", "!=", "neg"}
  Consumers = {"ret", "add1", "div3", "lt2", "shl1"}
CONSTRAINT FEmit
CHECK_DEADLOCK FALSE
