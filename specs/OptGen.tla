------------------------------- MODULE OptGen -------------------------------
(* Generator for C09: every small gate graph of Opt.tla with its outputs and *)
(* the truth table of the ORIGINAL graph; the harness builds the graph with  *)
(* the public circuits.Compiler API and pushes it through the real passes.   *)
EXTENDS Opt, Json
InSeq == [i \in 1..(2 ^ NIn) |-> [w \in 1..NIn |-> ((i - 1) \div (2 ^ (w - 1))) % 2]]
OutSeq == LET S == outs IN [i \in 1..Cardinality(S) |-> CHOOSE w \in S : Cardinality({u \in S : u < w}) = i - 1]
Table == [i \in 1..(2 ^ NIn) |-> LET e == Eval(orig, InSeq[i], {}) IN [j \in 1..Len(OutSeq) |-> e[OutSeq[j]]]]
Emit == (phase = "constprop" /\ k = 1) =>
          PrintT(<<"VHCASE", ToJson([nin |-> NIn, gates |-> orig, outs |-> OutSeq, table |-> Table])>>)
\* do not explore the passes in the generator configuration
Stop == phase = "build" \/ (phase = "constprop" /\ k = 1)
=============================================================================
