SPECIFICATION Spec
CONSTANTS
  Widths = {1, 3, 8, 13}
  MaxStmts = 5
  Kinds = {"const", "lit", "bin", "cmp", "logic", "neg", "shift", "cast", "if", "ifret", "loop", "arr", "call", "struct"}
CONSTRAINT Emit
CHECK_DEADLOCK FALSE
