------------------------------- MODULE Sha2pc -------------------------------
(***************************************************************************)
(* sha2pc: the four-round SHA256(a xor b) protocol with resumable parties. *)
(*   G1 (GarblerRound1)  -> m1 -> E2 (EvaluatorRound2) -> m2 ->             *)
(*   G3 (GarblerRound3)  -> m3 -> E4 (EvaluatorRound4) -> digest            *)
(* Messages travel as encoded bytes; each party may persist its session    *)
(* and continue from the decoded copy (a process restart) between its two  *)
(* rounds; any message may be re-encoded, replaced by the corresponding    *)
(* message of another session or of a session on another curve, or         *)
(* mutated.  Checks are modelled where the code performs them:             *)
(*   DecodeRound1/2: magic, curve name;  EvaluatorRound2: curve name;      *)
(*   GarblerRound3: session id;  EvaluatorRound4: session id, labels.      *)
(***************************************************************************)
EXTENDS Integers, Sequences, FiniteSets, TLC

NoneS == [sid |-> 0, curve |-> "-"]
NoneM == [round |-> 0, sid |-> 0, curve |-> "-", ok |-> TRUE, from |-> 0]

VARIABLES next,    \* next protocol round to run: 1..5 (5 = finished)
          gS, gDisk, eS, eDisk,
          m1, m2, m3,
          out,     \* "none" | "ok" | "wrong"
          err,     \* "none" | where the run was rejected
          used,    \* optional steps already taken
          hist     \* the behaviour, for replay on the real code

vars == <<next, gS, gDisk, eS, eDisk, m1, m2, m3, out, err, used, hist>>

Init == /\ next = 1 /\ gS = NoneS /\ gDisk = NoneS /\ eS = NoneS /\ eDisk = NoneS
        /\ m1 = NoneM /\ m2 = NoneM /\ m3 = NoneM /\ out = "none" /\ err = "none"
        /\ used = {} /\ hist = <<>>

Running == err = "none" /\ next <= 4
H(a) == hist' = Append(hist, a)

G1 == /\ Running /\ next = 1
      /\ gS' = [sid |-> 1, curve |-> "c1"]
      /\ m1' = [round |-> 1, sid |-> 1, curve |-> "c1", ok |-> TRUE, from |-> 1]
      /\ next' = 2 /\ H("G1")
      /\ UNCHANGED <<gDisk, eS, eDisk, m2, m3, out, err, used>>

\* decoding a message for a receiver on curve c1
DecodeOK(m, round) == m.ok /\ m.round = round /\ (round = 3 \/ m.curve = "c1")

E2 == /\ Running /\ next = 2
      /\ IF ~DecodeOK(m1, 1) THEN err' = "decode1" /\ UNCHANGED <<eS, m2, next>>
         ELSE /\ eS' = [sid |-> m1.sid, curve |-> "c1"]
              /\ m2' = [round |-> 2, sid |-> m1.sid, curve |-> "c1", ok |-> TRUE, from |-> m1.from]
              /\ next' = 3 /\ UNCHANGED err
      /\ H("E2")
      /\ UNCHANGED <<gS, gDisk, eDisk, m1, m3, out, used>>

G3 == /\ Running /\ next = 3
      /\ IF ~DecodeOK(m2, 2) THEN err' = "decode2" /\ UNCHANGED <<m3, next>>
         ELSE IF gS = NoneS THEN err' = "G3-nostate" /\ UNCHANGED <<m3, next>>
         ELSE IF m2.sid # gS.sid THEN err' = "G3-session" /\ UNCHANGED <<m3, next>>
         ELSE /\ m3' = [round |-> 3, sid |-> gS.sid, curve |-> "-", ok |-> TRUE, from |-> m2.from]
              /\ next' = 4 /\ UNCHANGED err
      /\ H("G3")
      /\ UNCHANGED <<gS, gDisk, eS, eDisk, m1, m2, out, used>>

E4 == /\ Running /\ next = 4
      /\ IF ~DecodeOK(m3, 3) THEN err' = "decode3" /\ UNCHANGED <<out, next>>
         ELSE IF eS = NoneS THEN err' = "E4-nostate" /\ UNCHANGED <<out, next>>
         ELSE IF m3.sid # eS.sid THEN err' = "E4-session" /\ UNCHANGED <<out, next>>
         \* ciphertexts made for another receiver's choices do not decrypt to labels of the circuit
         ELSE IF m3.from # 1 THEN err' = "E4-labels" /\ UNCHANGED <<out, next>>
         ELSE out' = "ok" /\ next' = 5 /\ UNCHANGED err
      /\ H("E4")
      /\ UNCHANGED <<gS, gDisk, eS, eDisk, m1, m2, m3, used>>

\* ---- optional steps, each at most once
OptQ(name, guard) == Running /\ name \notin used /\ guard /\ used' = used \cup {name}
Opt(name, guard) == OptQ(name, guard) /\ H(name)

RestartG == /\ Opt("restartG", next \in {2, 3})
            /\ gDisk' = gS /\ gS' = gS       \* Decode(Encode(s)) = s
            /\ UNCHANGED <<next, eS, eDisk, m1, m2, m3, out, err>>
RestartE == /\ Opt("restartE", next \in {3, 4})
            /\ eDisk' = eS /\ eS' = eS
            /\ UNCHANGED <<next, gS, gDisk, m1, m2, m3, out, err>>
RecodeName(k) == <<"recode1", "recode2", "recode3">>[k]
Recode(k) == /\ Opt(RecodeName(k), next = k + 1)
             /\ UNCHANGED <<next, gS, gDisk, eS, eDisk, m1, m2, m3, out, err>>

\* the corresponding message of another session (own ids, own keys), same or other curve
Other(k, how) == [round |-> k, sid |-> IF how = "samesid-othercurve" THEN 1 ELSE 2,
                  curve |-> IF how = "session2" \/ k = 3 THEN (IF k = 3 THEN "-" ELSE "c1") ELSE "c2",
                  ok |-> TRUE, from |-> 2]
Misdeliver(k, how) ==
    /\ OptQ("fault", next = k + 1) /\ (k = 3 => how = "session2")
    /\ hist' = Append(hist, <<"misdeliver1", "misdeliver2", "misdeliver3">>[k] \o ":" \o how)
    /\ CASE k = 1 -> m1' = Other(1, how) /\ UNCHANGED <<m2, m3>>
         [] k = 2 -> m2' = Other(2, how) /\ UNCHANGED <<m1, m3>>
         [] k = 3 -> m3' = Other(3, how) /\ UNCHANGED <<m1, m2>>
    /\ UNCHANGED <<next, gS, gDisk, eS, eDisk, out, err>>
\* bytes that no longer parse
Malform(k) ==
    /\ OptQ("fault", next = k + 1)
    /\ hist' = Append(hist, <<"malform1", "malform2", "malform3">>[k])
    /\ CASE k = 1 -> m1' = [m1 EXCEPT !.ok = FALSE] /\ UNCHANGED <<m2, m3>>
         [] k = 2 -> m2' = [m2 EXCEPT !.ok = FALSE] /\ UNCHANGED <<m1, m3>>
         [] k = 3 -> m3' = [m3 EXCEPT !.ok = FALSE] /\ UNCHANGED <<m1, m2>>
    /\ UNCHANGED <<next, gS, gDisk, eS, eDisk, out, err>>

Next == G1 \/ E2 \/ G3 \/ E4 \/ RestartG \/ RestartE
        \/ (\E k \in 1..3 : Recode(k) \/ Malform(k))
        \/ (\E k \in 1..3 : \E how \in {"session2", "samesid-othercurve"} : Misdeliver(k, how))
Spec == Init /\ [][Next]_vars /\ WF_vars(G1 \/ E2 \/ G3 \/ E4)

(***************************************************************************)
(* Properties                                                              *)
(***************************************************************************)
\* whatever restarts and re-encodings happen, a finished run has the right digest
Digest == out \in {"none", "ok"}
\* a run that saw a foreign or malformed message never finishes
Rejects == "fault" \in used => out = "none"
FaultEndsInError == ("fault" \in used /\ ~Running) => err # "none"
\* without faults the run finishes whatever the restart / re-encode pattern
Completes == <>(next = 5 \/ err # "none")
NoFaultNoError == "fault" \notin used => err = "none"
Safety == Digest /\ Rejects /\ FaultEndsInError /\ NoFaultNoError
=============================================================================
